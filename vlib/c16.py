"""C16 — file-backed stores are persistent dictionaries (sequential semantics).

Correspondence: seeded operation sequences on the real FileCache / KeyValueStorage /
TableStorage and on the Lean machine `Klong.C16` (eviction choice of the real run is read
off the entry table and replayed into the model, which checks that it is legal).
Oracle (needs no model): a Python dict driven by the same sequence; accounting clauses.
"""
import os
import pickle
import shutil

import numpy as np

from . import common
from .common import Driver, fields

CLAIM = dict(
    text="Lean 4 theorems over the sequential FileCache machine: accounting invariant for every reachable state "
         "and every legal eviction choice, refinement of every operation sequence to a finite map, table merge = "
         "documented merge; model tied to klongpy.db by per-step correspondence (outputs + state digest + directory "
         "contents) with the real run's eviction choice replayed and checked for legality.",
    note="trusted: Lean kernel (axioms propext/Classical.choice/Quot.sound), correspondence harness, CPython, pickle, "
         "pandas sort/duplicated, the file system; one client at a time (concurrency is C18); keys not path prefixes of each other",
    technique="Lean 4 invariant + refinement proof, hand-written model, differential correspondence with replayed eviction choice",
    design="7/C16")

MODULES = ["Klong.Props.C16"]
THEOREMS = [
    "Klong.C16.accounting_inv",
    "Klong.C16.accounting_bounds",
    "Klong.C16.kvs_refines_map",
    "Klong.C16.spec_get_after_set",
    "Klong.C16.spec_set_other_key",
    "Klong.C16.spec_oversize_rejected",
    "Klong.C16.spec_missing_key",
    "Klong.C16.get_after_set",
    "Klong.C16.evict_all_legal",
    "Klong.C16.table_merge_spec",
]

# look-alike keys are different keys: a key and the same key with a suffix a writer might use for a scratch
# file, and texts that differ only in Unicode normalisation form (NFC / NFD, OHM SIGN / GREEK OMEGA)
KEYS_FLAT = ["a", "b", "c", "d", "a.tmp", "a~", "caf\u00e9", "cafe\u0301", "\u2126", "\u03a9"]
KEYS_NESTED = ["p/a", "p/b", "q/r/a", "q/r/b", "q/c", "p/a.tmp", "q/r/a.bak"]


class _Clock:
    def __init__(self):
        self.t = 0

    def time_ns(self):
        self.t += 1
        return self.t


def _hex(b):
    return bytes(b).hex()


def _disk_listing(root):
    items = []
    for dp, dn, fn in os.walk(root):
        for f in fn:
            full = os.path.join(dp, f)
            rel = os.path.relpath(full, root)
            with open(full, "rb") as fh:
                items.append(f"{rel}@{fh.read().hex()}")
    return ",".join(sorted(items))


def _digest(fc, root):
    ents = ",".join(sorted(f"{n}@{info[1]}" for n, info in fc.file_futures.items()))
    return f"mem={fc.current_memory_usage} entries={ents} disk={_disk_listing(root)}"


class RealCache:
    """the real FileCache driven op by op; returns (protocol line, observed reply)"""

    def __init__(self, maxmem, root):
        import klongpy.db.file_cache as fcm
        self.fcm = fcm
        self.saved_time = fcm.time
        fcm.time = _Clock()
        self.max = maxmem
        self.root = root
        self.fc = fcm.FileCache(max_memory=maxmem, root_path=root)

    def close(self):
        self.fc.executor.shutdown(wait=True)
        self.fcm.time = self.saved_time

    def internal_consistency(self):
        """entry table vs access list vs flags (part of the tie, not of the property)"""
        fc = self.fc
        problems = []
        acc = sorted(fn for _, fn in fc.file_access_times)
        if acc != sorted(fc.file_futures):
            problems.append(f"access-list {acc} != entries {sorted(fc.file_futures)}")
        for n, info in fc.file_futures.items():
            if info[0]:
                problems.append(f"entry {n} left writing")
        return problems

    def apply(self, op):
        fc = self.fc
        kind = op[0]
        before = set(fc.file_futures)
        if kind == "update":
            _, name, data = op
            try:
                r = fc.update_file(name, data)
                out = "applied" if r else "notapplied"
            except MemoryError:
                out = "memerr"
            ev = sorted(before - set(fc.file_futures) - {name})
            line = f"update name={name} data={_hex(data)} ev={','.join(ev)}"
        elif kind == "get":
            _, name = op
            try:
                r = fc.get_file(name)
                out = "data:" + _hex(r)
            except FileNotFoundError:
                out = "notfound"
            except MemoryError:
                out = "memerr"
            ev = sorted(before - set(fc.file_futures) - {name})
            line = f"get name={name} ev={','.join(ev)}"
        elif kind == "unload":
            _, name = op
            fc.unload_file(name)
            out = "done"
            line = f"unload name={name}"
        elif kind == "reopen":
            fc.executor.shutdown(wait=True)
            if len(op) > 1:                 # another store object on the same directory, with another limit
                self.max = op[1]
            self.fc = self.fcm.FileCache(max_memory=self.max, root_path=self.root)
            out = "done"
            line = "reopen" + (f" max={op[1]}" if len(op) > 1 else "")
        else:
            raise ValueError(kind)
        return line, out + " " + _digest(self.fc, self.root)


def gen_ops(rng, n, keys, maxmem):
    ops = []
    sizes = [1, 2, 3, max(1, maxmem // 2), maxmem, maxmem + 1, max(1, maxmem - 1)]
    for _ in range(n):
        r = rng.random()
        k = rng.choice(keys)
        if r < 0.40:
            size = rng.choice(sizes)
            ops.append(("update", k, bytes(rng.randrange(256) for _ in range(size))))
        elif r < 0.80:
            ops.append(("get", k))
        elif r < 0.90:
            ops.append(("unload", k))
        elif r < 0.95:
            ops.append(("reopen",))
        else:
            # a smaller or larger limit than the files already on disk were written under
            ops.append(("reopen", rng.choice([1, 2, 3, max(1, maxmem // 2), max(1, maxmem - 1), maxmem, maxmem + 1, 2 * maxmem])))
    return ops


def run_cache_sequence(ctx, ops, maxmem, drv, label):
    """one sequence on the real cache, the Lean machine and the dict oracle"""
    root = ctx.mkdtemp()
    rc = RealCache(maxmem, root)
    oracle = {}
    broken_tables = False
    try:
        if drv:
            drv.ask(f"new max={maxmem}")
        for i, op in enumerate(ops):
            case = dict(kind=label, max=maxmem, ops=[_op_json(o) for o in ops[:i + 1]])
            try:
                line, impl = rc.apply(op)
            except Exception as e:  # the real code failed in a way the property excludes
                ctx.oracle_fail(f"fcache:{op[0]}:raises:{type(e).__name__}", case,
                                "operation returns", f"{type(e).__name__}: {e}")
                return
            model = drv.ask(line) if drv else None
            f = fields(impl)
            out = f["_"]
            # ---- property oracle (no model involved)
            mem = int(f["mem"])
            cur = rc.max                    # the limit of the store object in use (a reopen may change it)
            ent_sum = sum(int(x.split("@")[1]) for x in f["entries"].split(",") if x)
            if mem != ent_sum or mem < 0 or mem > cur:
                ctx.oracle_fail("fcache:accounting", case,
                                f"0 <= mem == sum(entries)={ent_sum} <= {cur}", f"mem={mem}")
            if op[0] == "update":
                if len(op[2]) > cur:
                    exp = "memerr"
                else:
                    exp = "applied"
                    oracle[op[1]] = op[2]
                if out != exp:
                    ctx.oracle_fail("fcache:update-result", case, exp, out)
            elif op[0] == "get":
                if op[1] not in oracle:
                    exp = "notfound"
                elif len(oracle[op[1]]) > cur:
                    exp = "memerr"
                else:
                    exp = "data:" + _hex(oracle[op[1]])
                if out != exp:
                    ctx.oracle_fail("fcache:get-latest-set", case, exp, out)
            # ---- correspondence
            if model is not None and model != impl:
                ctx.mismatch("Klong.C16.step vs FileCache." + op[0], case, model, impl)
                drv = None       # the tie is broken: go on with the property's own oracle only
            probs = rc.internal_consistency() if not broken_tables else []
            if probs:
                ctx.mismatch("FileCache internal tables", case, "consistent", "; ".join(probs))
                broken_tables = True
                drv = None
            ctx.bump("op:" + op[0])
            ctx.bump("out:" + out.split(":")[0])
            if "ev=" in line and line.split("ev=")[1].strip():
                ctx.bump("evictions")
        ctx.count((label, maxmem, tuple(_op_json(o) for o in ops)), nontrivial=len(ops) >= 2)
        ctx.sample(dict(kind=label, max=maxmem, ops=[_op_json(o) for o in ops][:8]))
    finally:
        rc.close()
        shutil.rmtree(root, ignore_errors=True)


def _op_json(o):
    return [o[0]] + [x.hex() if isinstance(x, (bytes, bytearray)) else x for x in o[1:]]


# --------------------------------------------------------------------------- Klong level

def klong_values(rng):
    # ('y', name) = symbol, ('c', ch) = character: kinds that a str-based store could confuse with strings
    vals = [0, -3, 17, 2.5, 2.0, "", "abc", 'say "hi"', [1, 2, 3], [1.5, 2.5], [[1, 2], [3, 4]],
            [1, [2, "x"]], [], {"a": 1}, {"k": "v", "n": 2}, {},
            ('y', "foo"), ('c', "x"), ('c', " "), "foo", "x", [('y', "a"), ('c', "b"), "c"],
            {"s": ('y', "foo"), "c": ('c', "x")}, {('y', "k"): 1}, [('c', "a"), ('c', "b")]]
    return rng.choice(vals)


def _klit(v):
    if isinstance(v, tuple):
        return (":" if v[0] == 'y' else "0c") + v[1]
    if isinstance(v, dict):
        return ":{" + " ".join(f"[{_klit(k)} {_klit(x)}]" for k, x in v.items()) + "}"
    if isinstance(v, str):
        return '"' + v.replace('"', '""') + '"'
    if isinstance(v, list):
        return "[" + " ".join(_klit(x) for x in v) + "]"
    return str(v)


def canon(v):
    from klongpy.core import KGSym, KGChar
    import klongpy.core as core
    if v is core.KLONG_UNDEFINED or type(v).__name__ == "KGUndefined":
        return "U"
    if isinstance(v, tuple) and len(v) == 2 and v[0] in ('y', 'c', 'r') and not isinstance(v[1], (list, tuple, dict)):
        return v
    if core.is_char(v):
        return ('c', str(v))
    if isinstance(v, KGSym):
        return ('y', str(v))
    if isinstance(v, np.ndarray):
        return [canon(x) for x in v.tolist()] if v.dtype != object else [canon(x) for x in v]
    if isinstance(v, (list, tuple)):
        return [canon(x) for x in v]
    if isinstance(v, dict):
        return {"dict": sorted(((canon(k), canon(x)) for k, x in v.items()), key=repr)}
    if isinstance(v, (bool, np.bool_)):
        return int(v)
    if isinstance(v, (np.integer,)):
        return int(v)
    if isinstance(v, (float, np.floating)):
        return ('r', float(v))          # integer / real kind is part of the value
    return v


def run_kvs_value_independence(ctx):
    """what a get returns is the value of the latest set, whatever was done to values handed out earlier: a value
    obtained from the store is changed in place (Klong Join on a dictionary, element assignment on an array from
    Python), then the same key is read again through the same store object while the entry is still cached"""
    from klongpy import KlongInterpreter
    from klongpy.db.sys_fn_kvs import KeyValueStorage
    for maxmem in (2 ** 20, 400):
        root = ctx.mkdtemp()
        klong = KlongInterpreter()
        store = KeyValueStorage(root, max_memory=maxmem)
        klong["kvs"] = store
        try:
            for key, lit, mutate in (("d1", ':{["a" 1]}', "dict"), ("l1", "[1 2 3]", "array"), ("n1", "[[1 2] [3 4]]", "array"),
                                     ("p/d2", ':{["k" [1 2]] ["m" 5]}', "dict"), ("s1", '"abc"', "none")):
                text = f'kvs,"{key}",,{lit}'
                case = dict(kind="kvs-value-independence", max=maxmem, program=[text, f'g1::kvs?"{key}"', "<change g1 in place>", f'kvs?"{key}"'])
                try:
                    klong(text)
                    want = canon(klong(lit))
                    g1 = klong(f'g1::kvs?"{key}"')
                    if mutate == "dict":
                        klong('g1,"zz",,99')
                    elif mutate == "array":
                        g1 = klong("g1")
                        try:
                            g1[0] = 99
                        except Exception:
                            pass
                    g2 = klong(f'kvs?"{key}"')
                    got = canon(g2)
                except Exception as e:
                    ctx.oracle_fail(f"kvs:independence:raises:{type(e).__name__}", case, "the operations return", repr(e))
                    continue
                ctx.count(("kvs-indep", maxmem, key), nontrivial=True)
                ctx.bump("kvs:value-independence")
                if got != want:
                    ctx.oracle_fail("kvs:get-latest-set", case, repr(want), repr(got))
                elif mutate != "none" and g2 is klong("g1"):
                    ctx.oracle_fail("kvs:get-returns-shared-object", case, "a value of its own", "the object handed out by the earlier get")
        finally:
            store.cache.executor.shutdown(wait=True)
            shutil.rmtree(root, ignore_errors=True)


ODD_KEYS = ["users//ann", "users/./bob", "tmp/../users/bob", "users/ann/", "./top", "../leak", "/abs", "users/../top",
            "users/ann/.", "", ".", ".."]


def run_odd_keys(ctx):
    """other keys are unaffected: keys with an empty, `.` or `..` level (or a leading `/`) name - if the store
    accepts them at all - entries of their own.  Ordinary keys are set, each odd key is then set (a refusal is
    counted, not judged), and every ordinary key is read through the same store object and through one opened
    afterwards on the same directory; nothing may appear outside the store directory.  Both stores."""
    import pandas as pd
    from klongpy import KlongInterpreter
    from klongpy.db.sys_fn_kvs import KeyValueStorage, TableStorage
    from klongpy.db.sys_fn_db import Table
    for kind in ("kvs", "tables"):
        outer = ctx.mkdtemp()
        root = os.path.join(outer, "store")
        os.makedirs(root)
        klong = KlongInterpreter()

        def mk():
            return KeyValueStorage(root, max_memory=2 ** 20) if kind == "kvs" else TableStorage(root, max_memory=2 ** 20)

        def val(i):
            if kind == "kvs":
                return [i, i + 1]
            return Table(pd.DataFrame({"a": [i, i + 1], "b": [10 * i, 10 * i + 1]}))

        def read(store, k):
            v = store.get(k) if hasattr(store, "get") else store[k]
            if kind == "kvs":
                return canon(v)
            return "U" if not isinstance(v, Table) else sorted(map(tuple, v.get_dataframe().values.tolist()))

        store = mk()
        ordinary = {"top": 1, "users/ann": 3, "users/bob": 5, "leak": 7, "abs": 9}
        try:
            klong["st"] = store
            for k, i in ordinary.items():
                store.set(k, val(i))
            want = {k: read(store, k) for k in ordinary}
            accepted = []
            for j, ok in enumerate(ODD_KEYS):
                case = dict(kind="odd-keys", store=kind, ordinary=sorted(ordinary), odd_key=ok)
                try:
                    store.set(ok, val(100 + 2 * j))
                    accepted.append(ok)
                    ctx.bump(f"{kind}:odd-key-accepted")
                except Exception:
                    ctx.bump(f"{kind}:odd-key-refused")
                ctx.count(("odd-keys", kind, ok), nontrivial=True)
                outside = sorted(x for x in os.listdir(outer) if x != "store")
                if outside:
                    ctx.oracle_fail(f"{kind}:odd-key:writes-outside-store", case, "only the store directory", repr(outside))
                    break
            for phase in ("same-store", "reopened"):
                if phase == "reopened":
                    store.cache.executor.shutdown(wait=True)
                    store = mk()
                for k in ordinary:
                    case = dict(kind="odd-keys", store=kind, ordinary=sorted(ordinary), odd_keys_accepted=accepted, read=k, through=phase)
                    try:
                        got = read(store, k)
                    except Exception as e:
                        got = f"raises {type(e).__name__}"
                    if got != want[k]:
                        ctx.oracle_fail(f"{kind}:other-keys-unaffected", case, repr(want[k]), repr(got),
                                        "a set of another key changed what this key reads")
        except Exception as e:
            ctx.oracle_fail(f"{kind}:odd-keys:raises:{type(e).__name__}", dict(kind="odd-keys", store=kind), "the operations return", repr(e))
        finally:
            store.cache.executor.shutdown(wait=True)
            shutil.rmtree(outer, ignore_errors=True)


def run_klong_kvs(ctx, drv, nseq, length):
    """`d,k,v` / `d?k` through the interpreter over a store with a small cache limit"""
    from klongpy import KlongInterpreter
    from klongpy.db.sys_fn_kvs import KeyValueStorage
    for s in range(nseq):
        root = ctx.mkdtemp()
        keys = ctx.rng.choice([KEYS_FLAT, KEYS_NESTED, KEYS_FLAT + KEYS_NESTED])
        maxmem = ctx.rng.choice([60, 120, 400, 2 ** 20])
        klong = KlongInterpreter()
        store = KeyValueStorage(root, max_memory=maxmem)
        klong["kvs"] = store
        oracle = {}
        trace = []
        if drv:
            drv.ask(f"new max={maxmem}")
        try:
            for i in range(length):
                r = ctx.rng.random()
                k = ctx.rng.choice(keys)
                if r < 0.45:
                    v = klong_values(ctx.rng)
                    # a dictionary literal is not evaluated inside a list literal; `,0cx` is the string "x"
                    text = f'kvs,"{k}",,{_klit(v)}' if isinstance(v, dict) else f'kvs,["{k}" {_klit(v)}]'
                    trace.append(text)
                    case = dict(kind="klong-kvs", max=maxmem, program=list(trace))
                    before = set(store.cache.file_futures)
                    try:
                        klong(text)
                    except MemoryError:
                        ctx.bump("kvs:set-oversize")
                        continue
                    except Exception as e:
                        ctx.oracle_fail(f"kvs:set:raises:{type(e).__name__}", case, "set succeeds", repr(e))
                        break
                    oracle[k] = canon(v)
                    ctx.bump("kvs:set")
                    if drv:
                        try:
                            data = open(os.path.join(root, k), "rb").read()
                        except OSError as e:
                            # the value is not in the file the model keeps for this key: the tie is broken for the
                            # rest of this history (the get-after-set oracle goes on without the model)
                            ctx.mismatch("Klong.C16.step vs KeyValueStorage.set (file of the key)", case,
                                         f"file {k!r} holds the pickled value", f"{type(e).__name__}: {e}")
                            drv = None
                            continue
                        ev = sorted(before - set(store.cache.file_futures) - {k})
                        m = drv.ask(f"update name={k} data={data.hex()} ev={','.join(ev)}")
                        impl = "applied " + _digest(store.cache, root)
                        if m != impl:
                            ctx.mismatch("Klong.C16.step vs KeyValueStorage.set", case, m, impl)
                            break
                elif r < 0.9:
                    text = f'kvs?"{k}"'
                    trace.append(text)
                    case = dict(kind="klong-kvs", max=maxmem, program=list(trace))
                    before = set(store.cache.file_futures)
                    try:
                        got = canon(klong(text))
                    except Exception as e:
                        got = f"raises {type(e).__name__}"
                    exp = oracle.get(k, "U")
                    if got != exp:
                        key = "kvs:missing-key" if k not in oracle else "kvs:get-latest-set"
                        ctx.oracle_fail(key, case, exp, got,
                                        "a key that was never set must read as :undefined" if k not in oracle else "")
                        if k in oracle:
                            break
                    ctx.bump("kvs:get-hit" if k in oracle else "kvs:get-missing")
                    if isinstance(exp, dict) and got == exp and ctx.rng.random() < 0.7:
                        # a program updating the dictionary it got back must not change the store:
                        # every get hands out the stored value, not a shared object
                        mut = f'gg::kvs?"{k}";gg,"zz",,99'
                        trace.append(mut)
                        try:
                            klong(mut)
                        except Exception:
                            pass
                        ctx.bump("kvs:mutate-returned-dict")
                    if drv:
                        ev = sorted(before - set(store.cache.file_futures) - {k})
                        m = drv.ask(f"get name={k} ev={','.join(ev)}")
                        mf = fields(m)
                        if k in oracle:
                            want = "data:" + open(os.path.join(root, k), "rb").read().hex()
                            impl = want + " " + _digest(store.cache, root)
                            if got == exp and m != impl:
                                ctx.mismatch("Klong.C16.step vs KeyValueStorage.get", case, m, impl)
                                break
                        elif mf["_"] != "notfound":
                            ctx.mismatch("Klong.C16.step vs KeyValueStorage.get(missing)", case, m, "notfound")
                            break
                else:
                    store.cache.executor.shutdown(wait=True)
                    store = KeyValueStorage(root, max_memory=maxmem)
                    klong["kvs"] = store
                    trace.append("<reopen>")
                    ctx.bump("kvs:reopen")
                    if drv:
                        drv.ask("reopen")
            ctx.count(("klong-kvs", maxmem, tuple(trace)))
            if s < 2:
                ctx.sample(dict(kind="klong-kvs", max=maxmem, program=trace[:10]))
        finally:
            store.cache.executor.shutdown(wait=True)
            shutil.rmtree(root, ignore_errors=True)


# --------------------------------------------------------------------------- table store

def run_tables_pending_inserts(ctx):
    """a table that still holds UNREAD inserts is stored with them: `.insert(t;row)` then `ts,"k",,t` with no read
    of the table in between; what the store returns (same store object, and one opened on the same directory
    afterwards) holds every inserted row"""
    from klongpy import KlongInterpreter
    root = ctx.mkdtemp()
    klong = KlongInterpreter()
    prog = ['.py("klongpy.db")', f'ts::.tables("{root}")',
            'T::.table([["a" [1 2]] ["b" [10 20]]])', '.insert(T;[3 30])', 'ts,"t/p",,T',
            'U::.table([["a" [5]] ["b" [50]]])', '.insert(U;[6 60])', '.insert(U;[7 70])', 'ts,"u",,U']
    case = dict(kind="tables-pending-insert", program=prog)
    try:
        for st in prog:
            klong(st)
        for key, want in (("t/p", [[1, 10], [2, 20], [3, 30]]), ("u", [[5, 50], [6, 60], [7, 70]])):
            for label, text in (("same store", f'ts?"{key}"'), ("reopened store", f'ts2::.tables("{root}");ts2?"{key}"')):
                tbl = klong(text)
                got = [[int(x) for x in r] for r in tbl.get_dataframe().values.tolist()]
                ctx.count(("tables-pending", key, label), nontrivial=True)
                ctx.bump("tables:pending-insert")
                if got != want:
                    ctx.oracle_fail("tables:set-with-pending-inserts", dict(case, read=label, key=key), repr(want), repr(got))
        # a table obtained from the store is the program's own value: a column added to it, or an index put on it,
        # must not show in what the store returns for that key afterwards (no set happened)
        prog2 = ['g::ts?"t/p"', 'g,"w",,[7 8 9]', '.index(g;["a"])']
        case2 = dict(kind="tables-value-independence", program=prog + prog2 + ['ts?"t/p"'])
        for st in prog2:
            klong(st)
        again = klong('ts?"t/p"')
        cols = [str(c) for c in again.get_dataframe().columns]
        rows = [[int(x) for x in r] for r in again.get_dataframe().values.tolist()]
        idx = [int(i) for i in again.get_dataframe().index.tolist()]
        ctx.count(("tables-independence",), nontrivial=True)
        ctx.bump("tables:value-independence")
        if cols != ["a", "b"] or rows != [[1, 10], [2, 20], [3, 30]] or idx != [0, 1, 2]:
            ctx.oracle_fail("tables:get-latest-set", case2, "columns a b, rows [[1 10] [2 20] [3 30]], row index 0 1 2",
                            f"columns {cols}, rows {rows}, index {idx}")
        fc = klong("ts").cache
        ent = sum(int(info[1]) for info in fc.file_futures.values())
        if int(fc.current_memory_usage) != ent:
            ctx.oracle_fail("tables:accounting", case2, f"mem == sum(entries)={ent}", f"mem={fc.current_memory_usage}")
    except Exception as e:
        ctx.oracle_fail(f"tables:pending:raises:{type(e).__name__}", case, "the program runs", repr(e))
    finally:
        shutil.rmtree(root, ignore_errors=True)


def run_tables(ctx, drv, nseq):
    """ts,key,table merges: existing rows win on equal index, result sorted by index"""
    import pandas as pd
    from klongpy.db.sys_fn_kvs import TableStorage
    from klongpy.db.sys_fn_db import Table
    for s in range(nseq):
        root = ctx.mkdtemp()
        ts = TableStorage(root)
        model = []      # oracle: list of (idx, row) sorted by idx, first writer wins
        hist = []
        try:
            for step in range(ctx.rng.randrange(1, 5)):
                n = ctx.rng.choice([0, 1, 2, 3, 5, 20]) if step else ctx.rng.choice([1, 2, 3, 20])
                idx = [ctx.rng.randrange(-3, 12) for _ in range(n)]
                mode = ctx.rng.random()
                if mode < 0.3 and n:
                    # time-series style append: sorted keys above everything stored, repeats included
                    base = (max([k for k, _ in model]) + 1) if model else 0
                    idx = sorted(base + ctx.rng.randrange(0, 4) for _ in range(n))
                elif mode < 0.45 and n:
                    idx = sorted(idx)
                rows = [[ctx.rng.randrange(100), ctx.rng.randrange(100)] for _ in range(n)]
                if n == 0:
                    continue
                df = pd.DataFrame(rows, columns=["a", "b"], index=idx)
                hist.append(dict(index=idx, rows=rows))
                case = dict(kind="table-merge", history=list(hist))
                try:
                    ts.set("t/x", Table(df))
                    got = ts.get("t/x").get_dataframe()
                except Exception as e:
                    ctx.oracle_fail(f"tables:raises:{type(e).__name__}", case, "merge", repr(e))
                    break
                got_f = [(int(i), [int(x) for x in r]) for i, r in zip(got.index.tolist(), got.values.tolist())]
                # accounting of the table store's cache (usage = DataFrame memory, not file size)
                fc = ts.cache
                ent = sum(int(info[1]) for info in fc.file_futures.values())
                if int(fc.current_memory_usage) != ent or fc.current_memory_usage < 0 or fc.current_memory_usage > fc.max_memory:
                    ctx.oracle_fail("tables:accounting", case, f"0 <= mem == sum(entries)={ent} <= {fc.max_memory}",
                                    f"mem={fc.current_memory_usage}")
                    break
                # oracle: existing rows win, then first new row per index, sorted
                d = dict(model)
                for i, r in zip(idx, rows):
                    d.setdefault(i, r)
                old = list(model)
                model = sorted(d.items())
                if got_f != model:
                    ctx.oracle_fail("tables:merge", case, model, got_f)
                    break
                if drv:
                    enc = lambda fr: ";".join(f"{i}:{','.join(map(str, r))}" for i, r in fr)
                    m = drv.ask(f"merge old={enc(old)} new={enc(list(zip(idx, rows)))}")
                    impl = "frame=" + enc(got_f)
                    if m != impl:
                        ctx.mismatch("Klong.C16.merge vs PandasDataFrameCache.update", case, m, impl)
                        break
                ctx.bump("tables:merge")
                if ctx.rng.random() < 0.3:
                    ts.cache.executor.shutdown(wait=True)
                    ts = TableStorage(root)
                    ctx.bump("tables:reopen")
                    # a table loaded from disk (not written through this object) and then unloaded
                    ts.get("t/x")
                    fc = ts.cache
                    ent = sum(int(info[1]) for info in fc.file_futures.values())
                    if int(fc.current_memory_usage) != ent:
                        ctx.oracle_fail("tables:accounting", dict(case, after="reopen+get"),
                                        f"mem == sum(entries)={ent}", f"mem={fc.current_memory_usage}")
                        break
                    if ctx.rng.random() < 0.5:
                        fc.unload_file("t/x")
                        if fc.current_memory_usage != 0 or fc.file_futures:
                            ctx.oracle_fail("tables:accounting", dict(case, after="reopen+get+unload"),
                                            "mem == 0 and no entries", f"mem={fc.current_memory_usage} entries={list(fc.file_futures)}")
                            break
            miss = ts.get("never/set")
            if canon(miss) != "U":
                ctx.oracle_fail("tables:missing-key", dict(kind="table-missing"), "U", repr(miss))
            ctx.count(("tables", repr(hist)))
            if s < 1:
                ctx.sample(dict(kind="table-merge", history=hist[:3]))
        finally:
            ts.cache.executor.shutdown(wait=True)
            shutil.rmtree(root, ignore_errors=True)


# --------------------------------------------------------------------------- entry

def extract_constants(ctx):
    """translator part: constants the model's statement depends on, read from the AST"""
    import ast
    src = (common.REPO / "klongpy/db/sys_fn_kvs.py").read_text()
    tree = ast.parse(src)
    fsync = None
    for node in ast.walk(tree):
        if isinstance(node, ast.Call) and getattr(node.func, "attr", "") == "update_file":
            for kw in node.keywords:
                if kw.arg == "use_fsync":
                    fsync = ast.literal_eval(kw.value)
    ctx.extra["kvs_use_fsync"] = fsync


def run(ctx):
    quick = ctx.tier == "quick"
    extract_constants(ctx)
    drv = Driver("c16") if getattr(ctx, "driver_ok", True) else None
    ctx.rule = ("seeded operation sequences (update/get/unload/reopen, oversize values) over flat and nested "
                "names x limits from one entry to everything on FileCache; d,k,v / d?k programs through the "
                "interpreter on a KeyValueStorage with small limits; ts,k,t merges on TableStorage. "
                "distinct = distinct sequences; non-trivial = at least two operations")
    ctx.assumptions += [
        "one client at a time (future.result() makes each operation run its worker to completion); concurrency is C18",
        "no key is a path prefix of another key (a/b with a as a file is outside the dictionary reading)",
        "pickle round trip and pandas sort_index/duplicated are trusted (validated by the oracle comparison)",
    ]
    try:
        # corpus first
        cdir = common.CORPUS / "C16"
        if cdir.exists():
            for p in sorted(cdir.glob("*.json")):
                import json
                c = json.loads(p.read_text())
                ops = [tuple([o[0]] + [bytes.fromhex(x) if i == 1 and o[0] == "update" else x
                                       for i, x in enumerate(o[1:])]) for o in c["ops"]]
                run_cache_sequence(ctx, ops, c["max"], drv, "corpus")
        nseq = 700 if quick else 4000
        for s in range(nseq):
            maxmem = ctx.rng.choice([1, 2, 3, 4, 6, 8, 10, 16, 64])
            keys = ctx.rng.choice([KEYS_FLAT, KEYS_NESTED, KEYS_FLAT[:2], KEYS_FLAT + KEYS_NESTED])
            ops = gen_ops(ctx.rng, ctx.rng.randrange(2, 14 if quick else 40), keys, maxmem)
            run_cache_sequence(ctx, ops, maxmem, drv, "fcache")
        run_kvs_value_independence(ctx)
        run_odd_keys(ctx)
        run_klong_kvs(ctx, drv, 80 if quick else 500, 12 if quick else 40)
        run_tables_pending_inserts(ctx)
        run_tables(ctx, drv, 80 if quick else 500)
    finally:
        if drv:
            drv.close()


def replay(ctx, case):
    drv = Driver("c16") if getattr(ctx, "driver_ok", True) else None
    c = case.get("case", case)
    try:
        if c.get("kind") in ("fcache", "corpus"):
            ops = []
            for o in c["ops"]:
                if o[0] == "update":
                    ops.append(("update", o[1], bytes.fromhex(o[2])))
                else:
                    ops.append(tuple(o))
            run_cache_sequence(ctx, ops, c["max"], drv, "fcache")
        else:
            run(ctx)
    finally:
        if drv:
            drv.close()
    print("replay:", "oracle failures:", ctx.oracle_failures, "mismatches:", ctx.mismatches)
