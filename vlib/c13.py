"""C13 — remote evaluation over IPC equals evaluation on the server.

(a) framing: real `encode_message` frames (1..3 per stream), cut in every way into <= 3 reads
    (exhaustive for short frames, seeded for long ones), complete and truncated at every byte, fed
    to a real asyncio.StreamReader and read by the real `stream_recv_msg`; compared with the Lean
    `decodeStream` on the same reads (raw id / body bytes and how the stream ends).
    Oracle (needs no model): the messages come out intact, one by one, in order; a stream that ends
    inside a frame gives exactly the complete frames and then IncompleteReadError.
(b) dispatch: a live in-process server and client (two interpreters with their own loops,
    loopback TCP) and a twin interpreter: f("expr"), f(:name), f(:name,args), proxies, remote
    dictionary get / set over the transportable universe and seeded operation sequences.
    Oracle: the client-side result, its `:_` test and the server's variables equal those of the
    same operation done locally on the twin.  Correspondence: the Lean dispatch model (`remoteStep`
    over the `Mini` interpreter) run in lockstep.
"""
import asyncio
import os
import pickle
import socket
import struct
import threading
import time
import uuid

import numpy as np

from . import common
from .common import Driver, Infra

CLAIM = dict(
    text="Lean 4 theorems: the receive loop (three readexactly per frame over a buffered reader) computes a function "
         "of the concatenated byte stream only, returns exactly the encoded messages in order for every way of cutting "
         "or merging reads, and reports end-of-stream-inside-a-frame for every truncation; every history of remote "
         "operations (text, symbol, function call, proxy call, dict get/set) over any interpreter equals the same "
         "history run on the server when the pickle round trip is the identity (proved for the singleton KGUndefined, "
         "refuted by a decided witness for the pinned class). Tied to klongpy.sys_fn_ipc by feeding real "
         "encode_message output to a real asyncio.StreamReader / stream_recv_msg under exhaustive <=3-read cuts, and "
         "by a live loopback server/client pair run in lockstep with the dispatch model and a twin interpreter.",
    note="trusted: Lean kernel (axioms propext/Quot.sound), correspondence harness, CPython, asyncio streams, the "
         "loopback TCP stack, pickle (its round trip is validated on the universe on every run, not verified); "
         "evaluation of Klong text itself is abstracted as an arbitrary interpreter (C01-C04); server-side errors and "
         "connection loss are C14",
    technique="Lean 4 refinement of a pull-based reader to a flat parser by induction over reads + decision-logic "
              "theorem over an abstract interpreter; differential correspondence against real asyncio streams and a "
              "live client/server pair with a twin-interpreter oracle",
    design="7/C13")

MODULES = ["Klong.Props.C13"]
THEOREMS = [
    "Klong.C13.framing_any_chunking",
    "Klong.C13.incomplete_tail",
    "Klong.C13.chunking_irrelevant",
    "Klong.C13.decodeStream_no_fuel",
    "Klong.C13.remote_step_eq_local",
    "Klong.C13.remote_eq_local",
    "Klong.C13.tau_singleton_id",
    "Klong.C13.present_isUndef",
    "Klong.C13.pinned_undefined_lost",
    "Klong.C13.not_tauId_pinned",
    "Klong.C13.whole_frame_writes_decode",
]

OP_TIMEOUT = 30.0          # one remote call; a stall is reported as an infrastructure failure


# =========================================================================== canonical form

def _hex(s):
    return s.encode("utf-8").hex()


def tok(v, asked=None):
    """canonical token form shared with the Lean model (Klong.C13.printVal)"""
    import klongpy.core as core
    import klongpy.sys_fn_ipc as ipc
    if v is core.KLONG_UNDEFINED:
        return "U"
    if type(v).__name__ == "KGUndefined":
        return "V"                      # an undefined marker that is not THE marker
    if v is None:
        return "N"
    if isinstance(v, ipc.KGRemoteFnProxy):
        return f"P{len(v.args)},y{_hex(str(v.sym))}"
    if isinstance(v, ipc.KGRemoteFnRef):
        return f"F{v.arity}"
    if isinstance(v, core.KGSym):
        return "y" + _hex(str(v))
    if isinstance(v, core.KGChar) or (isinstance(v, str) and type(v).__name__ == "KGChar"):
        # klongpy.types.KGChar and the backend's own character class (what indexing a string yields)
        return f"c{ord(str(v))}" if len(v) == 1 else "Xchar"
    if isinstance(v, str):
        return "s" + _hex(v)
    if isinstance(v, (bool, np.bool_)):
        return f"i{int(v)}"
    if isinstance(v, (int, np.integer)):
        return f"i{int(v)}"
    if isinstance(v, (float, np.floating)):
        return "r" + struct.pack(">d", float(v)).hex()
    if isinstance(v, np.ndarray):
        if v.ndim == 0:
            return tok(v.item())
        return ",".join([f"L{len(v)}"] + [tok(x) for x in v])
    if isinstance(v, (list, tuple)):
        return ",".join([f"L{len(v)}"] + [tok(x) for x in v])
    if isinstance(v, dict) and not isinstance(v, ipc.NetworkClientDictHandle):
        items = sorted((tok(k), tok(x)) for k, x in v.items())
        return ",".join([f"D{len(items)}"] + [a + "," + b for a, b in items])
    ar = _fn_arity(v)
    if ar is not None:
        return f"G{ar}"
    return "X" + type(v).__name__


def _fn_arity(v):
    """number of arguments the function is called with (a projection: its open slots)"""
    import klongpy.core as core
    if isinstance(v, core.KGFnWrapper):
        v = v.fn
    if isinstance(v, core.KGFn):
        if isinstance(v.args, list) and any(a is None for a in v.args):
            return sum(1 for a in v.args if a is None)
        return v.arity
    if isinstance(v, core.KGLambda):
        return v.get_arity()
    return None


def present(v, asked):
    """how a local result shows through a remote handle (Lean `present`)"""
    ar = _fn_arity(v)
    if ar is None:
        return tok(v)
    return f"P{ar},y{_hex(asked)}" if asked is not None else f"F{ar}"


def is_data(t):
    """token string of a value of the transportable universe"""
    return not any(p[0] in "VNFGPX" for p in t.split(","))


# =========================================================================== universe

UNIVERSE = [
    "0", "1", "-1", "2", "17", "100", "2147483647", "-2147483648",
    "0.0", "0.5", "1.5", "-2.5", "1e100", "0.0000001",
    "0ca", "0cA", "0c0", "0c ", '0c"',
    ":a", ":zed",
    '""', '"a"', '"abc"', '"hello foo"', '"abcdefg"', '"say ""hi"""', '"héllo 世"',
    "[]", "[1]", "[1 2 3]", "[0 1 1 0]", "[1.5 2.5]", "[1 2.5]", "[0ca 0cb]", "!5", "1=1", "[1 2]=[1 3]",
    '[1 "a" :b 0cx]', '["ab" "cd"]', '["a" "bcd"]', "[:a 1 2]", "[:a]",
    "[[1 2] [3 4]]", "[[1 2 3] [4 5 6]]", "[[1.5] [2.5] [3.5]]", "[[1 2 3]]", '["abc" "def"]',
    "[[[1 2] [3 4]] [[5 6] [7 8]]]",
    "[[1] [2 3]]", "[1 [2]]", "[1 [2 [3 [4] 5] 6] 7]", "[[] [1]]", '[[] ""]', "[[]]",
    ":{}", ":{[1 2]}", ':{[:a 1] ["b" [1 2]] [0cc "x"]}', ':{[1.5 "r"] [2 [[1 2] [3 4]]]}',
    "1%0", "(1%0),(1%0)", "1,(1%0)", "[1 2],1%0", '(,1%0),,"a"', ":{[1 2]},1,(1%0)", ",,1%0",
]
# values PRODUCED by evaluating expressions (not literals): characters from indexing a string, numpy scalars
# from arithmetic, results of the primitives on strings, containers holding such values
COMPUTED = [
    '"abc"@1', '"hello"@(#"hello")-1', '*"abc"', '*|"xyz"', '|"abc"', '"abc"@[0 2]', ',"abc"@0',
    '[1 2],("abc"@1)', ':{[1 2]},1,("abc"@0)', '("abc"@1),,"abc"@2', "{x@1}'[\"ab\" \"cd\"]", '1:#"abc"',
    ':{[1 2]},("k"@0),,"v"@0', '(,"abc"@1),,,"q"@0',
    "1+1", "3%2", "2^10", '#"abc"', "+/[1 2 3]", "_3.7", "&/[3 1 2]", "0.5*3", "1.0+1", "*[1 2 3]", "[1 2 3]@1",
    "[1 2]+1", "(1+1),,3%2", "#0ca", '"abc"="abd"', '"abc"@0=0ca',
    '"abc","def"', '3#"ab"', '2_"hello"', '"hello"?"l"', '<"cab"', '?"hello"', '="hello foo"', "$123",
    '"hello"@[0 1]', ',/["ab" "cd"]', '10:$"12"', '&"hello"="l"', '0ca,0cb',
]
# values with a memory layout other than the default row-major contiguous one: Klong transposes and arithmetic
# on them, reversed / dropped / selected views, and arrays placed into the interpreters from Python
LAYOUT = [
    "+[[1 2 3] [4 5 6]]", "2*+[[1 2 3] [4 5 6]]", "(+[[1 2 3] [4 5 6]])+1", "+[[1.5 2.5] [3.5 4.5] [5.5 6.5]]",
    "(+[[1 2] [3 4]]),+[[5 6] [7 8]]", "(+[[1 2 3] [4 5 6]])*+[[1 2 3] [4 5 6]]", "+[[[1 2] [3 4]] [[5 6] [7 8]]]",
    "+[[1 2] [3 4]]", "++[[1 2 3] [4 5 6]]", "|[[1 2] [3 4] [5 6]]", "|!5", "+|[[1 2 3] [4 5 6]]",
    "1_[[1 2] [3 4] [5 6]]", "2#[[1 2] [3 4] [5 6]]", "[1 2 3 4 5 6]@[0 2 4]", ":{[1 2]},1,,+[[1 2 3] [4 5 6]]",
    "(,+[[1 2 3] [4 5 6]]),,1", "+[[1 0 1] [0 1 1]]=1",
]
PY_VALUES = {           # name -> numpy value, bound in every interpreter (server, client, twin)
    "pyT": lambda: np.arange(6).reshape(2, 3).T,
    "pyTf": lambda: (np.arange(6).reshape(2, 3) * 1.5).T,
    "pyF": lambda: np.asfortranarray(np.arange(12).reshape(3, 4)),
    "pyF3": lambda: np.asfortranarray(np.arange(24).reshape(2, 3, 4)),
    "pyS": lambda: np.arange(10)[::2],
    "pyR": lambda: np.arange(6).reshape(2, 3)[:, ::-1],
    "pyRv": lambda: np.arange(5)[::-1],
    "pyNC": lambda: np.arange(12).reshape(3, 4)[:, 1:3],
    "pyNCT": lambda: np.arange(12).reshape(3, 4)[:, 1:3].T,
    "py0": lambda: np.array(5),
    "py0f": lambda: np.array(2.5),
    "pyB": lambda: np.array([[True, False], [False, True], [True, True]]).T,
    "pyI32": lambda: np.arange(6, dtype=np.int32).reshape(3, 2).T,
    "pyOT": lambda: np.array([[1, "a"], [2.5, "bc"], [3, "d"]], dtype=object).T,
}
LAYOUT += list(PY_VALUES)
UNIVERSE += COMPUTED + LAYOUT
UNDEF_EXPRS = [e for e in UNIVERSE if "1%0" in e]

SETUP = ["k0::{77}", "id1::{x}", "snd::{x;y}", "trd::{x;y;z}", "und1::{x;:_x}", "cnt::0", "last::0",
         "bump::{cnt::cnt+x}", "keep::{last::x}",
         # asymmetric bodies and projections of them whose fixed argument is not (only) leading
         "sub::{x-y}", "cat::{x,y}", "tri::{x,y,z}",
         "dec::sub(;1)", "from10::sub(10;)", 'suf::cat(;">")', 'pre::cat("<";)', "mid::tri(1;;3)",
         "ends::tri(;2;)", "lead1::tri(7;;)", "nest::lead1(8;)", "nend::ends(;9)", "nmid::ends(5;)",
         # functions whose result is a computed character
         "lastc::{x@(#x)-1}", "nth::{x@y}"]
# name -> (arity it is called with, kind of its arguments)
PROJ = dict(sub=(2, "i"), cat=(2, "s"), tri=(3, "i"), dec=(1, "i"), from10=(1, "i"), suf=(1, "s"), pre=(1, "s"),
            mid=(1, "i"), ends=(2, "i"), lead1=(2, "i"), nest=(1, "i"), nend=(1, "i"), nmid=(1, "i"),
            lastc=(1, "S"), nth=(2, "nth"))
BUILTIN_NAMES = ["k0", "id1", "snd", "trd", "und1", "pyid", "pysnd", "bump", "keep", "cnt", "last"] + list(PROJ)
FN_ARITY = dict(k0=0, id1=1, snd=2, trd=3, und1=1, pyid=1, pysnd=2, bump=1, keep=1,
                **{k: v[0] for k, v in PROJ.items()})
USER_NAMES = ["foo", "bar", "baz", "k1", "k2"]
REBIND_NAMES = ["g", "h"]                 # names re-bound to functions of different arity by text
FN_BODIES = {0: "{77}", 1: "{x}", 2: "{x;y}", 3: "{x;y;z}"}      # model code = arity


def _setup_values(k):
    for name, mk in PY_VALUES.items():
        k[name] = mk()


# server-side names bound to IMPORTED Python callables (bare KGLambda in the context): fixed arity and wildcard
PYIMPORTS = {"sqrt": [["16"], ["2.25"]], "floor": [["3.7"]], "pow": [["2", "10"], ["1.5", "2"]],
             "fmod": [["7.5", "2"]], "atan2": [["1", "2"]], "hypot": [["3", "4"]]}
WILDCARD_IMPORTS = {"hypot"}          # math.hypot(*coordinates): klongpy sees arity 0


def _setup_interp(k):
    _setup_values(k)
    for n in PYIMPORTS:
        k(f'.pyf("math";"{n}")')
    for t in SETUP:
        k(t)
    k["pyid"] = lambda x: x
    k["pysnd"] = lambda x, y: y


def _esc(text):
    return text.replace('"', '""')


def fail(ctx, key, case, expected, observed, what=""):
    """forward at most two failures per call-site class, so that every class gets reported"""
    ctx.bump("oraclefail:" + key)
    if ctx.hist["oraclefail:" + key] <= 2:
        def short(x):
            return x[:3000] + f"...({len(x)} chars)" if isinstance(x, str) and len(x) > 3000 else x
        ctx.oracle_fail(key, case, short(expected), short(observed), what)


# =========================================================================== (a) framing

def _mtok(m):
    """canonical form of a protocol message (command objects included)"""
    import klongpy.sys_fn_ipc as ipc
    if isinstance(m, ipc.KGRemoteFnCall):
        return "call:" + tok(m.sym) + ":" + tok(list(m.params))
    if isinstance(m, ipc.KGRemoteDictSetCall):
        return "set:" + tok(m.key) + ":" + tok(m.value)
    if isinstance(m, ipc.KGRemoteDictGetCall):
        return "get:" + tok(m.key)
    if isinstance(m, ipc.KGRemoteCloseConnection):
        return "close"
    import hashlib
    if isinstance(m, str) and type(m) is str and len(m) > 2000:
        return f"S{len(m)}:{hashlib.sha1(m.encode()).hexdigest()}"      # long text: length + digest
    if isinstance(m, np.ndarray) and m.dtype != object and m.size > 500:
        # long numeric array: kind, shape and a digest of its bytes (exact, and far cheaper than its token form)
        return f"A{m.dtype.kind}{m.dtype.itemsize}{list(m.shape)}:{hashlib.sha1(np.ascontiguousarray(m).tobytes()).hexdigest()}"
    if isinstance(m, np.ndarray) and m.dtype == object and m.ndim == 1:
        return "O[" + " ".join(_mtok(x) for x in m) + "]"
    if isinstance(m, dict) and not isinstance(m, ipc.NetworkClientDictHandle) and any(
            isinstance(x, np.ndarray) and x.size > 500 for x in m.values()):
        return "M{" + " ".join(sorted(_mtok(k) + "=" + _mtok(x) for k, x in m.items())) + "}"
    t = tok(m)
    if len(t) > 4000:
        return f"H{len(t)}:{hashlib.sha1(t.encode()).hexdigest()}"      # long value: digest of its canonical form
    return t


def make_messages(twin):
    """real protocol payloads: text commands, command objects, answers"""
    import klongpy.sys_fn_ipc as ipc
    from klongpy.core import KGSym
    vals = [twin(e) for e in UNIVERSE]
    msgs = [None, 1, "", "1+1", "avg::{(+/x)%#x}"]
    msgs += vals
    msgs += [ipc.KGRemoteFnCall(KGSym("avg"), [vals[30]]), ipc.KGRemoteFnCall(KGSym("k0"), []),
             ipc.KGRemoteDictSetCall(KGSym("foo"), vals[-3]), ipc.KGRemoteDictGetCall(KGSym("foo")),
             ipc.KGRemoteFnRef(2), ipc.KGRemoteCloseConnection()]
    return msgs


def big_values(rng, quick):
    """values whose pickle is >= 64 KiB and does not deflate: full-range random int64 vectors, flat and nested"""
    def vec(n):
        return np.frombuffer(rng.randbytes(8 * n), dtype=np.int64).copy()
    out = []
    for n in ([8200] if quick else [8192, 8200, 8300, 12000, 20000]):
        out.append(vec(n))
    nested = np.empty(3, dtype=object)
    nested[0], nested[1], nested[2] = 1, vec(8500), "a"
    out.append(nested)
    if not quick:
        out.append({1: vec(8300), "k": "v"})
        m = vec(2 * 5000).reshape(2, 5000)
        out.append(m)
        out.append("".join(chr(rng.randrange(0x100, 0x2000)) for _ in range(40000)))     # high-entropy text
    return out


class StreamRig:
    """runs the real stream_recv_msg over a real StreamReader on a private loop"""

    def __init__(self):
        import klongpy.sys_fn_ipc as ipc
        self.ipc = ipc
        self.loop = asyncio.new_event_loop()

    def close(self):
        self.loop.close()

    async def _recv_all(self, chunks, lazy):
        ipc = self.ipc
        reader = asyncio.StreamReader()
        raw, out = [], []
        orig = ipc.decode_message

        def rec(raw_id, data, *a, **kw):     # whatever else the code passes is handed on untouched
            raw.append((bytes(raw_id), bytes(data)))
            return orig(raw_id, data, *a, **kw)

        ipc.decode_message = rec            # module-global lookup inside stream_recv_msg
        feeder = None
        try:
            if lazy:
                async def feed():
                    for c in chunks:
                        await asyncio.sleep(0)
                        reader.feed_data(c)
                    await asyncio.sleep(0)
                    reader.feed_eof()
                feeder = asyncio.ensure_future(feed())
            else:
                for c in chunks:
                    reader.feed_data(c)
                reader.feed_eof()
            total = sum(len(c) for c in chunks)
            budget = total // 20 + 2          # call-count budget: every frame takes >= 20 bytes
            tail = None
            while budget > 0:
                budget -= 1
                try:
                    mid, msg = await ipc.stream_recv_msg(reader)
                    out.append((mid, msg))
                except asyncio.IncompleteReadError as e:
                    tail = (len(e.partial), e.expected)
                    break
            if feeder is not None:
                await feeder
            return raw, out, tail
        finally:
            ipc.decode_message = orig

    def recv_all(self, chunks, lazy=False):
        return self.loop.run_until_complete(asyncio.wait_for(self._recv_all(chunks, lazy), 60))

    def send(self, msg_id, msg):
        """the real stream_send_msg into a collecting writer"""
        got = []

        class W:
            def write(self, b):
                got.append(bytes(b))

            async def drain(self):
                return None

        self.loop.run_until_complete(asyncio.wait_for(self.ipc.stream_send_msg(W(), msg_id, msg), 60))
        return b"".join(got)


class GatedWriter:
    """a StreamWriter stand-in whose drain() really suspends (peer not reading): the harness decides
    which suspended sender is let through next"""

    def __init__(self):
        self.writes = []
        self.waiting = []          # (sender tag, future)

    def write(self, b):
        self.writes.append((asyncio.current_task().get_name(), bytes(b)))

    async def drain(self):
        fut = asyncio.get_running_loop().create_future()
        self.waiting.append((asyncio.current_task().get_name(), fut))
        await fut


def run_concurrent_senders(ctx, drv, rig, twin):
    """two or three coroutines send on ONE connection while the transport exerts back-pressure.  For every
    order in which the suspended senders are resumed the bytes on the wire must be whole frames, one after
    the other: the receiver gets every message intact, each exactly once."""
    import klongpy.sys_fn_ipc as ipc
    quick = ctx.tier == "quick"
    rng = ctx.rng
    KiB = 1024

    def text(n):
        return rng.randbytes(n // 2 + 1).hex()[:n]

    configs = [[300 * KiB, 10], [70 * KiB, 300 * KiB, 10], [1024 * KiB, 300 * KiB]]
    if not quick:
        configs += [[300 * KiB, 300 * KiB], [1024 * KiB, 10, 70 * KiB], [257 * KiB, 256 * KiB, 255 * KiB], [600 * KiB, 50]]
    for sizes in configs:
        objs = [text(n) if n > 100 else rng.choice([1, None, "", twin('"abc"@1')]) for n in sizes]
        ids = [uuid.UUID(int=rng.getrandbits(128)) for _ in objs]
        toks = [_mtok(o) for o in objs]
        nsched = 4 if quick else 16
        for sched in range(nsched):
            choices = [rng.random() for _ in range(200)]
            case = dict(kind="senders", sizes=sizes, schedule=sched, choices=[round(c, 4) for c in choices[:12]],
                        msgs=toks)

            async def scenario():
                w = GatedWriter()
                tasks = [asyncio.ensure_future(ipc.stream_send_msg(w, i, o)) for i, o in zip(ids, objs)]
                for k, t in enumerate(tasks):
                    t.set_name(f"s{k}")
                steps = 0
                while not all(t.done() for t in tasks):
                    for _ in range(3):
                        await asyncio.sleep(0)          # let every runnable sender reach its next drain()
                    if w.waiting:
                        if sched == 0:
                            pick = 0                                    # first come first served
                        elif sched == 1:
                            pick = len(w.waiting) - 1                   # last come first served
                        else:
                            pick = int(choices[steps % len(choices)] * len(w.waiting))
                        _, fut = w.waiting.pop(pick)
                        fut.set_result(None)
                    steps += 1
                    if steps > 10000:
                        raise RuntimeError("senders do not finish")
                for t in tasks:
                    t.result()
                return w.writes

            try:
                writes = rig.loop.run_until_complete(asyncio.wait_for(scenario(), 120))
            except Exception as e:                                        # noqa
                fail(ctx, "senders:raises:" + type(e).__name__, case, "all frames sent", f"{type(e).__name__}: {e}")
                continue
            chunks = [b for _, b in writes]
            order = [t for t, _ in writes]
            total = sum(len(c) for c in chunks)
            try:
                raw, out, tail = rig.recv_all(chunks, lazy=bool(sched % 2))
                got = sorted((str(m), _mtok(o)) for m, o in out)
                impl = _impl_line(raw, tail, total, with_msgs=False)
            except Exception as e:                                        # noqa
                got, impl = f"receiver raises {type(e).__name__}: {str(e)[:120]}", "tail=raises"
            exp = sorted((str(i), t) for i, t in zip(ids, toks))
            case["write_order"] = order[:40]
            if got != exp or not impl.endswith("tail=clean"):
                fail(ctx, "senders:interleaved", case, [f"{a}:{b}" for a, b in exp],
                     got if isinstance(got, str) else [f"{a}:{b}" for a, b in got] + [impl],
                     "frames of concurrent senders on one connection must reach the wire whole")
            elif drv and total < 200 * KiB:
                m = drv.ask("decode chunks=" + ",".join(c.hex() for c in chunks))
                full_impl = _impl_line(raw, tail, total)
                if m != full_impl:
                    ctx.mismatch("Klong.C13.decodeStream vs concurrent senders", case, m[:1500], full_impl[:1500])
            ctx.bump("senders:" + "+".join(str(n // KiB) + "K" for n in sizes))
            ctx.count(("senders", tuple(sizes), sched))


def _impl_line(raw, tail, total, with_msgs=True):
    """what the real run observed, in the model's reply format"""
    msgs = ",".join(i.hex() + "/" + b.hex() for i, b in raw) if with_msgs else "-"
    if tail is None:
        return f"msgs={msgs} tail=budget"
    partial, expected = tail
    consumed = total - partial
    done = sum(20 + len(b) for _, b in raw)
    stage = {0: "id", 16: "len", 20: "body"}.get(consumed - done, f"off{consumed - done}")
    t = "clean" if (stage, partial, expected) == ("id", 0, 16) else f"inside:{stage}:{partial}:{expected}"
    return f"msgs={msgs} tail={t}"


def ask_batched(drv, lines):
    """pipelined asks (Driver.ask_many feeds from a writer thread, so sizes do not matter);
    single requests go through ask() to spare the thread"""
    if len(lines) <= 2:
        return [drv.ask(ln) for ln in lines]
    return drv.ask_many(lines)


def _cuts3(n):
    for i in range(n + 1):
        for j in range(i, n + 1):
            yield (i, j)


def run_stream_batch(ctx, drv, rig, label, frames, objs, ids, stream, cuts, lazy=False, toks=None, model_max=None):
    """one byte stream (concatenated real frames, possibly truncated) under a list of cuts"""
    if toks is None:
        toks = [_mtok(o) for o in objs]
    full = b"".join(frames)
    n = len(stream)
    # which frames are complete in `stream`
    ends, pos = [], 0
    for f in frames:
        pos += len(f)
        ends.append(pos)
    ncomplete = sum(1 for e in ends if e <= n)
    clean = n in ([0] + ends)
    lines, impls, cases = [], [], []
    frames_hex = [f.hex() for f in frames]
    bodies = [f[20:] for f in frames]
    pick = None
    if model_max is not None and len(cuts) > model_max:
        # long frames: the model sees a subset (hex lines of several 100 KB), the oracle sees all
        pick = set(ctx.rng.sample(range(len(cuts)), model_max))
    for ci, (i, j) in enumerate(cuts):
        chunks = [stream[:i], stream[i:j], stream[j:]]
        case = dict(kind="stream", label=label, frames=frames_hex, length=n, cuts=[i, j],
                    lazy=lazy, msgs=toks)
        try:
            raw, out, tail = rig.recv_all(chunks, lazy)
        except Exception as e:
            fail(ctx, "stream:raises:" + type(e).__name__, case, "frames delivered",
                            f"{type(e).__name__}: {e}")
            continue
        # ---- property oracle (no model)
        exp = [(ids[k], toks[k]) for k in range(ncomplete)]
        got = [(m, _mtok(o)) for m, o in out]
        if got != exp or [b for _, b in raw] != bodies[:ncomplete]:
            und = any("U" in t.split(",") or ":U" in t for _, t in exp)
            same_frames = [m for m, _ in got] == [m for m, _ in exp] and \
                [b for _, b in raw] == bodies[:ncomplete]
            # right frames, wrong value inside (the stream itself stays in step) vs lost / merged frames
            kind = "stream:message-content" if same_frames else "stream:messages"
            fail(ctx, "stream:messages:undefined" if und else kind, case, [f"{m}:{t}" for m, t in exp], [f"{m}:{t}" for m, t in got],
                            "messages must come out intact, one by one, in order")
        impl = _impl_line(raw, tail, n, with_msgs=(pick is None or ci in pick))
        ended_clean = impl.endswith("tail=clean")
        if tail is None or ended_clean != clean:
            fail(ctx, "stream:tail", case, "clean end" if clean else "IncompleteReadError inside a frame",
                            impl.split("tail=")[1])
        if pick is None or ci in pick:
            lines.append("decode chunks=" + ",".join(c.hex() for c in chunks))
            impls.append(impl)
            cases.append(case)
        ctx.evaluations += 1
        ctx.bump("stream:" + ("complete" if n == len(full) else "truncated"))
        ctx.bump("stream:tail:" + impl.split("tail=")[1].split(":")[1] if "inside" in impl else "stream:tail:clean")
    if drv and lines:
        for line, impl, case, model in zip(lines, impls, cases, ask_batched(drv, lines)):
            if model != impl:
                ctx.mismatch("Klong.C13.decodeStream vs stream_recv_msg", case, model[:2000], impl[:2000])
    ctx.count((label, n, len(cuts), lazy, tuple(frames_hex)))
    ctx.evaluations -= 1
    return lines, impls


def run_framing(ctx, drv, twin):
    import klongpy.sys_fn_ipc as ipc
    quick = ctx.tier == "quick"
    rng = ctx.rng
    rig = StreamRig()
    msgs = make_messages(twin)
    kernel_samples = []
    try:
        def mk(objs):
            ids = [uuid.UUID(int=rng.getrandbits(128)) for _ in objs]
            frames = [ipc.encode_message(i, o) for i, o in zip(ids, objs)]
            for i, o, f in zip(ids, objs, frames):
                # independent description of the format + the model's encoder
                body = pickle.dumps(o)
                if f != i.bytes + len(body).to_bytes(4, "big") + body:
                    # the wire format is the model's business, not the property's: a broken tie
                    ctx.mismatch("frame format: 16-byte id + 32-bit big-endian length + pickle",
                                 dict(kind="encode", id=i.hex, msg=_mtok(o)), "id ++ be32 len ++ pickle",
                                 f.hex()[:200])
                sent = rig.send(i, o)
                if sent != f:
                    fail(ctx, "stream:send", dict(kind="encode", id=i.hex, msg=_mtok(o)), f.hex()[:200],
                                    sent.hex()[:200], "stream_send_msg must write exactly one encoded frame")
                if drv and (len(f) < 20000 or not quick or rng.random() < 0.15):
                    m = drv.ask(f"encode id={f[:16].hex()} body={f[20:].hex()}")
                    if m != "frame=" + f.hex():
                        ctx.mismatch("Klong.C13.encode vs encode_message", dict(kind="encode", frame=f.hex()[:400]),
                                     m[:400], f.hex()[:400])
            return ids, frames

        # ---- length field, whole 32-bit range
        if drv:
            ns = [0, 1, 255, 256, 257, 65535, 65536, 16777215, 16777216, 2 ** 31, 2 ** 32 - 1]
            ns += [rng.getrandbits(rng.choice([8, 16, 24, 32])) for _ in range(200 if quick else 3000)]
            rep = ask_batched(drv, [f"be32 n={n}" for n in ns])
            rep2 = ask_batched(drv, [f"unbe32 hex={struct.pack('!I', n).hex()}" for n in ns])
            for n, a, b in zip(ns, rep, rep2):
                if a != "hex=" + struct.pack("!I", n).hex() or b != f"n={ipc.decode_message_len(struct.pack('!I', n))}":
                    ctx.mismatch("Klong.C13.be32/unbe32 vs struct !I", dict(kind="be32", n=n), a + " " + b,
                                 struct.pack("!I", n).hex())
                ctx.evaluations += 1

        # ---- short frames: every way of cutting 1..3 frames into <= 3 reads
        small = [None, 1, "", twin("1%0"), twin(":a"), twin("0ca")]
        groups = [[small[0]], [small[1], small[3]], [small[0], small[2], small[1]]]
        if not quick:
            groups += [[rng.choice(small) for _ in range(k)] for k in (1, 2, 2, 3, 3)]
            groups += [[rng.choice(msgs)] for _ in range(6)]
        else:
            groups += [[rng.choice(small), rng.choice(small)]]
        for objs in groups:
            ids, frames = mk(objs)
            full = b"".join(frames)
            cuts = list(_cuts3(len(full)))
            if len(full) > 130:                 # a long payload frame: seeded sample instead of all cuts
                cuts = rng.sample(cuts, 6000)
            lines, impls = run_stream_batch(ctx, drv, rig, "short-exhaustive" if len(full) <= 130 else
                                            "payload-sampled", frames, objs, ids, full, cuts)
            if len(kernel_samples) < 3 and len(full) <= 80 and lines:
                k = rng.randrange(len(lines))
                kernel_samples.append((lines[k], impls[k]))
            # lazily fed: same cuts, bytes arrive while the reader waits
            sub = cuts if not quick else rng.sample(cuts, min(len(cuts), 300))
            run_stream_batch(ctx, drv, rig, "short-lazy", frames, objs, ids, full, sub, lazy=True)
            # truncated at every byte
            for n in range(0, len(full)):
                stream = full[:n]
                allc = list(_cuts3(n))
                if quick:
                    c = rng.sample(allc, min(len(allc), 12))
                elif len(full) <= 60:
                    c = allc
                else:
                    c = rng.sample(allc, min(len(allc), 150 if len(full) <= 130 else 30))
                ls, im = run_stream_batch(ctx, drv, rig, "short-truncated", frames, objs, ids, stream, c,
                                          lazy=bool(n % 2))
                if ls and len(kernel_samples) < 6 and n in (7, 18, 23) and len(full) <= 80:
                    kernel_samples.append((ls[0], im[0]))

        # ---- real payloads (universe values, command objects), seeded cuts
        for _ in range(60 if quick else 1200):
            objs = [rng.choice(msgs) for _ in range(rng.randrange(1, 4))]
            ids, frames = mk(objs)
            full = b"".join(frames)
            n = len(full) if rng.random() < 0.6 else rng.randrange(len(full))
            cuts = []
            for _ in range(6):
                i = rng.randrange(n + 1)
                j = rng.randrange(n + 1)
                cuts.append((min(i, j), max(i, j)))
            # cuts on and next to the field boundaries
            b0 = len(frames[0])
            for p in (16, 20, b0 - 1, b0, b0 + 1, b0 + 16, b0 + 20):
                if 0 <= p <= n:
                    cuts.append((p, rng.randrange(p, n + 1)))
            run_stream_batch(ctx, drv, rig, "payload-seeded", frames, objs, ids, full[:n], cuts,
                             lazy=rng.random() < 0.5)

        # ---- a long frame (body around and above the StreamReader buffer limit 2^16) with small frames
        #      right behind / in front of it: fed merged in one read and cut at the places that matter
        over = len(pickle.dumps("a" * 1000)) - 1000
        targets = [65535, 65536, 65537, 70000, 2 ** 17 + 1]
        if not quick:
            targets += [2 ** 16 + 2 ** 15, 2 ** 17, 2 ** 18 + 5]
        for T in targets:
            L = T - over
            L += T - len(pickle.dumps("a" * L))           # pickle frames large strings differently
            big = "".join(rng.choice("abc") for _ in range(L))
            if len(pickle.dumps(big)) != T:
                raise Infra(f"could not build a pickle of exactly {T} bytes")
            for shape in ("big-small", "small-big-small", "big-small-small", "big-big"):
                if quick and shape != rng.choice(["big-small", "small-big-small"]) and T != 65537:
                    continue
                objs = {"big-small": [big, 1], "small-big-small": [None, big, ""],
                        "big-small-small": [big, 1, twin(":a")], "big-big": [big, big]}[shape]
                ids, frames = mk(objs)
                full = b"".join(frames)
                n = len(full)
                ends, pos = [], 0
                for f in frames:
                    pos += len(f)
                    ends.append(pos)
                marks = {0, n, 16, 20, 20 + 2 ** 16, 20 + 2 ** 16 + 1}
                for e in ends:
                    marks |= {e - 1, e, e + 1, e + 16, e + 20, e - 2 ** 16, e - 2 ** 16 + 20}
                marks = sorted(m for m in marks if 0 <= m <= n)
                cuts = [(n, n), (0, 0), (0, n)]                      # everything merged in one read
                cuts += [(m, n) for m in marks] + [(m, m) for m in marks]
                cuts += [(a, b) for a in marks for b in marks if a < b and rng.random() < (0.08 if quick else 0.3)]
                for lazy in (False, True):
                    run_stream_batch(ctx, drv, rig, "long-merged:" + shape, frames, objs, ids, full, cuts,
                                     lazy=lazy, model_max=1 if quick else 8)
                # and truncated inside / right after the long frame
                for cutlen in sorted({ends[0] - 1, 20 + 2 ** 16} if quick else
                                     {ends[0] - 1, ends[-1] - 1, 20 + 2 ** 16, n - 3}):
                    if 0 < cutlen < n:
                        c = [(cutlen, cutlen), (0, 0)] + [(m, cutlen) for m in marks if m <= cutlen][:4]
                        run_stream_batch(ctx, drv, rig, "long-truncated:" + shape, frames, objs, ids,
                                         full[:cutlen], c, lazy=bool(cutlen % 2), model_max=1 if quick else 3)

        # ---- long frames whose content does not compress (random 64-bit integers), alone and with neighbours
        for bv in big_values(rng, quick):
            for objs in ([bv], [1, bv, ""]) if quick else ([bv], [1, bv, ""], [bv, bv], [bv, twin(":a")]):
                ids, frames = mk(objs)
                full = b"".join(frames)
                n = len(full)
                ends, pos = [], 0
                for f in frames:
                    pos += len(f)
                    ends.append(pos)
                marks = sorted({0, n, 16, 20} | {e for e in ends} | {e - 1 for e in ends} | {20 + 2 ** 16})
                marks = [m for m in marks if 0 <= m <= n]
                cuts = [(n, n), (0, 0)] + [(m, n) for m in marks] + \
                       [(a, b) for a in marks for b in marks if a < b and rng.random() < 0.15]
                for lazy in (False, True):
                    run_stream_batch(ctx, drv, rig, "long-incompressible", frames, objs, ids, full, cuts,
                                     lazy=lazy, model_max=1 if quick else 4)

        # ---- long frames (lengths that need 2 and 3 length bytes), seeded
        sizes = [255, 256, 257, 1000, 4095, 65535, 65536, 70000]
        for r in range(6 if quick else 40):
            k = rng.randrange(1, 4)
            objs = []
            for _ in range(k):
                s = rng.choice(sizes[:5]) if (quick and r > 1) or rng.random() < 0.5 else rng.choice(sizes)
                objs.append("".join(rng.choice("abé") for _ in range(s)))
            ids, frames = mk(objs)
            full = b"".join(frames)
            n = len(full) if rng.random() < 0.6 else rng.randrange(len(full))
            cuts = []
            for _ in range(3):
                i = rng.randrange(n + 1)
                j = rng.randrange(n + 1)
                cuts.append((min(i, j), max(i, j)))
            run_stream_batch(ctx, drv, rig, "long-seeded", frames, objs, ids, full[:n], cuts,
                             lazy=rng.random() < 0.5)
        # ---- several senders on one connection under back-pressure
        run_concurrent_senders(ctx, drv, rig, twin)
    finally:
        rig.close()
    return kernel_samples


def kernel_obligation(ctx, samples):
    """a few of the recorded real streams re-checked by the Lean kernel instead of the compiled driver"""
    if not samples:
        return
    def lst(h):
        b = bytes.fromhex(h)
        return "[" + ",".join(str(x) for x in b) + "]"
    src = ["import Klong.Props.C13", "open Klong.C13"]
    for line, impl in samples:
        chunks = line.split("chunks=")[1].split(",")
        msgs_s, tail_s = impl.split(" ")
        ms = [m for m in msgs_s.split("=", 1)[1].split(",") if m]
        ml = ", ".join("⟨" + lst(m.split("/")[0]) + ", " + lst(m.split("/")[1]) + "⟩" for m in ms)
        t = tail_s.split("=")[1]
        if t == "clean":
            tl = "Tail.clean"
        else:
            _, stage, p, e = t.split(":")
            tl = f".eof .{stage} {p} {e}"
        src.append(f"example : decodeStream [{', '.join(lst(c) for c in chunks)}] = ([{ml}], {tl}) := by decide +kernel")
    ok, out = common.lean_run("\n".join(src) + "\n")
    ctx.obligation(f"kernel re-check of decodeStream on {len(samples)} recorded real streams", ok, out[-600:])


# =========================================================================== (b) live pair

class RemoteRaised(Exception):
    pass


class NoAnswer(Exception):
    pass


class Live:
    """server interpreter + client interpreter (own io / klong loops each) + twin interpreter"""

    def __init__(self):
        from klongpy import KlongInterpreter
        from klongpy.repl import create_repl
        import klongpy.sys_fn_ipc as ipc
        self.ipc = ipc
        self.alive = time.time()
        self.dirty = set()
        self.srv = self.cli = None
        self.srv, self.srv_loops = create_repl()
        self.cli, self.cli_loops = create_repl()
        self.twin = KlongInterpreter()
        _setup_interp(self.srv)
        _setup_interp(self.twin)
        _setup_values(self.cli)
        if ipc._ipc_tcp_server.task is not None:
            raise Infra("an IPC server is already running in this process")
        for attempt in range(3):
            s = socket.socket()
            s.bind(("127.0.0.1", 0))
            self.port = s.getsockname()[1]
            s.close()
            r = self.srv(f'.srv("127.0.0.1:{self.port}")')
            if r != 1:
                raise Infra(f".srv returned {r}")
            t0 = time.time()
            while ipc._ipc_tcp_server.server is None and time.time() - t0 < 10:
                time.sleep(0.005)
            if ipc._ipc_tcp_server.server is not None:
                break
            self.srv(".srv(0)")            # the port was taken in between: try another one
        else:
            raise Infra("IPC server did not start listening")
        self.connect(0)
        self.connect(1)

    def connect(self, conn):
        f, d = self.handles(conn)
        if self.is_open(conn):
            # replacing a connection that is still up (a call on it failed): close it first, so that no
            # listener task is left behind on the client's io loop
            try:
                self.guard(lambda: self.cli(f".clic({f})"), "close replaced connection", timeout=8, soft=True)
            except (RemoteRaised, NoAnswer):
                pass
        addr = f'"127.0.0.1:{self.port}"'
        # all six derivations of a handle, three per connection:
        #   connection 0:  f::.cli(addr)   d::.clid(f)    f3::.cli(d)    d3::.clid(d)
        #   connection 1:  dd::.clid(addr) ff::.cli(dd)   ff3::.cli(ff)  dd3::.clid(ff)
        steps = [f"f::.cli({addr})", "d::.clid(f)", "f3::.cli(d)", "d3::.clid(d)"] if conn == 0 else \
                [f"dd::.clid({addr})", "ff::.cli(dd)", "ff3::.cli(ff)", "dd3::.clid(ff)"]
        for t in steps:
            self.guard(lambda t=t: self.cli(t), "connect: " + t.split("::")[0])

    @staticmethod
    def handles(conn, alias=0):
        """(function handle, dictionary handle) the operation runs through"""
        return {(0, 0): ("f", "d"), (0, 1): ("f3", "d3"), (1, 0): ("ff", "dd"), (1, 1): ("ff3", "dd3")}[(conn, alias)]

    def guard(self, fn, what, timeout=None, soft=False):
        """run a client-side call with a deadline (a hung connection is an infrastructure failure;
        `soft`: reported to the caller as NoAnswer instead)"""
        timeout = timeout or OP_TIMEOUT
        box = {}

        def run():
            try:
                box["r"] = fn()
            except BaseException as e:          # noqa
                box["e"] = e

        t = threading.Thread(target=run, daemon=True)
        t.start()
        t.join(timeout)
        if t.is_alive():
            if soft:
                raise NoAnswer(f"{what} did not return within {timeout}s")
            raise Infra(f"live IPC: {what} did not return within {timeout}s")
        if "e" in box:
            raise RemoteRaised(f"{type(box['e']).__name__}: {box['e']}")
        return box["r"]

    def is_open(self, conn):
        f, _ = self.handles(conn)
        try:
            return bool(self.cli[f].is_open())
        except Exception:
            return False

    def reset(self):
        """start of a sequence: same variables on server and twin"""
        from klongpy.core import KGSym
        for k in (self.srv, self.twin):
            k("cnt::0")
            k("last::0")
            for n in USER_NAMES + REBIND_NAMES:
                try:
                    del k[KGSym(n)]
                except KeyError:
                    pass

    def digest(self, k):
        from klongpy.core import KGSym
        out = []
        for n in sorted(BUILTIN_NAMES + USER_NAMES + REBIND_NAMES):
            try:
                v = k[KGSym(n)]
            except KeyError:
                continue
            out.append(f"{n}:{tok(v)}")
        return ";".join(out)

    def close(self):
        from klongpy.repl import cleanup_repl
        errs = []

        def step(fn, what):
            try:
                self.guard(fn, what, timeout=10, soft=True)
            except Exception as e:      # noqa
                errs.append(f"{what}: {e}")

        for conn in (0, 1):
            f, _ = self.handles(conn)
            if self.is_open(conn):
                step(lambda f=f: self.cli(f".clic({f})"), "close client")
        step(lambda: self.srv(".srv(0)"), "stop server")
        # let the connection handlers finish before the loops are stopped
        t0 = time.time()
        while time.time() - t0 < 5:
            pend = [t for loops in (self.srv_loops, self.cli_loops) for lp in (loops[0], loops[3])
                    for t in asyncio.all_tasks(loop=lp)
                    if getattr(t.get_coro(), "__qualname__", "") != "LoopStopper.wait"]
            if not pend:
                break
            if time.time() - t0 > 2:
                # left-over listener tasks (abandoned connections): cancel them while their loop still runs
                # (klongpy.repl.cleanup_async_loop spins for ever on tasks pending after the loop stopped)
                for t in pend:
                    try:
                        t.get_loop().call_soon_threadsafe(t.cancel)
                    except Exception:      # noqa
                        pass
            time.sleep(0.01)
        step(lambda: cleanup_repl(self.cli_loops), "stop client loops")
        step(lambda: cleanup_repl(self.srv_loops), "stop server loops")
        return errs


def _undef_flag(k, v):
    k["rr"] = v
    return int(k(":_rr"))


def _args_text(es):
    return "(" + ";".join(es) + ")"


def run_op(ctx, live, drv, op, history):
    """one remote operation on the real pair, the twin and the model; returns False to stop the sequence"""
    from klongpy.core import KGSym
    cli, twin, srv = live.cli, live.twin, live.srv
    form = op["form"]
    f, d = live.handles(op.get("conn", 0), op.get("alias", 0))
    case = dict(kind="live", ops=history + [op])
    asked = None
    model_line = None
    has_undef = any("1%0" in e for e in op.get("es", []) + ([op["e"]] if "e" in op else []))
    try:
        # ---------------- twin (the same operation done locally) + request text
        if form == "text-lit":
            tv = twin(op["e"])
            text = op["e"]
            model_x = "lit," + tok(tv)
        elif form == "text-assign":
            text = f'{op["name"]}::{op["e"]}'
            tv = twin(text)
            model_x = f'assign,{op["name"]},' + tok(tv)
        elif form == "text-var":
            text = op["name"]
            tv = twin(text)
            model_x = "var," + op["name"]
        elif form == "text-call":
            text = op["name"] + _args_text(op["es"])
            argv = [twin(e) for e in op["es"]]
            tv = twin(text)
            model_x = f'call,{op["name"]},' + tok(argv)
        elif form == "text-undefq":
            text = ":_" + op["name"]
            tv = twin(text)
            model_x = "undefq," + op["name"]
        elif form == "text-defn":
            text = f'{op["name"]}::{FN_BODIES[op["arity"]]}'
            tv = twin(text)
            model_x = f'defn,{op["name"]},{op["arity"]}'
        elif form in ("sym", "dget"):
            tv = twin(op["name"])
            asked = op["name"]
        elif form == "proxy":
            cur = _fn_arity(twin[KGSym(op["name"])])
            if cur is None:
                return True                 # the name holds data at the moment: nothing to call
            if op.get("fit"):
                op = dict(op, es=op["es"][:cur])
            tv = twin(op["name"] + _args_text(op["es"]))
        elif form == "fcall":
            # the request is built from the client-side list x = [:name a1 .. an]; the same call locally
            # is the server's function applied to those very elements
            argv = [cli(e) for e in op["es"]]
            if op.get("style") == "klong" and len(argv) == 1:
                cli["v"] = argv[0]
                x = cli(f':{op["name"]},,v')
            else:
                x = np.empty(len(argv) + 1, dtype=object)
                x[0] = KGSym(op["name"])
                for i, a in enumerate(argv):
                    x[i + 1] = a
            if not (len(x) >= 1 and isinstance(x[0], KGSym)):
                return True
            names = []
            for i, a in enumerate(x[1:]):
                twin[f"a{i + 1}"] = a
                names.append(f"a{i + 1}")
            tv = twin(op["name"] + _args_text(names))
        elif form == "dset":
            v = cli(op["e"])
            cli["v"] = v
            if op.get("style") != "py":
                x = cli(f':{op["name"]},,v')
                if len(x) != 2:
                    return True
                v = x[1]            # what `d,:name,,v` really stores (join may re-type its operand)
            twin[KGSym(op["name"])] = v
            tv = v
        else:
            raise ValueError(form)
    except Exception as e:
        ctx.bump("live:skipped-twin-raises")
        return True
    expect = present(tv, asked)
    if not (is_data(expect) or expect[0] in "FP"):
        ctx.bump("live:skipped-not-transportable")
        return True
    t_undef = _undef_flag(twin, tv)

    # ---------------- real client
    try:
        if form.startswith("text"):
            if op.get("style") == "var":
                cli["tx"] = text
                rv = live.guard(lambda: cli(f"{f}(tx)"), form)
            else:
                rv = live.guard(lambda: cli(f'{f}("{_esc(text)}")'), form)
            model_line = "apply x=s" + _hex(model_x)
        elif form == "sym":
            rv = live.guard(lambda: cli(f'{f}(:{op["name"]})'), form)
            model_line = "apply x=y" + _hex(op["name"])
        elif form == "fcall":
            if op.get("style") == "klong" and len(argv) == 1:
                rv = live.guard(lambda: cli(f'{f}(:{op["name"]},,v)'), form)
            else:
                cli["xx"] = x
                rv = live.guard(lambda: cli(f"{f}(xx)"), form)
            model_line = "apply x=" + tok(x)
        elif form == "proxy":
            via = op.get("via", "f")
            q = live.guard(lambda: cli(f'q::{f}(:{op["name"]})' if via == "f" else f'q::{d}?:{op["name"]}'),
                           "proxy fetch")
            qt = tok(q)
            want = f'P{cur},y{_hex(op["name"])}'
            if qt != want:
                fail(ctx, f"live:proxy-fetch:{via}", case, want, qt,
                                "asking for a remote function must give a proxy of the arity it has now")
                return False
            model_line0 = ("apply x=y" + _hex(op["name"])) if via == "f" else f'dget name={op["name"]}'
            if drv and not op.get("nomodel"):
                m0 = drv.ask(model_line0)
                if not m0.startswith(f"ok res={want} "):
                    ctx.mismatch("Klong.C13.remoteStep vs proxy fetch", case, m0, want)
            argv = [cli(e) for e in op["es"]]
            rv = live.guard(lambda: cli("q" + _args_text(op["es"])), form)
            model_line = f'proxy name={op["name"]} arity={len(q.args)} args={tok(argv)}'
        elif form == "dget":
            rv = live.guard(lambda: cli(f'{d}?:{op["name"]}'), form)
            model_line = f'dget name={op["name"]}'
        elif form == "dset":
            if op.get("style") == "py":
                rv = live.guard(lambda: cli[d].set(KGSym(op["name"]), v), form)
            else:
                rv = live.guard(lambda: cli(f'{d},:{op["name"]},,v'), form)
            model_line = f'dset name={op["name"]} val={tok(v)}'
    except RemoteRaised as e:
        fail(ctx, f"live:{form}:raises", case, expect, str(e)[:300],
                        "the same operation succeeds locally on the server interpreter")
        live.dirty.add(op.get("conn", 0))       # that connection is gone: continue on a fresh one
        return False
    live.alive = time.time()

    # ---------------- property oracle: remote == local
    if form == "dset":
        got, r_undef = "handle" if rv is cli[d] else tok(rv), 0
        expect, t_undef = "handle", 0
    else:
        got, r_undef = tok(rv), _undef_flag(cli, rv)
    cls = op.get("keyclass") or ("undefined" if (has_undef or "U" in expect.split(",")) else "value")
    ok = True
    if got != expect or r_undef != t_undef:
        fail(ctx, f"live:{form}:{cls}", case, f"{expect} undef={t_undef}", f"{got} undef={r_undef}",
                        "remote result differs from the same operation evaluated locally on the server")
        ok = False
    sd, td = live.digest(srv), live.digest(twin)
    if sd != td:
        fail(ctx, f"live:{form}:server-state:{cls}", case, td, sd,
                        "server variables differ from those of the twin after the same operation")
        ok = False
    # ---------------- correspondence with the dispatch model
    if drv and model_line and not op.get("nomodel"):
        m = drv.ask(model_line)
        res = "N" if form == "dset" else got
        und = 1 if form == "dset" else r_undef
        impl = f"ok res={res} undef={und} store={sd}"
        if m != impl:
            ctx.mismatch("Klong.C13.remoteStep vs live client/server", case, m[:1500], impl[:1500])
            ok = False
    ctx.bump("live:" + form)
    ctx.bump("live:class:" + cls)
    ctx.evaluations += 1
    return ok


def gen_value_ops(rng, e, conn):
    """every remote operation form for one universe value"""
    n = rng.choice(USER_NAMES)
    ops = [
        dict(form="text-lit", e=e, conn=conn),
        dict(form="text-lit", e=e, conn=conn, style="var"),
        dict(form="text-assign", name=n, e=e, conn=conn),
        dict(form="text-var", name=n, conn=conn),
        dict(form="text-undefq", name=n, conn=conn),
        dict(form="sym", name=n, conn=conn),
        dict(form="dget", name=n, conn=conn),
        dict(form="text-call", name="id1", es=[e], conn=conn),
        dict(form="fcall", name="id1", es=[e], conn=conn, style="klong"),
        dict(form="fcall", name="id1", es=[e], conn=conn, style="array"),
        dict(form="fcall", name="pyid", es=[e], conn=conn, style="array"),
        dict(form="fcall", name="und1", es=[e], conn=conn, style="klong"),
        dict(form="fcall", name="keep", es=[e], conn=conn, style="array"),
        dict(form="text-var", name="last", conn=conn),
        dict(form="proxy", name="id1", es=[e], conn=conn, via="f"),
        dict(form="proxy", name="und1", es=[e], conn=conn, via="d"),
        dict(form="dset", name=n, e=e, conn=conn),
        dict(form="dget", name=n, conn=conn),
        dict(form="text-undefq", name=n, conn=conn),
        dict(form="dset", name=n, e=e, conn=conn, style="py"),
        dict(form="sym", name=n, conn=conn),
    ]
    return ops


def gen_pair_ops(rng, e1, e2, conn):
    e3 = rng.choice(UNIVERSE)
    return [
        dict(form="fcall", name="snd", es=[e1, e2], conn=conn, style="array"),
        dict(form="fcall", name="pysnd", es=[e2, e1], conn=conn, style="array"),
        dict(form="fcall", name="trd", es=[e1, e3, e2], conn=conn, style="array"),
        dict(form="proxy", name="snd", es=[e2, e1], conn=conn, via="f"),
        dict(form="proxy", name="trd", es=[e3, e1, e2], conn=conn, via="d"),
        dict(form="text-call", name="snd", es=[e1, e2], conn=conn),
    ]


def gen_rebind_history(rng, name, a1, a2, via1, via2, conn, how):
    """look a remote function up as a proxy, re-bind the name on the server to a function of another
    arity (text eval through this or the other connection, or dict set of data in between), look it up
    again and call it"""
    args = [rng.choice(UNIVERSE) for _ in range(3)]
    ops = [dict(form="text-defn", name=name, arity=a1, conn=conn),
           dict(form="proxy", name=name, es=args, fit=True, conn=conn, via=via1)]
    if how == "other-conn":
        ops.append(dict(form="text-defn", name=name, arity=a2, conn=1 - conn))
    elif how == "via-data":
        ops += [dict(form="dset", name=name, e=rng.choice(UNIVERSE), conn=conn, style="py"),
                dict(form="dget", name=name, conn=conn),
                dict(form="text-defn", name=name, arity=a2, conn=conn)]
    else:
        ops.append(dict(form="text-defn", name=name, arity=a2, conn=conn))
    ops += [dict(form="proxy", name=name, es=args, fit=True, conn=conn, via=via2),
            dict(form="sym", name=name, conn=conn),
            dict(form="dget", name=name, conn=conn),
            dict(form="proxy", name=name, es=list(reversed(args)), fit=True, conn=conn, via=via1),
            dict(form="fcall", name=name, es=args[:a2], conn=conn, style="array")]
    return ops


def _proj_args(rng, name):
    n, kind = PROJ[name]
    if kind == "nth":
        w = rng.choice(["world", "a", "hello foo", "xyz"])
        return [f'"{w}"', str(rng.randrange(len(w)))]
    pool = {"i": ["5", "-3", "17", "0", "4", "100"], "s": ['"abc"', '""', '"a"', '"hello foo"'],
            "S": ['"world"', '"abc"', '"a"', '"hello foo"']}[kind]
    return [rng.choice(pool) for _ in range(n)]


def gen_projection_ops(rng, name, conn):
    """a server-side name bound to a projection (or its asymmetric base function), through every call form"""
    ops = [dict(form="fcall", name=name, es=_proj_args(rng, name), conn=conn, style="array"),
           dict(form="text-call", name=name, es=_proj_args(rng, name), conn=conn),
           dict(form="proxy", name=name, es=_proj_args(rng, name), conn=conn, via="f"),
           dict(form="proxy", name=name, es=_proj_args(rng, name), conn=conn, via="d"),
           dict(form="sym", name=name, conn=conn),
           dict(form="dget", name=name, conn=conn)]
    if PROJ[name][0] == 1:
        ops.insert(1, dict(form="fcall", name=name, es=_proj_args(rng, name), conn=conn, style="klong"))
    return ops


def big_exprs(rng, quick):
    """Klong literals whose values pickle to >= 64 KiB of incompressible bytes (full-range 64-bit integers)"""
    def lit(n):
        return "[" + " ".join(str(rng.randrange(-2 ** 63 + 1, 2 ** 63)) for _ in range(n)) + "]"
    out = [lit(8300), '[1 ' + lit(8400) + ' "a"]']
    if not quick:
        out += [lit(8192), lit(12000), lit(20000), ":{[1 " + lit(8300) + "]}", "[" + lit(4200) + " " + lit(4200) + "]"]
    return out


def gen_big_ops(rng, e, conn, quick):
    n = rng.choice(USER_NAMES)
    ops = [dict(form="text-lit", e=e, conn=conn, style="var"),                 # big answer
           dict(form="fcall", name="id1", es=[e], conn=conn, style="array"),    # big request and answer
           dict(form="dset", name=n, e=e, conn=conn, style="py"),               # big request
           dict(form="dget", name=n, conn=1 - conn),                            # big answer, other connection
           dict(form="proxy", name="id1", es=[e], conn=conn, via="f")]
    if not quick:
        ops += [dict(form="text-assign", name=n, e=e, conn=conn), dict(form="sym", name=n, conn=conn),
                dict(form="fcall", name="snd", es=["1", e], conn=conn, style="array"),
                dict(form="fcall", name="keep", es=[e], conn=conn, style="klong"),
                dict(form="text-var", name="last", conn=1 - conn)]
    return ops


def run_slow_fragments(ctx, live, quick, plans=None, exprs=None):
    """a frame that reaches the receiver in two network reads with a real pause in between (cut after the
    id, inside / after the length, inside the body), towards the live server (raw socket client) and
    towards a KlongPy client (raw server).  The pause only spaces the reads; the oracle is the value."""
    ipc = live.ipc
    rng = ctx.rng
    twin = live.twin
    exprs = exprs or ["[1 2 3]", '"hello foo"', ':{[1 2]}', "[[1 2] [3 4]]", "1%0", '[1 "a" :b 0cx]']
    plans = plans or ([(16, 0.8), (20, 0.8), ("mid", 0.8)] if quick else
                      [(16, 0.8), (17, 0.6), (18, 1.0), (19, 0.8), (20, 1.5), (21, 0.8), ("mid", 1.2), ("last", 0.8),
                       (5, 0.8)])
    jobs = [(c, g, rng.choice(exprs), uuid.UUID(int=rng.getrandbits(128))) for c, g in plans]

    def cutpos(frame, c):
        return {"mid": 20 + (len(frame) - 20) // 2, "last": len(frame) - 1}.get(c, c)

    # ---------------- towards the server
    async def to_server(c, gap, e, mid):
        reader, writer = await asyncio.open_connection("127.0.0.1", live.port)
        try:
            frame = ipc.encode_message(mid, e)
            k = cutpos(frame, c)
            writer.write(frame[:k])
            await writer.drain()
            await asyncio.sleep(gap)
            writer.write(frame[k:])
            await writer.drain()
            try:
                rid, resp = await asyncio.wait_for(ipc.stream_recv_msg(reader), 15)
                got = ("ok", rid == mid, tok(resp))
            except Exception as ex:                                   # noqa
                got = ("no-answer", type(ex).__name__, str(ex)[:200])
            try:                                                      # polite close
                cid = uuid.uuid4()
                writer.write(ipc.encode_message(cid, ipc.KGRemoteCloseConnection()))
                await writer.drain()
                await asyncio.wait_for(ipc.stream_recv_msg(reader), 3)
            except Exception:                                         # noqa
                pass
            return got
        finally:
            writer.close()

    async def all_to_server():
        return await asyncio.gather(*[to_server(*j) for j in jobs], return_exceptions=True)

    loop = asyncio.new_event_loop()
    try:
        results = loop.run_until_complete(asyncio.wait_for(all_to_server(), 90))
    finally:
        loop.close()
    for (c, gap, e, mid), got in zip(jobs, results):
        case = dict(kind="slow", direction="to-server", cut=c, gap=gap, e=e)
        want = ("ok", True, tok(twin(e)))
        if isinstance(got, BaseException):
            got = ("no-answer", type(got).__name__, str(got)[:200])
        if tuple(got) != want:
            fail(ctx, "live:slow-fragments:to-server", case, list(want), list(got),
                 "a request whose bytes arrive in two reads with a pause must be answered like any other")
        ctx.bump("live:slow:to-server")
        ctx.count(("slow", "to-server", c, gap, e))

    # ---------------- towards a KlongPy client: a raw server answers in two pieces
    todo = [(c, g, twin(e), e) for c, g, e, _ in jobs]
    state = dict(port=None, stop=None, loop=None)
    ready = threading.Event()

    async def handler(reader, writer):
        try:
            while True:
                mid, msg = await asyncio.wait_for(ipc.stream_recv_msg(reader), 20)
                if isinstance(msg, ipc.KGRemoteCloseConnection):
                    writer.write(ipc.encode_message(mid, msg))
                    await writer.drain()
                    return
                c, gap, value, _ = state["plan"]
                frame = ipc.encode_message(mid, value)
                k = cutpos(frame, c)
                writer.write(frame[:k])
                await writer.drain()
                await asyncio.sleep(gap)
                writer.write(frame[k:])
                await writer.drain()
        except Exception:                                             # noqa
            pass
        finally:
            writer.close()

    def serve():
        lp = asyncio.new_event_loop()
        state["loop"] = lp
        asyncio.set_event_loop(lp)

        async def main():
            state["stop"] = asyncio.Event()
            server = await asyncio.start_server(handler, "127.0.0.1", 0)
            state["port"] = server.sockets[0].getsockname()[1]
            ready.set()
            await state["stop"].wait()
            server.close()
        try:
            lp.run_until_complete(main())
        finally:
            ready.set()

    th = threading.Thread(target=serve, daemon=True)
    th.start()
    ready.wait(20)
    if not state["port"]:
        raise Infra("raw answer server did not start")
    cli = live.cli
    try:
        connected = False
        for plan in todo:
            c, gap, value, e = plan
            state["plan"] = plan
            case = dict(kind="slow", direction="to-client", cut=c, gap=gap, e=e)
            try:
                if not connected:
                    live.guard(lambda: cli(f'fr::.cli("127.0.0.1:{state["port"]}")'), "connect to raw server")
                    connected = True
                rv = live.guard(lambda: cli('fr("go")'), "slow answer", timeout=gap + 12, soft=True)
                got = tok(rv)
            except RemoteRaised as ex:
                got, connected = "raises " + str(ex)[:200], False
            except NoAnswer as ex:
                got, connected = "no answer: " + str(ex), False
            if got != tok(value):
                fail(ctx, "live:slow-fragments:to-client", case, tok(value), got,
                     "an answer whose bytes arrive in two reads with a pause must be delivered like any other")
                if got.startswith("no answer"):
                    break                      # the client interpreter is stuck in that call
            ctx.bump("live:slow:to-client")
            ctx.count(("slow", "to-client", c, gap, e))
        if connected:
            try:
                live.guard(lambda: cli(".clic(fr)"), "close raw connection", timeout=10, soft=True)
            except (RemoteRaised, NoAnswer):
                pass
    finally:
        if state["loop"] is not None and state["stop"] is not None:
            state["loop"].call_soon_threadsafe(state["stop"].set)
        th.join(10)


def run_function_values(ctx, live, quick):
    """`d,:name,fn`: a client-side function stored on the server through the remote dictionary (documented
    for .clid) must then behave there like the same definition made locally, also when the function has
    been called before it is sent (its AST then carries evaluation memos).  Oracle only (no model)."""
    cli, twin = live.cli, live.twin
    bodies = [("{a::x+1;a*2}", ["3"], 1), ("{x-y}", ["9", "2"], 2), ("{x,y,z}", ["1", "2", "3"], 3),
              ("{(x*x)+1}", ["4"], 1), ("{+/x}", ["[1 2 3]"], 1)]
    if quick:
        bodies = bodies[:3]
    for body, args, arity in bodies:
        for called_before in (False, True):
            case = dict(kind="fnvalue", body=body, args=args, called_before=called_before)
            call = _args_text(args)
            twin("cg::" + body)
            want = tok(twin("cg" + call))
            for conn in (0, 1):
                if conn in live.dirty or not live.is_open(conn):
                    live.connect(conn)
                    live.dirty.discard(conn)
            try:
                cli("cg::" + body)
                if called_before:
                    cli("cg" + call)
                    cli("cg" + call)
                live.guard(lambda: cli("d,:fnv,cg"), "dict set of a function")
                got = [tok(live.guard(lambda: cli('f("fnv' + _esc(call) + '")'), "text call")),
                       tok(live.guard(lambda: cli("qq::d?:fnv"), "proxy fetch")),
                       tok(live.guard(lambda: cli("qq" + call), "proxy call"))]
                exp = [want, f"P{arity},y{_hex('fnv')}", want]
            except RemoteRaised as ex:
                got, exp = "raises " + str(ex)[:200], "function stored and callable on the server"
                live.dirty |= {0, 1}
            if got != exp:
                fail(ctx, "live:fnvalue:" + ("called-before" if called_before else "fresh"), case, exp, got,
                     "a function stored through the remote dictionary must equal the same definition on the server")
            ctx.bump("live:fnvalue")
            ctx.count(("fnvalue", body, called_before))


def gen_pyimport_ops(name, args, conn):
    """f(:name,args), text, proxies and lookups for a server name bound to an imported Python callable
    (the model's small interpreter has no math library: oracle only)"""
    base = dict(name=name, es=args, conn=conn, nomodel=True)
    ops = [dict(base, form="fcall", style="array"),
           dict(base, form="text-call"),
           dict(form="sym", name=name, conn=conn, nomodel=True),
           dict(form="dget", name=name, conn=conn, nomodel=True)]
    if len(args) == 1:
        ops.insert(1, dict(base, form="fcall", style="klong"))
    # a proxy of a wildcard import has arity 0 and drops its arguments (known finding): own class
    extra = dict(keyclass="wildcard-import") if name in WILDCARD_IMPORTS else {}
    ops += [dict(base, form="proxy", via="f", **extra), dict(base, form="proxy", via="d", **extra)]
    return ops


def gen_sequence(rng, length):
    ops = []
    for _ in range(length):
        conn = rng.randrange(2)
        e = rng.choice(UNIVERSE)
        r = rng.random()
        n = rng.choice(USER_NAMES)
        if r < 0.03:
            ops.append(rng.choice(gen_projection_ops(rng, rng.choice(list(PROJ)), conn)))
        elif r < 0.06:
            ops.append(dict(form="text-defn", name=rng.choice(REBIND_NAMES), arity=rng.randrange(4), conn=conn))
        elif r < 0.12:
            ops.append(dict(form="proxy", name=rng.choice(REBIND_NAMES), es=[rng.choice(UNIVERSE) for _ in range(3)],
                            fit=True, conn=conn, via=rng.choice("fd")))
        elif r < 0.16:
            ops.append(dict(form="fcall", name="bump", es=[rng.choice(["1", "2", "-3", "17"])], conn=conn,
                            style="array"))
        elif r < 0.2:
            ops.append(dict(form="proxy", name="bump", es=[rng.choice(["1", "5"])], conn=conn,
                            via=rng.choice("fd")))
        elif r < 0.27:
            ops.append(dict(form="text-var", name="cnt", conn=conn))
        elif r < 0.32:
            ops.append(dict(form="fcall", name="k0", es=[], conn=conn, style="array"))
        elif r < 0.37:
            ops.append(dict(form="sym", name=rng.choice(list(FN_ARITY)), conn=conn))
        elif r < 0.42:
            ops.append(dict(form="dget", name=rng.choice(list(FN_ARITY) + ["cnt", "last"]), conn=conn))
        elif r < 0.55:
            ops.append(dict(form="dset", name=n, e=e, conn=conn, style=rng.choice(["klong", "py"])))
        elif r < 0.68:
            ops.append(dict(form=rng.choice(["dget", "sym", "text-var", "text-undefq"]), name=n, conn=conn))
        elif r < 0.78:
            ops.append(dict(form="text-assign", name=n, e=e, conn=conn))
        elif r < 0.9:
            ops += [o for o in gen_pair_ops(rng, e, rng.choice(UNIVERSE), conn) if rng.random() < 0.4]
        else:
            ops.append(rng.choice(gen_value_ops(rng, e, conn)))
    return ops


def run_sequence(ctx, live, drv, ops, singleton):
    live.reset()
    if drv:
        drv.ask(f"new singleton={singleton}")
    hist = []
    for op in ops:
        if "alias" not in op:
            # which derivation of the handle: the one the connection was opened with, or one derived from
            # the other kind of handle over the same connection
            op["alias"] = ctx.rng.randrange(2)
        for conn in (0, 1):
            if conn in live.dirty or not live.is_open(conn):
                live.connect(conn)
                live.dirty.discard(conn)
        if op["form"] in ("text-var", "text-undefq", "sym", "dget", "proxy") and \
                op["name"] in USER_NAMES + REBIND_NAMES:
            from klongpy.core import KGSym
            try:
                live.twin[KGSym(op["name"])]
            except KeyError:
                continue                    # reading a name that was never set is not part of the property
        ok = run_op(ctx, live, drv, op, hist)
        hist.append(op)
        if not ok:
            return False
    ctx.count(("live", repr(ops)), nontrivial=len(ops) >= 2)
    return True


def check_tau(ctx, twin):
    """hypothesis of remote_eq_local: pickle round trip is the identity on the universe"""
    import klongpy.core as core
    bad = []
    for e in UNIVERSE:
        v = twin(e)
        w = pickle.loads(pickle.dumps(v))
        if tok(w) != tok(v) or _undef_flag(twin, w) != _undef_flag(twin, v):
            bad.append(f"{e}: {tok(v)} -> {tok(w)}")
    singleton = pickle.loads(pickle.dumps(core.KLONG_UNDEFINED)) is core.KLONG_UNDEFINED
    ctx.obligation("hypothesis TauId: pickle round trip is the identity on the transportable universe "
                   "(KLONG_UNDEFINED unpickles to the singleton)", not bad, "; ".join(bad[:6]))
    ctx.extra["kgundefined_singleton_under_pickle"] = singleton
    return 1 if singleton else 0


def run_live(ctx, drv, live, singleton):
    quick = ctx.tier == "quick"
    rng = ctx.rng
    # every universe value through every operation form
    values = list(UNIVERSE)
    if quick:
        keep = set(UNDEF_EXPRS) | set(rng.sample(values, 22)) | set(COMPUTED[:3]) | set(rng.sample(COMPUTED, 6)) | \
            set(LAYOUT[:2]) | {"pyT", "pyF"} | set(rng.sample(LAYOUT, 5))
        values = [e for e in values if e in keep]
    for e in values:
        ops = gen_value_ops(rng, e, rng.randrange(2))
        if quick:
            ops = [o for o in ops if rng.random() < 0.75 or "1%0" in e]
        run_sequence(ctx, live, drv, ops, singleton)
        ctx.sample(dict(kind="live", value=e, forms=sorted({o["form"] for o in ops})), limit=3)
    pairs = [(rng.choice(UNIVERSE), rng.choice(UNIVERSE)) for _ in range(10 if quick else 150)]
    pairs += [(u, rng.choice(UNIVERSE)) for u in UNDEF_EXPRS[: (2 if quick else 7)]]
    for e1, e2 in pairs:
        run_sequence(ctx, live, drv, gen_pair_ops(rng, e1, e2, rng.randrange(2)), singleton)
    # values whose pickle is large and does not compress, in both directions
    for e in big_exprs(rng, quick):
        ops = gen_big_ops(rng, e, rng.randrange(2), quick)
        # each direction on its own (a failure ends a sequence), then all of them as one history
        for sub in ([ops[0]], [ops[1]], ops[2:4], [ops[4]]):
            run_sequence(ctx, live, drv, sub, singleton)
        if not quick:
            run_sequence(ctx, live, drv, ops, singleton)
    # frames delivered in two reads with a real pause in between
    run_slow_fragments(ctx, live, quick)
    # functions as values of the remote dictionary
    run_function_values(ctx, live, quick)
    # names bound to imported Python callables (.pyf): every call form, each form as its own short history
    for name, arglists in PYIMPORTS.items():
        for args in (arglists[:1] if quick else arglists):
            for op in gen_pyimport_ops(name, args, rng.randrange(2)):
                run_sequence(ctx, live, drv, [op], singleton)
    # names bound to projections (fixed argument not leading, nested) and their asymmetric bases
    for name in PROJ:
        for rep in range(1 if quick else 6):
            ops = gen_projection_ops(rng, name, rng.randrange(2))
            run_sequence(ctx, live, drv, ops, singleton)
    # proxies across re-binding of the remote name
    combos = [(a1, a2) for a1 in range(4) for a2 in range(4) if a1 != a2]
    if quick:
        combos = [(2, 1), (1, 2)] + rng.sample(combos, 3)
    for a1, a2 in combos:
        for how in (["same-conn"] if quick else ["same-conn", "other-conn", "via-data"]):
            ops = gen_rebind_history(rng, rng.choice(REBIND_NAMES), a1, a2, rng.choice("fd"), rng.choice("fd"),
                                     rng.randrange(2), how)
            run_sequence(ctx, live, drv, ops, singleton)
    if quick:
        run_sequence(ctx, live, drv, gen_rebind_history(rng, "g", 1, 3, "d", "f", 0, "other-conn"), singleton)
        run_sequence(ctx, live, drv, gen_rebind_history(rng, "h", 3, 0, "f", "d", 1, "via-data"), singleton)
    # seeded histories
    for s in range(12 if quick else 250):
        ops = gen_sequence(rng, rng.randrange(4, 14 if quick else 40))
        run_sequence(ctx, live, drv, ops, singleton)
        if s < 2:
            ctx.sample(dict(kind="live", ops=ops[:6]), limit=6)


# =========================================================================== entry

_watch = {"on": False}


def _watchdog(limit):
    """last resort against a hung loop/thread: never let the check hang"""
    def run():
        t0 = time.time()
        while _watch["on"]:
            time.sleep(1)
            if time.time() - t0 > limit:
                common.log(f"INFRA: C13 harness exceeded {limit}s; aborting")
                os._exit(2)
    _watch["on"] = True
    threading.Thread(target=run, daemon=True).start()


def _load_corpus(ctx, live, drv, singleton):
    import json
    cdir = common.CORPUS / "C13"
    if not cdir.exists():
        return
    for p in sorted(cdir.glob("*.json")):
        c = json.loads(p.read_text())
        if c.get("kind") == "live":
            run_sequence(ctx, live, drv, c["ops"], singleton)


def run(ctx):
    from klongpy import KlongInterpreter
    quick = ctx.tier == "quick"
    _watchdog(300 if quick else 2400)
    drv = Driver("c13") if getattr(ctx, "driver_ok", True) else None
    ctx.rule = ("(a) byte streams of 1..3 real encode_message frames under every cut into <= 3 reads (short frames), "
                "seeded cuts (universe payloads, long frames), complete and truncated at every byte, pre-fed and fed "
                "while the reader waits; (b) every value of the transportable universe x every remote operation form "
                "and seeded operation histories over two connections against a live server. distinct = distinct "
                "(stream, cut set) batches and operation histories; non-trivial = at least two operations / any stream")
    ctx.assumptions += [
        "pickle's round trip on the universe is validated per run (obligation TauId), not verified",
        "frame bodies are below 2^32 bytes (struct '!I' raises beyond; outside the property)",
        "evaluation of Klong text is abstracted: the theorems hold for every interpreter, the driver runs a small one",
        "server-side errors / connection loss / reading a never-set remote name are C14's subject and not generated",
    ]
    live = None
    try:
        twin = KlongInterpreter()
        _setup_values(twin)
        singleton = check_tau(ctx, twin)
        t0 = time.time()
        samples = run_framing(ctx, drv, twin)
        ctx.extra["framing_s"] = round(time.time() - t0, 1)
        t0 = time.time()
        kernel_obligation(ctx, samples)
        ctx.extra["kernel_recheck_s"] = round(time.time() - t0, 1)
        t0 = time.time()
        framing_broken = [f["key"] for f in ctx.oracle_failures
                          if f["key"] in ("stream:messages", "stream:tail")         # the stream desynchronises
                          and not str(f["case"].get("label", "")).startswith("long-")]
        if framing_broken:
            # frames do not survive the stream: a live pair would only stall on its first call
            ctx.extra["live_pair"] = "not started: framing already fails (" + framing_broken[0] + ")"
        else:
            try:
                live = Live()
                _load_corpus(ctx, live, drv, singleton)
                run_live(ctx, drv, live, singleton)
            except Infra as e:
                if not ctx.oracle_failures:
                    raise
                ctx.extra["live_pair"] = f"aborted after a failing input had been found: {e}"
            ctx.extra["live_s"] = round(time.time() - t0, 1)
    finally:
        try:
            if live is not None:
                errs = live.close()
                if errs:
                    ctx.extra["shutdown_notes"] = errs
        finally:
            if drv:
                drv.close()
            _watch["on"] = False


def replay(ctx, case):
    from klongpy import KlongInterpreter
    _watchdog(300)
    drv = Driver("c13") if getattr(ctx, "driver_ok", True) else None
    c = case.get("case", case)
    live = None
    try:
        twin = KlongInterpreter()
        _setup_values(twin)
        singleton = check_tau(ctx, twin)
        if c.get("kind") == "stream":
            import klongpy.sys_fn_ipc as ipc
            rig = StreamRig()
            try:
                frames = [bytes.fromhex(h) for h in c["frames"]]
                ids = [uuid.UUID(bytes=f[:16]) for f in frames]
                stream = b"".join(frames)[: c["length"]]
                lines, impls = run_stream_batch(ctx, drv, rig, "replay", frames, None, ids, stream,
                                                [tuple(c["cuts"])], lazy=c.get("lazy", False), toks=c["msgs"])
                print("replay: real:", impls)
                if drv:
                    print("replay: model:", ask_batched(drv, lines))
            finally:
                rig.close()
        elif c.get("kind") == "live":
            live = Live()
            run_sequence(ctx, live, drv, c["ops"], singleton)
        elif c.get("kind") == "senders":
            rig = StreamRig()
            try:
                run_concurrent_senders(ctx, drv, rig, twin)      # the whole (seeded) section: schedules are cheap
            finally:
                rig.close()
        elif c.get("kind") == "fnvalue":
            live = Live()
            run_function_values(ctx, live, False)
        elif c.get("kind") == "slow":
            live = Live()
            run_slow_fragments(ctx, live, True, plans=[(c["cut"], c["gap"])], exprs=[c["e"]])
        else:
            run(ctx)
            return
    finally:
        try:
            if live is not None:
                live.close()
        finally:
            if drv:
                drv.close()
            _watch["on"] = False
    print("replay:", "oracle failures:", ctx.oracle_failures, "mismatches:", ctx.mismatches)
