"""Closed value universes and the canonical wire form of Klong values (DESIGN §2.3, §6).

Python-side value representation (tagged tuples):
  ('i', n) ('r', float) ('c', 'x') ('y', 'name') ('s', 'text') ('L', [v…]) ('D', [(k, v)…]) ('U',)
"""
import math
import struct

import numpy as np


# --------------------------------------------------------------------------- constructors

def I(n): return ('i', int(n))
def R(x): return ('r', float(x))
def C(c): return ('c', c)
def Y(s): return ('y', s)
def S(s): return ('s', s)
def L(*xs): return ('L', list(xs))
U = ('U',)


def from_py(x):
    """plain Python literal -> Val (ints, floats, str, lists; for writing universes tersely)"""
    if isinstance(x, tuple):
        return x
    if isinstance(x, bool):
        return I(int(x))
    if isinstance(x, int):
        return I(x)
    if isinstance(x, float):
        return R(x)
    if isinstance(x, str):
        return S(x)
    if isinstance(x, list):
        return ('L', [from_py(e) for e in x])
    raise TypeError(x)


# --------------------------------------------------------------------------- wire

def _bits(x):
    return struct.pack(">d", x).hex()


def to_wire(v):
    t = v[0]
    if t == 'i':
        return f"(i {v[1]})"
    if t == 'r':
        return f"(r {_bits(v[1])})"
    if t == 'c':
        return f"(c {ord(v[1])})"
    if t in ('y', 's'):
        body = " ".join(str(ord(c)) for c in v[1])
        return f"({t} {body})" if body else f"({t})"
    if t == 'L':
        return "(L" + "".join(" " + to_wire(x) for x in v[1]) + ")"
    if t == 'D':
        return "(D" + "".join(f" ({to_wire(k)} {to_wire(x)})" for k, x in v[1]) + ")"
    if t == 'U':
        return "U"
    raise ValueError(v)


def _tokens(s):
    return s.replace("(", " ( ").replace(")", " ) ").split()


def _parse(ts, i):
    if ts[i] == "U":
        return U, i + 1
    assert ts[i] == "(", ts[i:i + 5]
    tag = ts[i + 1]
    i += 2
    if tag == 'i':
        return I(int(ts[i])), i + 2
    if tag == 'r':
        return R(struct.unpack(">d", bytes.fromhex(ts[i]))[0]), i + 2
    if tag == 'c':
        return C(chr(int(ts[i]))), i + 2
    if tag in ('y', 's'):
        cs = []
        while ts[i] != ")":
            cs.append(chr(int(ts[i])))
            i += 1
        return (tag, "".join(cs)), i + 1
    if tag == 'L':
        xs = []
        while ts[i] != ")":
            x, i = _parse(ts, i)
            xs.append(x)
        return ('L', xs), i + 1
    if tag == 'D':
        kvs = []
        while ts[i] != ")":
            assert ts[i] == "("
            k, i = _parse(ts, i + 1)
            x, i = _parse(ts, i)
            assert ts[i] == ")"
            i += 1
            kvs.append((k, x))
        return ('D', kvs), i + 1
    raise ValueError(tag)


def from_wire(s):
    ts = _tokens(s)
    v, i = _parse(ts, 0)
    assert i == len(ts), s
    return v


# --------------------------------------------------------------------------- canonicaliser

def canon(x):
    """value produced by the real interpreter -> Val (kinds exact)"""
    from klongpy.core import KGSym, is_char
    tn = type(x).__name__
    if x is None or tn == "KGUndefined":
        return U
    if is_char(x):          # two KGChar classes exist (types and backends.numpy_backend)
        return C(str(x))
    if isinstance(x, KGSym):
        return Y(str(x))
    if isinstance(x, str):
        return S(x)
    if tn == "Tensor":
        x = x.detach().cpu().numpy()
    if isinstance(x, np.ndarray):
        if x.ndim == 0:
            return canon(x.item())
        if x.dtype == object:
            return ('L', [canon(e) for e in x])
        if x.dtype.kind in "iub":
            return ('L', [canon(e) for e in x]) if x.ndim > 1 else ('L', [I(int(e)) for e in x])
        if x.dtype.kind == "f":
            return ('L', [canon(e) for e in x]) if x.ndim > 1 else ('L', [R(float(e)) for e in x])
        if x.dtype.kind in "US":
            return ('L', [canon(e) for e in x.tolist()])
        return ('L', [canon(e) for e in x.tolist()])
    if isinstance(x, (list, tuple)):
        return ('L', [canon(e) for e in x])
    if isinstance(x, (bool, np.bool_)):
        return I(int(x))
    if isinstance(x, (int, np.integer)):
        return I(int(x))
    if isinstance(x, (float, np.floating)):
        return R(float(x))
    if isinstance(x, dict):
        return ('D', [(canon(k), canon(v)) for k, v in x.items()])
    return ('X', tn)          # functions, channels, … : opaque


# --------------------------------------------------------------------------- Klong source text

def _real_text(x):
    r = repr(float(x))
    if "e" in r or "inf" in r or "nan" in r:
        return r.replace("e+", "e")
    return r


def klit(v, top=True):
    """Klong literal text denoting v (parenthesised when used as an operand)"""
    t = v[0]
    if t == 'i':
        s = str(v[1])
        return f"({s})" if top and v[1] < 0 else s
    if t == 'r':
        s = _real_text(v[1])
        return f"({s})" if top and v[1] < 0 else s
    if t == 'c':
        return "0c" + v[1]
    if t == 'y':
        return ":" + v[1]
    if t == 's':
        return '"' + v[1].replace('"', '""') + '"'
    if t == 'L':
        return "[" + " ".join(klit(x, False) for x in v[1]) + "]"
    if t == 'D':
        return ":{" + " ".join("[" + klit(k, False) + " " + klit(x, False) + "]" for k, x in v[1]) + "}"
    if t == 'U':
        return ":undefined"
    raise ValueError(v)


# --------------------------------------------------------------------------- comparison

def veq(a, b, rtol=1e-9, kinds=True):
    """structural equality, kinds exact (unless kinds=False: numbers by value), reals by tolerance"""
    ta, tb = a[0], b[0]
    if ta in "ir" and tb in "ir" and (ta == tb or not kinds):
        x, y = a[1], b[1]
        if ta == 'i' and tb == 'i':
            return x == y
        if isinstance(x, float) and math.isnan(x) or isinstance(y, float) and math.isnan(y):
            return (isinstance(x, float) and math.isnan(x)) and (isinstance(y, float) and math.isnan(y))
        if x == y:
            return True
        return abs(x - y) <= rtol * max(abs(x), abs(y))
    if ta != tb:
        return False
    if ta == 'L':
        return len(a[1]) == len(b[1]) and all(veq(x, y, rtol, kinds) for x, y in zip(a[1], b[1]))
    if ta == 'D':
        return len(a[1]) == len(b[1]) and all(
            veq(k1, k2, rtol, kinds) and veq(v1, v2, rtol, kinds) for (k1, v1), (k2, v2) in zip(a[1], b[1]))
    return a == b


def show(v):
    """compact human-readable text for evidence / replays"""
    try:
        return klit(v)
    except Exception:
        return repr(v)


def depth(v):
    return 1 + max([depth(x) for x in v[1]] + [0]) if v[0] == 'L' else 0


def has_mixed_numeric_level(v):
    """a list that mixes integers and reals at one level (stored as a float64 vector)"""
    if v[0] != 'L':
        return False
    kinds = {x[0] for x in v[1]}
    if 'i' in kinds and 'r' in kinds and kinds <= {'i', 'r'}:
        return True
    return any(has_mixed_numeric_level(x) for x in v[1])


# --------------------------------------------------------------------------- the universe

INTS = [0, 1, -1, 2, 3, 5, -3, 7, 17, 100]
REALS = [0.0, 0.5, 1.5, -2.5, 1e100, 1e-7]
CHARS = ["a", "A", "0", " ", '"']
SYMS = ["a", "foo"]
STRINGS = ["", "a", "abc", "hello foo", "abcdefg", 'say "hi"']
COUNTS = list(range(-7, 8)) + [17]

ATOMS = [I(n) for n in INTS] + [R(x) for x in REALS] + [C(c) for c in CHARS] + [Y(s) for s in SYMS]

INT_VECS = [[], [1], [3, 1], [1, 2, 3], [5, -3, 2, 7], [1, 2, 3, 4, 5], [2, 2, 1, 2], [0, 1, 0, 1, 1]]
REAL_VECS = [[0.5], [1.5, -2.5], [0.5, 1.5, 2.5]]
MIXED_NUM_VECS = [[1, 2.5], [0.5, 2, 3]]
MATRICES = [[[1, 2], [3, 4]], [[1, 2, 3], [4, 5, 6]], [[1], [2], [3]], [[1, 2, 3]],
            [[0.5, 1.5], [2.5, 3.5]]]
RANK3 = [[[[1, 2], [3, 4]], [[5, 6], [7, 8]]]]
NESTED = [[[1], [2, 3]], [1, [2]], [1, [2, [3, [4], 5], 6], 7], [[], [1]], [[1, 2], 3], [[1, [2]], [3, [4]]]]

VECTORS = ([from_py(x) for x in INT_VECS] + [from_py(x) for x in REAL_VECS]
           + [L(C("a"), C("b"), C("c")), L(S("ab"), S("cd")), L(S("a"), S("bcd"), S("")),
              L(I(1), S("a"), Y("b"), C("x")), L(Y("a"), Y("b"))])
LISTS = (VECTORS + [from_py(x) for x in MATRICES] + [from_py(x) for x in RANK3]
         + [from_py(x) for x in NESTED] + [from_py(x) for x in MIXED_NUM_VECS]
         + [L(L(C("a"), C("b")), L(C("c"), C("d"))), L(L(), S(""))])
STRS = [S(s) for s in STRINGS]

OPERANDS = ATOMS + STRS + LISTS      # :undefined has no literal form; it is bound by name where needed


def int_only(v):
    t = v[0]
    if t == 'i':
        return True
    if t == 'L':
        return all(int_only(x) for x in v[1])
    return False
