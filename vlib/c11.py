"""C11 — readable output reads back to the same value (.w/.rs/.r, Format/Form).

Oracle (needs no model), on the REAL interpreter:   v -> kg_write(v) -> .rs(text) -> v'
    match(v, v')  and  kg_write(v') == text        (also through .w / .r on a file channel)
    x:$$x matches x for atoms
Correspondence: the Lean writer's text equals the real text, the Lean reader's value and end
position equal the real ones (driver kd_c11, model Klong.C11).

Values travel as JSON-able trees  ["i",n] ["r",token] ["c",ch] ["y",name] ["s",text]
["L",[...]] ["D",[[k,v],...]]; reals as the token Python's repr prints.
"""
import itertools
import json
import os
import zlib

import numpy as np

from . import common
from .common import Driver, fields

CLAIM = dict(
    text="Lean 4 theorems over a model of kg_write and of the lexer/reader (skip, read_num with its sign and exponent "
         "handling, read_char, read_string, read_sym, read_list, list_to_dict): for every well-formed data value - "
         "integers, real tokens, characters, strings over all characters, symbols, lists nested to any depth, "
         "dictionaries - reading the written text returns exactly that value and the whole text is consumed; "
         "decimal printing/parsing of integers are inverse; Form inverts Format on atoms. Model tied to klongpy by "
         "comparing written text, read value and end position on a closed universe plus seeded random values.",
    note="trusted: Lean kernel (axioms propext/Classical.choice/Quot.sound), correspondence harness, CPython "
         "(float(repr(x)) == x, str(int), int(str)), numpy's asarray (list -> array conversion, modelled only as the "
         "domain predicate noCoerce); character classes are the ASCII part of str.isnumeric/isdigit/isspace, and for "
         "isalpha ASCII plus Latin-1/Latin Extended-A/Greek/Cyrillic/CJK letters (checked against str on every run)",
    technique="Lean 4 structural induction over a nested value type (writer/reader round trip), hand-written model, "
              "differential correspondence on text, value and position",
    design="7/C11")

MODULES = ["Klong.Props.C11"]
THEOREMS = [
    "Klong.C11.readInt_showInt",
    "Klong.C11.string_quote_roundtrip",
    "Klong.C11.real_token_roundtrip",
    "Klong.C11.read_write_general",
    "Klong.C11.read_write_roundtrip",
    "Klong.C11.read_write_in_list",
    "Klong.C11.form_inverts_format",
    "Klong.C11.wfData_nonempty",
]

# --------------------------------------------------------------------------- the closed universe

INTS = [0, 1, -1, 2, 7, -3, 10, 17, 100, -100, 99999, 2 ** 31 - 1, -2 ** 31, 2 ** 31, 10 ** 18, -(10 ** 18),
        2 ** 62, 2 ** 63 - 1, -2 ** 63]
BIG_INTS = [2 ** 63, 2 ** 64, 10 ** 30, -(10 ** 30)]          # beyond int64: atoms only
REALS = [0.0, -0.0, 0.5, 1.5, -2.5, 1.0, -1.0, 0.1, 1 / 3, 123456789.125, 1e100, 1e-7, -1e-7, 1e22, 1e16, 1e15,
         0.0001, 0.00001, 1.5e-7, 1.2345678901234568e+17, 1.7976931348623157e308, 5e-324, 2.2250738585072014e-308,
         -1e-300, 1e21, 9007199254740993.0, 3.141592653589793]
NONFINITE = [float("inf"), float("-inf"), float("nan")]
CHARS = ['a', 'A', 'z', '0', '9', 'c', ' ', '"', '\n', '\t', '[', ']', ':', '{', '}', ';', '-', '.', 'e', '(', ')',
         '\\', "'", 'é', '中', 'ß', 'λ', '²', 'Я', '名']
SYMS = ['a', 'foo', 'x', 'y', 'z', 'A1', 'a.b', '.a', 'abc123', 'e', 'c', 'inf', 'nan', 'Foo.bar.baz9',
        # names with letters / digits outside ASCII (str.isalpha / isdigit accept them; built without the lexer)
        'größe', 'λ', 'naïve', 'имя', '名前', 'x²', 'Ünï.cödé9', 'aλ', 'λa', '.λ', 'é', 'x٣']
SYM_ALPHA = list("abxyzAZ09.") + list("éßλяЯ名前²٣ü")
ALPHA = ['"', ' ', '\n', '[', ']', ':', '0', 'c', 'a', 'b']
ALPHA_WIDE = ALPHA + ['{', '}', ';', '-', '.', 'e', '1', '(', ')', '\t', '+', 'é']
STRINGS = ["", "a", "abc", "hello foo", 'say "hi"', '"', '""', '"""', 'a\nb', "\n", " ", "  ", "[", "]", "[]", "][",
           ":", ':"', ':"x"', '0c', '0c"', '0c[', ":{", "}", ":[", "-1", "1e+22", ";", "a;b", ":a", "[1 2]",
           ':{[1 2]}', '" "', ' "', '" ', "\t", "x\ty", "é中", ':"comment"', 'a:"b"c',
           'größe', ':λ', 'имя 名前', 'x²', '0cλ', '[λ]']


def I(n): return ["i", int(n)]
def R(x): return ["r", repr(float(x))]
def C(c): return ["c", c]
def Y(s): return ["y", s]
def S(s): return ["s", s]
def L(xs): return ["L", list(xs)]
def D(kvs): return ["D", [list(kv) for kv in kvs]]


def atoms_full():
    return ([I(n) for n in INTS + BIG_INTS] + [R(x) for x in REALS] + [C(c) for c in CHARS] +
            [Y(s) for s in SYMS] + [S(s) for s in STRINGS])


def atoms_list():
    """atoms that may sit in lists (int64 range)"""
    return ([I(n) for n in INTS] + [R(x) for x in REALS] + [C(c) for c in CHARS] +
            [Y(s) for s in SYMS] + [S(s) for s in STRINGS])


CORE = [I(-1), I(0), I(12), R(1.5), R(-1e-7), R(1e22), C('"'), C(' '), C('\n'), C('['), C('0'),
        S(""), S("["), S('a"b'), S("a\nb"), S(":"), S("0c"), Y("a"), Y("foo"), Y("λ"), Y("x²"), S("名前")]
SMALL = [I(-1), R(1.5), C('"'), S("["), Y("a"), S("")]
KEYS = [I(0), I(-1), I(7), R(1.5), R(-2.5), R(1e22), C('a'), C('"'), C(' '), C('['), S(""), S("ab"), S('q"'),
        S("["), S("a b"), Y("a"), Y("foo"), Y("größe"), Y("λ"), S("λ"), C("λ")]


def rand_string(rng, alpha=ALPHA_WIDE, maxlen=8):
    return "".join(rng.choice(alpha) for _ in range(rng.randrange(0, maxlen + 1)))


def rand_sym(rng):
    """a readable symbol name: a letter (any script) or '.', then letters / digits / '.'"""
    first = rng.choice([c for c in SYM_ALPHA if c.isalpha() or c == '.'])
    return first + "".join(rng.choice(SYM_ALPHA) for _ in range(rng.randrange(0, 6)))


def rand_atom(rng):
    r = rng.random()
    if r < 0.2:
        return I(rng.choice(INTS) if rng.random() < 0.5 else rng.randrange(-10 ** rng.randrange(1, 19), 10 ** rng.randrange(1, 19)))
    if r < 0.4:
        if rng.random() < 0.5:
            return R(rng.choice(REALS))
        m = rng.uniform(-10, 10) * 10.0 ** rng.randrange(-320, 308)
        return R(m)
    if r < 0.55:
        return C(rng.choice(CHARS + ALPHA_WIDE))
    if r < 0.65:
        return Y(rng.choice(SYMS) if rng.random() < 0.6 else rand_sym(rng))
    return S(rng.choice(STRINGS) if rng.random() < 0.3 else rand_string(rng))


def rand_key(rng):
    while True:
        a = rand_atom(rng)
        if a[0] == "r" and a[1] in ("inf", "-inf", "nan"):
            continue
        return a


def rand_value(rng, depth):
    r = rng.random()
    if depth == 0 or r < 0.35:
        return rand_atom(rng)
    if r < 0.85:
        n = rng.choice([0, 1, 1, 2, 2, 3, 4])
        homo = rng.random() < 0.3
        if homo:
            kind = rng.choice("ir")
            return L([I(rng.randrange(-50, 50)) if kind == "i" else R(rng.choice(REALS)) for _ in range(n)])
        return L([rand_value(rng, depth - 1) for _ in range(n)])
    n = rng.choice([0, 1, 2, 3])
    return D([[rand_key(rng), rand_value(rng, depth - 1)] for _ in range(n)])


# --------------------------------------------------------------------------- tree <-> klong value <-> wire

class NotData(Exception):
    pass


def _raw(spec, be):
    """nested Python lists (what read_list yields) with atoms and dictionaries as Klong holds them"""
    from klongpy.core import KGSym, KGChar
    k, x = spec
    if k == "i":
        return int(x)
    if k == "r":
        return float(x)
    if k == "c":
        return KGChar(x)
    if k == "y":
        return KGSym(x)
    if k == "s":
        return str(x)
    if k == "L":
        return [_raw(e, be) for e in x]
    if k == "D":
        return {build(kk, be): build(vv, be) for kk, vv in x}
    raise ValueError(k)


def build(spec, be):
    """the Klong value: lists go through the interpreter's own list constructor kg_asarray"""
    v = _raw(spec, be)
    return be.kg_asarray(v) if isinstance(v, list) else v


def canon(v):
    from klongpy.core import KGSym, KGChar
    if isinstance(v, KGSym):
        return ["y", str.__str__(v)]
    if isinstance(v, KGChar):
        return ["c", str.__str__(v)]
    if isinstance(v, str):
        return ["s", v]
    if isinstance(v, (bool, np.bool_)):
        raise NotData("bool")
    if isinstance(v, (int, np.integer)):
        return ["i", int(v)]
    if isinstance(v, (float, np.floating)):
        return ["r", repr(float(v))]
    if isinstance(v, np.ndarray):
        if v.ndim == 0:
            return canon(v.item())
        return ["L", [canon(e) for e in v]]
    if isinstance(v, (list, tuple)):
        return ["L", [canon(e) for e in v]]
    if isinstance(v, dict) and type(v) is dict:
        return ["D", [[canon(k), canon(x)] for k, x in v.items()]]
    raise NotData(type(v).__name__)


def _cps(s):
    return ".".join(str(ord(c)) for c in s)


def wire(spec):
    k, x = spec
    if k == "i":
        return f"i{x}"
    if k == "r":
        return "r" + _cps(x)
    if k == "c":
        return f"c{ord(x)}"
    if k == "y":
        return "y" + _cps(x)
    if k == "s":
        return "s" + _cps(x)
    if k == "L":
        return "L(" + ",".join(wire(e) for e in x) + ")"
    if k == "D":
        return "D(" + ",".join(wire(["L", [kk, vv]]) for kk, vv in x) + ")"
    raise ValueError(k)


def contains(spec, pred):
    if pred(spec):
        return True
    k, x = spec
    if k == "L":
        return any(contains(e, pred) for e in x)
    if k == "D":
        return any(contains(kk, pred) or contains(vv, pred) for kk, vv in x)
    return False


def case_class(spec):
    """stable class name of a case (used in oracle keys, so known findings can name a call-site class)"""
    if contains(spec, lambda s: s[0] == "D"):
        return "dictionary"
    if contains(spec, lambda s: s[0] == "r" and s[1] in ("inf", "-inf", "nan")):
        return "nonfinite"
    if spec[0] in "LD" and contains(spec, lambda s: s[0] in "sc" and s[1] == "["):
        return "bracket-text-in-list"
    k = spec[0]
    if k == "L":
        return "list"
    if k in "ir" and str(spec[1]).startswith("-"):
        return "negative-number"
    return {"i": "integer", "r": "real", "c": "character", "y": "symbol", "s": "string"}[k]


def smatch(be, a, b):
    """Match (~): Klong's kg_equal at the leaves, element-wise on lists, key-wise on dictionaries"""
    if isinstance(a, dict) or isinstance(b, dict):
        if not (isinstance(a, dict) and isinstance(b, dict)) or len(a) != len(b):
            return False
        return all(k in b and smatch(be, x, b[k]) for k, x in a.items())
    al = isinstance(a, (list, tuple, np.ndarray)) and not (isinstance(a, np.ndarray) and a.ndim == 0)
    bl = isinstance(b, (list, tuple, np.ndarray)) and not (isinstance(b, np.ndarray) and b.ndim == 0)
    if al or bl:
        if not (al and bl) or len(a) != len(b):
            return False
        return all(smatch(be, x, y) for x, y in zip(a, b))
    try:
        return bool(be.kg_equal(a, b))
    except Exception:
        return False


# --------------------------------------------------------------------------- one case

class Real:
    def __init__(self, ctx):
        from klongpy import KlongInterpreter
        from klongpy.writer import kg_write
        from klongpy import parser
        self.klong = KlongInterpreter()
        self.be = self.klong._backend
        self.kg_write = kg_write
        self.parser = parser
        self.dir = ctx.mkdtemp()
        self.path = os.path.join(self.dir, "c11.txt")
        self.klong["cpath"] = self.path

    def write(self, v):
        return self.kg_write(v, self.be)

    def rs(self, text):
        self.klong["ctext"] = text
        return self.klong(".rs(ctext)")

    def end(self, text):
        return self.parser.kg_read(text, 0, read_neg=True, module=None)[0]

    def match(self, a, b, has_dict):
        if has_dict:
            return smatch(self.be, a, b)
        self.klong["cma"] = a
        self.klong["cmb"] = b
        try:
            return self.klong("cma~cmb") == 1 and smatch(self.be, a, b)
        except Exception:
            return False

    def w_r(self, v):
        """.w(v) to a file through an output channel, .r() from it through an input channel"""
        k = self.klong
        k["cval"] = v
        k('cch::.oc(cpath);.tc(cch);.w(cval);.cc(cch)')
        with open(self.path, encoding="utf-8", newline="") as f:
            text = f.read()
        k('cch::.ic(cpath);.fc(cch)')
        try:
            r = k('.r()')
        finally:
            k('.cc(cch)')
        return text, r

    def w_many_r(self, vals, sep, extra=2):
        """several values written with .w to ONE output channel (separator written with .d), then read
        back one by one with successive .r() on one input channel, plus `extra` reads past the end"""
        k = self.klong
        k["csep"] = sep
        k('cch::.oc(cpath);.tc(cch)')
        try:
            for v in vals:
                k["cval"] = v
                k('.w(cval);.d(csep)')
        finally:
            k('.cc(cch)')
        with open(self.path, encoding="utf-8", newline="") as f:
            text = f.read()
        k('cch::.ic(cpath);.fc(cch)')
        out = []
        try:
            for _ in range(len(vals) + extra):
                try:
                    out.append(("v", k('.r()')))
                except Exception as e:
                    out.append(("x", f"{type(e).__name__}: {e}"))
        finally:
            k('.cc(cch)')
        return text, out

    def format_form(self, v):
        self.klong["cx"] = v
        return self.klong("$cx"), self.klong("cx:$$cx")


def show(v):
    try:
        return json.dumps(canon(v), ensure_ascii=True)
    except NotData as e:
        return f"<not data: {e}: {str(v)[:60]}>"
    except Exception as e:
        return f"<{type(e).__name__}>"


def kinds(spec):
    """the value with every atom replaced by its kind: a character must not come back as a string, etc."""
    k, x = spec
    if k == "L":
        return ["L", [kinds(e) for e in x]]
    if k == "D":
        return ["D", [[kinds(kk), kinds(vv)] for kk, vv in x]]
    return k


def same_kinds(c0, v1):
    try:
        return kinds(canon(v1)) == kinds(c0)
    except Exception:
        return False


def containers(v, out=None):
    """every mutable object reachable from a value: arrays, lists, dictionaries"""
    if out is None:
        out = []
    if isinstance(v, dict):
        out.append(v)
        for k, x in v.items():
            containers(x, out)
    elif isinstance(v, (list, np.ndarray)) and not (isinstance(v, np.ndarray) and v.ndim == 0):
        out.append(v)
        if isinstance(v, list) or v.dtype == object:
            for x in (v if isinstance(v, list) else v.flat):
                containers(x, out)
    return out


def aliased(a, b):
    """do two values share a mutable object (or array memory)?"""
    ca, cb = containers(a), containers(b)
    ids = {id(x) for x in ca}
    if any(id(y) in ids for y in cb):
        return True
    aa = [x for x in ca if isinstance(x, np.ndarray) and x.size]
    bb = [y for y in cb if isinstance(y, np.ndarray) and y.size]
    if len(aa) * len(bb) <= 400:
        return any(np.shares_memory(x, y) for x in aa for y in bb)
    return False


def mutate(klong, v, top=True):
    """change a value that was read IN PLACE, everywhere it can be changed: a dictionary gets a new entry
    (the top-level one through Klong's own Join, `d,[k v]`) and its first atom value replaced, an array gets
    its first atom element replaced.  Returns the number of changes made."""
    n = 0
    if isinstance(v, dict):
        for x in list(v.values()):
            n += mutate(klong, x, False)
        for k, x in list(v.items()):
            if not containers(x):
                v[k] = "zz"
                n += 1
                break
        if top:
            klong["cmut"] = v
            klong('cmut,["zk" 99]')
        else:
            v["zk"] = 99
        n += 1
    elif isinstance(v, np.ndarray) and v.ndim > 0 and v.size:
        if v.dtype == object:
            for x in v.flat:
                n += mutate(klong, x, False)
            if not containers(v.flat[0]):
                v.flat[0] = "zz"
                n += 1
        else:
            v.flat[0] = 8 if v.flat[0] == 7 else 7
            n += 1
    elif isinstance(v, list) and v:
        for x in v:
            n += mutate(klong, x, False)
        if not containers(v[0]):
            v[0] = "zz"
            n += 1
    return n


def alias_pass(ctx, real, spec, c0, v, text, cls):
    """history: read the text, change the value read in place, read the same text again.  The second value
    must be the original one again, share nothing with the first and nothing with the value written; and the
    changed value itself must round-trip as what it now is."""
    case = dict(kind="alias", value=spec,
                note="write v; r1 = .rs(text); change r1 in place (Join on a dictionary, element assignment on arrays); "
                     "r2 = .rs(text) must be the original value and share no object with r1 or v")
    try:
        r1 = real.rs(text)
        if aliased(r1, v):
            ctx.oracle_fail(f"alias:{cls}", case, "a fresh value", f"text {text!r}: the value read shares an object with the value written",
                            "a value read back is the very object that was written")
            return
        n = mutate(real.klong, r1)
        if n == 0:
            return
        m1 = canon(r1)
        r2 = real.rs(text)
        ctx.bump("path:read-mutate-read")
        if aliased(r1, r2):
            ctx.oracle_fail(f"alias:{cls}", case, "two independent values",
                            f"text {text!r}: two reads share an object (first one now {show(r1)})",
                            "two read-backs of one text share a mutable object")
        elif canon(r2) != c0 or real.write(r2) != text:
            ctx.oracle_fail(f"alias:{cls}", case, f"{json.dumps(c0)} again",
                            f"text {text!r} read as {show(r2)} after the value of an earlier read was changed in place",
                            "reading a text depends on what was done to the value of an earlier read")
        else:
            # the changed value is a value like any other: it writes as what it is now and reads back
            t3 = real.write(r1)
            r3 = real.rs(t3)
            if canon(r3) != m1 or real.write(r3) != t3:
                ctx.oracle_fail(f"alias:{cls}", dict(case, changed=m1), f"{json.dumps(m1)}",
                                f"changed value written {t3!r}, read back as {show(r3)}",
                                "a value changed in place does not round-trip as what it is now")
    except Exception as e:
        ctx.oracle_fail(f"alias:{cls}", case, f"reads back {json.dumps(c0)}", f"text {text!r}: {type(e).__name__}: {e}",
                        "read / change in place / read again raises")


def run_case(ctx, real, drv, spec, do_file=False, label="universe", case=None, alias=None):
    be = real.be
    if case is None:
        case = dict(kind="value", value=spec)
    cls = case_class(spec)
    try:
        v = build(spec, be)
        c0 = canon(v)
    except Exception as e:
        ctx.bump("skipped:unbuildable")
        return
    has_dict = contains(c0, lambda s: s[0] == "D")
    nonfinite = cls == "nonfinite"
    try:
        text = real.write(v)
        if not isinstance(text, str):
            raise TypeError(f"kg_write returned {type(text).__name__}")
    except Exception as e:
        ctx.oracle_fail(f"w:{cls}", case, f"the text of {json.dumps(c0)}", f"{type(e).__name__}: {e}", "kg_write raises")
        return False
    ctx.count(("rs", json.dumps(c0)), nontrivial=c0[0] in "LD" or (c0[0] == "s" and len(c0[1]) > 0) or c0[0] in "ir")
    ctx.bump("kind:" + cls)
    # ---- property oracle on the real code: .rs
    ok = True
    v1 = None
    try:
        v1 = real.rs(text)
        t1 = real.write(v1)
        m = real.match(v, v1, has_dict)
    except Exception as e:
        ok = False
        if not nonfinite:
            ctx.oracle_fail(f"rs:{cls}", case, f"reads back {json.dumps(c0)}", f"text {text!r}: {type(e).__name__}: {e}",
                            ".rs of the written text raises")
    if ok and not nonfinite:
        if not m:
            ok = False
            ctx.oracle_fail(f"rs:{cls}", case, f"a value matching {json.dumps(c0)}", f"text {text!r} read back as {show(v1)}",
                            "the value read back does not match the original")
        elif t1 != text:
            ok = False
            ctx.oracle_fail(f"rs:{cls}", case, f"writes {text!r} again", f"read back as {show(v1)}, written {t1!r}",
                            "the value read back does not write identically")
        elif not same_kinds(c0, v1):
            ok = False
            ctx.oracle_fail(f"rs:{cls}", case, f"the same kinds as {json.dumps(c0)}", f"text {text!r} read back as {show(v1)}",
                            "the value read back has another kind (character / string / symbol / integer / real / list / dictionary)")
    if nonfinite:
        ctx.extra.setdefault("nonfinite_reproduced", {})[text] = show(v1) if v1 is not None else "raises"
        ctx.bump("outside-WFData:nonfinite")
    # ---- correspondence with the Lean model
    if drv is not None and not nonfinite:
        rep = fields(drv.ask("rt " + wire(c0)))
        if rep["_"] == "bad-op":
            ctx.mismatch("wire format", case, "bad-op", wire(c0)[:200])
            return ok
        ctx.bump("wfData:" + rep.get("wf", "?"))
        if rep.get("wf") == "1" and rep.get("same") != "1":
            ctx.mismatch("Klong.C11.read_write_roundtrip instance (model contradicts its theorem)", case, rep, "")
        if rep["t"] != _cps(text):
            ctx.mismatch("Klong.C11.kgWrite vs kg_write", case, rep["t"], _cps(text))
        elif ok and rep.get("wf") == "1":
            try:
                impl = f"v={wire(canon(v1))} end={real.end(text)}"
            except Exception as e:
                impl = f"<{type(e).__name__}>"
            model = f"v={rep.get('v')} end={rep.get('end')}"
            if model != impl:
                ctx.mismatch("Klong.C11.kgReadF vs kg_read/.rs", case, model, impl)
    # ---- read, change the value read in place, read again (containers)
    if alias is None:
        alias = label != "universe" or zlib.crc32(text.encode("utf-8", "replace")) % 3 == 0
    if ok and alias and not nonfinite and c0[0] in "LD":
        alias_pass(ctx, real, spec, c0, v, text, cls)
    # ---- .w / .r through channels
    if do_file and not nonfinite:
        try:
            ftext, r = real.w_r(v)
            if ftext != text:
                ctx.oracle_fail(f"w:{cls}", case, text, ftext, ".w writes something else than kg_write")
            elif not real.match(v, r, has_dict):
                ctx.oracle_fail(f"r:{cls}", case, f"a value matching {json.dumps(c0)}", f"text {text!r} read back by .r as {show(r)}",
                                ".r of what .w wrote does not match the original")
            elif real.write(r) != text:
                ctx.oracle_fail(f"r:{cls}", case, f"writes {text!r} again", f"{show(r)} written {real.write(r)!r}")
            elif not same_kinds(c0, r):
                ctx.oracle_fail(f"r:{cls}", case, f"the same kinds as {json.dumps(c0)}", f"text {text!r} read back by .r as {show(r)}",
                                ".r of what .w wrote has another kind")
        except Exception as e:
            ctx.oracle_fail(f"r:{cls}", case, f"reads back {json.dumps(c0)}", f"{type(e).__name__}: {e}", ".w/.r raises")
        ctx.bump("path:.w/.r")
    # ---- Form inverts Format (atoms)
    if c0[0] in "ircys" and not nonfinite:
        try:
            f, r = real.format_form(v)
            good = real.match(v, r, False) and canon(r)[0] == c0[0] and real.write(r) == text
            obs = f"$x = {f!r}, x:$$x = {show(r)}"
        except Exception as e:
            good, obs = False, f"{type(e).__name__}: {e}"
            f = None
        if not good:
            ctx.oracle_fail(f"form:{cls}", dict(kind="form", value=spec), f"x:$$x matches {json.dumps(c0)}", obs)
        elif drv is not None:
            rep = fields(drv.ask("ff " + wire(c0)))
            try:
                impl = f"t={_cps(f)} v={wire(canon(r))}"
            except Exception as e:
                impl = f"<{type(e).__name__}: {e}>"
            model = f"t={rep.get('t')} v={rep.get('v')}"
            if model != impl:
                ctx.mismatch("Klong.C11.fmt/form vs $ and :$", dict(kind="form", value=spec), model, impl)
        ctx.bump("path:form")
    return ok


# --------------------------------------------------------------------------- generators

def universe(ctx):
    """yield (spec, do_file) over the closed universe; quick = seeded sample of the big products"""
    quick = ctx.tier == "quick"
    rng = ctx.rng
    A = atoms_full()
    AL = atoms_list()
    for a in A:
        yield a, True
    for x in NONFINITE:
        yield ["r", repr(x)], False
        yield L([["r", repr(x)]]), False
    # strings over the alphabet of the quantifier: all up to length 3 (thorough) / 2 (quick), alone and in a list
    for n in range(0, 4 if quick else 5):
        for t in itertools.product(ALPHA, repeat=n):
            s = "".join(t)
            yield S(s), n <= 1
            if n <= 2 or rng.random() < (0.2 if quick else 0.5):
                yield L([S(s)]), False
                yield L([S(s), I(-1)]), False
    for s in STRINGS:
        yield L([S(s), S(s)]), True
        yield D([[S(s), S(s)]]), False
    # every atom in a list; pairs of atoms
    for a in AL:
        yield L([a]), True
        yield L([L([a])]), False
    pairs = list(itertools.product(AL, AL))
    if quick:
        pairs = rng.sample(pairs, 4000)
    for a, b in pairs:
        yield L([a, b]), False
    # homogeneous and mixed numeric vectors / matrices (kg_asarray coerces the mixed regular ones)
    yield L([]), True
    yield L([L([]), L([])]), True
    yield L([I(1), I(-2), I(3)]), True
    yield L([R(1.5), R(-2.5)]), True
    yield L([I(1), R(2.5)]), True
    yield L([L([I(1), I(2)]), L([I(3), I(4)])]), True
    yield L([L([I(1), I(2)]), L([R(3.5), R(4.5)])]), True
    yield L([L([I(1), I(2)]), L([R(3.5)])]), True
    yield L([L([I(-1)]), L([I(2), I(3)])]), True
    yield L([L([L([I(1), I(-2)]), L([I(3), I(4)])]), L([L([I(5), I(6)]), L([I(7), I(8)])])]), True
    yield L([I(2 ** 63 - 1), I(-2 ** 63)]), True
    yield L([C('a'), C('b')]), True
    yield L([L([S("ab"), S("cd")]), L([S("ef"), S("gh")])]), True
    yield L([I(1), L([I(2), L([I(3), L([I(4)]), I(5)]), I(6)]), I(7)]), True
    # all nestings to depth 3 over a small pool: depth 1 and 2 exhaustive (length <= 2), depth 3 sampled
    d1 = [L(t) for n in range(3) for t in itertools.product(SMALL, repeat=n)]
    for v in d1:
        yield v, False
    e2 = SMALL + d1
    d2 = [L(t) for n in range(1, 3) for t in itertools.product(e2, repeat=n)]
    for v in d2:
        yield v, False
    e3 = SMALL + d1 + rng.sample(d2, 60)
    for _ in range(2000 if quick else 30000):
        n = rng.choice([1, 2, 2, 3])
        yield L([rng.choice(e3) for _ in range(n)]), False
    # core atoms at depth 3
    for a in CORE:
        yield L([L([L([a])])]), False
        yield L([I(1), L([a, L([a, a])]), a]), False
    # dictionaries
    yield D([]), True
    for k in KEYS:
        yield D([[k, I(1)]]), True
        yield L([D([[k, k]])]), False
    vals = CORE + [L([]), L([I(1), I(-2)]), L([S("["), C('"')]), D([]), D([[I(1), S("x")]]), L([D([[Y("a"), L([I(1)])]])])]
    kv = list(itertools.product(KEYS, vals))
    for k, v in kv:
        yield D([[k, v]]), False
    for _ in range(1500 if quick else 20000):
        n = rng.choice([2, 2, 3, 4])
        ks = rng.sample(KEYS, n)
        if any(a[0] == "c" and b[0] == "s" and a[1] == b[1] for a in ks for b in ks):
            continue
        yield D([[k, rng.choice(vals)] for k in ks]), rng.random() < 0.05
    yield D([[I(1), D([[I(2), D([[I(3), L([D([])])]])]])]]), True
    yield L([D([[S("k"), L([I(1), D([[C('x'), S('"')]])])]]), I(-5)]), True
    # seeded random strings and nestings
    for _ in range(3000 if quick else 60000):
        s = rand_string(rng, ALPHA if rng.random() < 0.5 else ALPHA_WIDE, 10)
        r = rng.random()
        yield (S(s) if r < 0.4 else L([S(s)]) if r < 0.7 else L([S(s), C(rng.choice(ALPHA)), S(rand_string(rng))])), rng.random() < 0.05
    for _ in range(5000 if quick else 100000):
        yield rand_value(rng, 3), rng.random() < 0.05


# --------------------------------------------------------------------------- histories

def history(ctx):
    """values written one after the other in ONE interpreter/process, before anything else of the run:
    what is written must not depend on what was written before.  A character and the string (and the
    symbol) with the same text, bare and inside lists / dictionaries, in both orders; every content is
    used for the first time here, so each order really is the first contact of the process with it."""
    rng = ctx.rng
    pool = list("abdfghijklmnopqrstuvwxyzABCDEFGHIJKLMNOPQRSTUVWXYZ0123456789") + ['"', ' ', '\n', '[', ']', ':', ';', '-', '.', '{', '}']
    rng.shuffle(pool)
    fixed = ['"', ' ', '[', 'a', '0', ':']
    pool = fixed + [c for c in pool if c not in fixed]
    it = iter(pool)
    h = []

    def nxt():
        return next(it)

    def wrap(mk, c, how):
        a = mk(c)
        if how == 0:
            return a
        if how == 1:
            return L([a])
        if how == 2:
            return L([a, I(1), a])
        if how == 3:
            return D([[a, I(1)]])
        if how == 4:
            return D([[I(1), a]])
        return L([L([a]), D([[S("k" + c), L([a])]])])

    forms = [C, S]
    for how1 in range(6):
        for how2 in range(6):
            if how1 > 2 and how2 > 2 and rng.random() < 0.5:
                continue
            for first in (0, 1):
                try:
                    c = nxt()
                except StopIteration:
                    break
                h.append(wrap(forms[first], c, how1))
                h.append(wrap(forms[1 - first], c, how2))
                h.append(wrap(forms[first], c, how2))
    # symbol / string / character with equal text
    for c in "ce":
        for order in ([Y, S, C], [S, C, Y], [C, Y, S]):
            for mk in order:
                h.append(L([mk(c), mk(c)]))
        h.append(L([Y(c), S(c), C(c)]))
        h.append(D([[Y(c), S(c)], [S(c), C(c)]]))
    # numbers that print alike
    h += [I(1), R(1.0), L([I(1)]), L([R(1.0)]), I(0), R(0.0), R(-0.0), L([R(-0.0)]), L([R(0.0)]), L([I(0)])]
    return h


def run_history(ctx, real, drv, h):
    for i, spec in enumerate(h):
        case = dict(kind="history", values=h[:i + 1],
                    note="write, read back and compare every value of the list in this order in one fresh process")
        n = len(ctx.oracle_failures) + len(ctx.known_hits)
        run_case(ctx, real, drv, spec, do_file=(i % 3 == 0), label="history", case=case)
        ctx.bump("path:history")
        if len(ctx.oracle_failures) + len(ctx.known_hits) > n:
            return len(ctx.oracle_failures) > 0
    return False


# --------------------------------------------------------------------------- several objects in one file

def files(ctx):
    """(values, separator): 3-7 values of different kinds and lengths written to one file"""
    quick = ctx.tier == "quick"
    rng = ctx.rng
    long_s = S(('say "hi" [1 2] :{x} 0c" ' * 14) + "end\nof text")
    long_l = L([I(n * 37 - 900) for n in range(120)])
    deep = D([[S("k"), L([I(1), D([[C('x'), S('"')], [Y("s"), L([R(1.5), R(-1e-7)])]])])], [I(-1), S("v v")]])
    fam = [
        [I(-5), S("a b"), L([I(1), I(2), I(3)]), Y("foo"), D([[I(1), I(2)]]), R(1.5), C(' ')],
        [long_s, I(7), long_l, S("x"), deep, I(-2), L([I(1), I(2)])],
        [S(""), L([]), D([]), C('"'), R(-1e-7), L([L([L([S("x")])])])],
        [S("line1\nline2"), L([S("a\nb"), I(1)]), I(-17), C('\n'), Y("a.b"), S("]")],
        [I(1), I(2), I(3)],
        [L([I(-1)]), L([I(-2)]), L([I(-3)]), L([I(-4)]), L([I(-5)]), L([I(-6)])],
        [deep, deep, long_l, long_s, S("[")],
    ]
    for vals in fam:
        yield vals, " "
    yield fam[0], "  "
    yield fam[1], "   "
    for _ in range(12 if quick else 300):
        vals = []
        while len(vals) < rng.choice([3, 4, 5, 6]):
            v = rand_value(rng, 2)
            if json.dumps(v, ensure_ascii=False).isascii() and case_class(v) != "nonfinite":
                vals.append(v)
        yield vals, rng.choice([" ", " ", "  "])
    # text outside ASCII before a later object (.r repositions with character counts on a byte offset)
    yield [S("größe"), Y("foo"), I(7), S("x"), I(-2)], " "
    yield [Y("λ"), L([I(1), I(2)]), C('名'), I(3), S("tail")], " "


def run_file(ctx, real, vals, sep):
    be = real.be
    case = dict(kind="file", values=vals, sep=sep,
                note="write all values with .w (separator with .d) to one file, read them back with successive .r()")
    try:
        vs = [build(x, be) for x in vals]
        cs = [canon(v) for v in vs]
        texts = [real.write(v) for v in vs]
    except Exception as e:
        ctx.oracle_fail("rfile:build", case, "values are written", f"{type(e).__name__}: {e}")
        return
    want = "".join(t + sep for t in texts)
    ctx.count(("file", json.dumps(cs), sep))
    ctx.bump("path:multi-object-file")
    try:
        text, out = real.w_many_r(vs, sep)
    except Exception as e:
        ctx.oracle_fail("rfile:raises", case, "the file is written and read", f"{type(e).__name__}: {e}")
        return
    if text != want:
        ctx.oracle_fail("wfile:text", case, want[:300], text[:300], ".w to one channel does not write the readable forms one after the other")
        return
    for i, (v, c0, t) in enumerate(zip(vs, cs, texts)):
        tag, r = out[i]
        nonascii = not want[:want.index(t, sum(len(x) + len(sep) for x in texts[:i]))].isascii() if i else False
        key = "rfile:after-non-ascii-text" if nonascii else f"rfile:{case_class(vals[i])}"
        has_dict = contains(c0, lambda s: s[0] == "D")
        try:
            good = tag == "v" and real.match(v, r, has_dict) and same_kinds(c0, r) and real.write(r) == t
        except Exception:
            good = False
        if not good:
            ctx.oracle_fail(key, case, f"object {i + 1} of the file reads back as {json.dumps(c0)}",
                            (f"read {i + 1} returned {show(r)}" if tag == "v" else f"read {i + 1} raised {r}"),
                            "successive .r() on one channel do not return the objects written to it")
            return
    for j, (tag, r) in enumerate(out[len(vs):]):
        if tag != "v" or r is not None:
            ctx.oracle_fail("rfile:eof" if want.isascii() else "rfile:after-non-ascii-text", case, "nothing more to read after the last object",
                            f"read {len(vs) + j + 1} returned {show(r) if tag == 'v' else r}",
                            ".r() past the last object does not report the end of the input")
            return


# --------------------------------------------------------------------------- entry

def _common(ctx):
    ctx.rule = ("first a history in the fresh process (a character, the string and the symbol with the same text, bare and in "
                "lists/dictionaries, in both orders - what is written must not depend on what was written before; kinds "
                "compared exactly); then the closed universe: every atom (extreme/negative integers, reals incl. exponent forms, characters, "
                "symbols, strings over {quote, blank, newline, [, ], :, 0, c, letters} up to length 3 (4 in the thorough tier)), every atom and "
                "sampled/all pairs in a list, nestings to depth 3 over a small pool (depth <=2 exhaustive in the "
                "thorough tier), dictionaries over every key kind, plus seeded random strings and nestings; each "
                "value: kg_write -> .rs (and .w/.r for a subset) on the real interpreter and the Lean writer/reader; for lists and "
                "dictionaries (history, corpus, a third of the universe) also read -> change the value read in place -> read the "
                "same text again: the original value again, no object shared between read-backs or with the value written. "
                "Also files with 3-7 objects of different kinds and lengths written to one channel and read back by successive "
                ".r() (each object compared, then the end of input). distinct = distinct values as Klong holds them; non-trivial = not an empty string / character / symbol atom")
    ctx.assumptions += [
        "float(repr(x)) == x for finite floats and str(int)/int(str) are CPython's; reals are carried as tokens",
        "values are taken as Klong constructs them (lists through kg_asarray): a regular all-numeric nest holds only "
        "integers or only reals",
        "text is read outside a module (.module not active), numpy backend",
        "inf/nan are not Klong reals (written `inf`/`nan`, read back as symbols): outside WFData, reproduced and recorded",
    ]


def char_classes(ctx, drv):
    """the model's character classes against str's: equal on ASCII; every letter the model knows outside
    ASCII is a letter for str.isalpha (so a well-formed symbol name is lexed the same way)"""
    cps = list(range(0, 0xA000))
    reps = drv.ask_many([f"cls {n}" for n in cps])
    for n, r in zip(cps, reps):
        f = fields(r)
        ch = chr(n)
        py = dict(alpha=ch.isalpha(), digit=ch.isnumeric() and ch.isdigit(), space=ch.isspace(),
                  symbolic=ch.isalpha() or ch.isdigit() or ch == '.')
        if n < 128:
            bad = [k for k in py if f.get(k) != ("1" if py[k] else "0")]
        else:
            bad = [k for k in ("alpha", "digit", "space") if f.get(k) == "1" and not py[k]]
        if bad:
            ctx.mismatch("Klong.C11 character classes vs str methods", dict(kind="char", codepoint=n), r, str(py))
            return
    ctx.bump("char-classes-checked", len(cps))


def run(ctx):
    _common(ctx)
    real = Real(ctx)
    drv = Driver("c11") if getattr(ctx, "driver_ok", True) else None
    seen = set()
    try:
        if drv is not None:
            char_classes(ctx, drv)
        if run_history(ctx, real, drv, history(ctx)):
            # what is written depends on what was written before: single values of the universe could not
            # be replayed on their own, the history is the failing input
            return
        for vals, sep in files(ctx):
            run_file(ctx, real, vals, sep)
        cdir = common.CORPUS / "C11"
        if cdir.exists():
            for p in sorted(cdir.glob("*.json")):
                c = json.loads(p.read_text())
                run_case(ctx, real, drv, c["value"], do_file=True, label="corpus")
        for spec, do_file in universe(ctx):
            key = json.dumps(spec)
            if key in seen:
                continue
            seen.add(key)
            run_case(ctx, real, drv, spec, do_file=do_file)
            if len(ctx.samples) < 6 and spec[0] in "LD" and len(key) > 30 and len(seen) % 97 == 0:
                try:
                    ctx.sample(dict(value=spec, text=real.write(build(spec, real.be))))
                except Exception:
                    pass
    finally:
        if drv:
            drv.close()


def replay(ctx, case):
    _common(ctx)
    real = Real(ctx)
    drv = Driver("c11") if getattr(ctx, "driver_ok", True) else None
    c = case.get("case", case)
    try:
        if c.get("kind") == "history":
            run_history(ctx, real, drv, c["values"])
        elif c.get("kind") == "file":
            run_file(ctx, real, c["values"], c["sep"])
        elif c.get("kind") == "alias":
            run_case(ctx, real, drv, c["value"], do_file=True, label="replay", alias=True)
        else:
            run_case(ctx, real, drv, c["value"], do_file=True, label="replay")
    finally:
        if drv:
            drv.close()
    print("replay:", "oracle failures:", ctx.oracle_failures, "mismatches:", ctx.mismatches)
