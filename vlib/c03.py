"""C03 — function application, projection, locals and conditionals follow substitution.

Tie: programs from a closed grammar are run as text on the REAL KlongInterpreter and, as the
AST the real parser produced (sent in an S-expression wire form), on the Lean evaluator
`Klong.C03.eval`; after every statement the canonical result / error class, the events of
the logging primitive, the context depth and the snapshot of all global variables are
compared.  Bare KlongContext objects are driven with random get/set/del/push/pop sequences
against `Klong.C03.Ctx`.

Oracle (needs no model): call form = textually substituted body; every projection pattern
and fill order = the direct call; a conditional selects by Klong truth and logs only the
selected branch; after any call — also one that raised at any sub-expression of up to three
nested calls — the depth, the set of global names and every global not assigned by the
program are as before, and follow-up programs give what they give on an interpreter that
never ran the failed call.
"""
import itertools
import json

import numpy as np

from . import common
from .common import Driver
from .universe import canon, to_wire

CLAIM = dict(
    text="Lean 4 theorems over a fuelled big-step evaluator that mirrors KlongInterpreter.eval/call/_eval_fn/"
         "_resolve_fn (three passes)/merge_projections and KlongContext get/set/del/push/pop: frame discipline for "
         "every program, fuel and outcome (value or error at any depth) with the post-state equal to the pre-state "
         "plus assignments; projections of arity 2 and 3 filled in any order and any number of steps equal the direct "
         "call; declared locals, parameters and .f never reach the caller; a conditional evaluates exactly the branch "
         "selected by Klong truth; calls of first-order bodies equal the substituted body. Model tied to klongpy by "
         "running the real parser's AST of generated programs on both sides and comparing result, events, depth and "
         "all globals after every statement.",
    note="trusted: Lean kernel (axioms propext/Classical.choice/Quot.sound), the correspondence harness and its AST "
         "translator, CPython, numpy for the few integer verbs used; the parser is not modelled (its AST is the input); "
         "modules, I/O and system functions are outside the evaluator model",
    technique="Lean 4 big-step semantics + invariant/refinement proofs, hand-written model, differential correspondence "
              "on the real parser's AST, substitution/before-after oracles on the real interpreter",
    design="7/C03")

MODULES = ["Klong.Props.C03"]
THEOREMS = [
    "Klong.C03.frame_discipline",
    "Klong.C03.eval_after_failure",
    "Klong.C03.call_frame_discipline",
    "Klong.C03.locals_are_local",
    "Klong.C03.merge_is_positional",
    "Klong.C03.projection_any_order",
    "Klong.C03.projection_one_step",
    "Klong.C03.pinned_merge_counterexample",
    "Klong.C03.cond_by_truth",
    "Klong.C03.cond_unselected_silent",
    "Klong.C03.truthy_spec",
    "Klong.C03.call_is_substitution",
    "Klong.C03.call_is_substitution_var",
    "Klong.C03.call_is_substitution_at",
    "Klong.C03.symbol_member_counterexample",
]

FUEL = 1000


class Boom(Exception):
    pass


class Unsupported(Exception):
    pass


# --------------------------------------------------------------------------- AST -> wire

def _tok(op):
    return ".".join(str(ord(c)) for c in op)


def ast_wire(o):
    """klongpy AST node / run-time value -> wire form of Klong.C03.Expr"""
    from klongpy.core import KGSym, KGFn, KGCall, KGCond, KGLambda, KGOp
    if o is None:
        return "H"
    if isinstance(o, KGSym):
        return f"(sym {o})"
    if isinstance(o, KGCond):
        if len(o) != 3:
            raise Unsupported("cond arity")
        return "(cond " + " ".join(ast_wire(e) for e in o) + ")"
    if isinstance(o, KGLambda):
        return f"(lam {o.fn.__name__})"
    if isinstance(o, KGFn):
        if o.is_op():
            op, ar = o.a.a, o.a.arity
            args = o.args if type(o.args) is list else [o.args]
            if ar == 1:
                return f"(op1 {_tok(op)} {ast_wire(args[0])})"
            if op == "::":
                if not isinstance(args[0], KGSym):
                    raise Unsupported("assignment target")
                return f"(asg {args[0]} {ast_wire(args[1])})"
            return f"(op2 {_tok(op)} {ast_wire(args[0])} {ast_wire(args[1])})"
        if o.is_adverb_chain():
            arr = o.a
            if len(arr) != 3 or o.args is not None or isinstance(arr[0].a, KGOp):
                raise Unsupported("adverb chain")
            verb, adv, arg = arr
            if adv.a == "'" and adv.arity == 1 and verb.arity == 1:
                return f"(each {ast_wire(verb.a)} {ast_wire(arg)})"
            if adv.a == "/" and adv.arity == 1 and verb.arity == 2:
                return f"(over {ast_wire(verb.a)} {ast_wire(arg)})"
            raise Unsupported("adverb")
        a = ast_wire(o.a)
        is_call = isinstance(o, KGCall)
        if o.args is None:
            return f"({'callN' if is_call else 'fn'} {a} {o.arity})"
        args = o.args if isinstance(o.args, list) else [o.args]
        return f"({'call' if is_call else 'proj'} {a} ({' '.join(ast_wire(x) for x in args)}) {o.arity})"
    if isinstance(o, list):
        return "(prog " + " ".join(ast_wire(e) for e in o) + ")"
    v = canon(o)
    if _opaque(v):
        raise Unsupported(f"value {type(o).__name__}")
    return "(lit " + to_wire(v) + ")"


def _opaque(v):
    if v[0] == 'X':
        return True
    if v[0] == 'L':
        return any(_opaque(x) for x in v[1])
    if v[0] == 'D':
        return any(_opaque(k) or _opaque(x) for k, x in v[1])
    return False


# --------------------------------------------------------------------------- the two sides

def err_class(e):
    from klongpy.core import KlongException
    if isinstance(e, Boom):
        return "boom"
    if isinstance(e, KlongException):
        m = str(e)
        if m.startswith("undefined variable"):
            return "strict"
        if m.startswith("undefined"):
            return "undef"
        return "klong"
    if isinstance(e, RecursionError):
        return "fuel"
    return "type"


STATEMENT_TIMEOUT = 20      # seconds; generated programs take milliseconds


class _Timeout(BaseException):
    """not an Exception: klongpy's `except Exception: pass` around compiled paths must not swallow it"""


class _alarm:
    def __init__(self, seconds):
        self.seconds = seconds
        self.armed = False

    def __enter__(self):
        import signal
        import threading
        if threading.current_thread() is threading.main_thread():
            def fire(signum, frame):
                raise _Timeout()
            self.old = signal.signal(signal.SIGALRM, fire)
            signal.setitimer(signal.ITIMER_REAL, self.seconds)
            self.armed = True
        return self

    def __exit__(self, *a):
        import signal
        if self.armed:
            signal.setitimer(signal.ITIMER_REAL, 0)
            signal.signal(signal.SIGALRM, self.old)
        return False


class Real:
    """one real interpreter with the two Python callables of the grammar installed"""

    def __init__(self):
        from klongpy import KlongInterpreter
        self.k = KlongInterpreter()
        self.events = []

        def boom(x):
            raise Boom()

        def log(x):
            self.events.append(x)
            return x

        self.k['boom'] = boom
        self.k['log'] = log

    def depth(self):
        return len(self.k._context._context)

    def globals(self):
        c = self.k._context._context
        return c[len(c) - 3]

    def define(self, name, value):
        # data lists enter klongpy as numpy arrays (a Python list is a program)
        self.k[name] = np.asarray(value) if isinstance(value, list) else value

    def snapshot(self):
        """name -> wire of every user variable (global scope)"""
        out = {}
        for k, v in self.globals().items():
            try:
                out[str(k)] = ast_wire(v)
            except Unsupported as e:
                out[str(k)] = f"?{e}"
        return out

    def digest(self):
        vars_ = ";".join(sorted(f"{k}={v}" for k, v in self.snapshot().items()))
        try:
            log = "[" + ",".join(ast_wire(e) for e in self.events) + "]"
        except Unsupported as e:
            log = f"?{e}"
        return f"depth={self.depth()} log={log} vars={vars_}"

    def pycall(self, name, args):
        """call the value bound to `name` through the Python interface klong[name](*args) -> outcome"""
        try:
            with _alarm(STATEMENT_TIMEOUT):
                r = self.k[name](*args)
            try:
                return "ok " + ast_wire(r)
            except Unsupported as e:
                return f"ok ?{e}"
        except _Timeout:
            return "err timeout"
        except RecursionError:
            return "err fuel"
        except Exception as e:  # noqa: BLE001
            return f"err {err_class(e)} {type(e).__name__}: {e}"[:200]

    def run(self, text):
        """-> (outcome, digest); outcome = 'ok <wire>' | 'err <class>'.  Every statement runs under an
        alarm: a change that turns a bounded recursion into an endless loop must end as `err timeout`."""
        self.events.clear()
        try:
            with _alarm(STATEMENT_TIMEOUT):
                r = self.k(text)
            try:
                out = "ok " + ast_wire(r)
            except Unsupported as e:
                out = f"ok ?{e}"
        except _Timeout:
            out = "err timeout"
        except RecursionError:
            out = "err fuel"
        except Exception as e:  # noqa: BLE001 - the error class is the observable
            out = "err " + err_class(e)
        return out, self.digest()


_PARSER = None
_DRV = None


def _parse(text):
    global _PARSER
    if _PARSER is None:
        from klongpy import KlongInterpreter
        _PARSER = KlongInterpreter()
    return _PARSER.prog(text)[1]


def parse_wire(text):
    """the real parser's AST of a program text, as one `prog` node"""
    return "(prog " + " ".join(ast_wire(e) for e in _parse(text)) + ")"


class Model:
    def __init__(self, drv):
        self.drv = drv
        r = drv.ask("new")
        assert r.startswith("ok"), r
        for name in ("boom", "log"):
            r = drv.ask(f"def {name} (callN (lam {name}) 1)")
            assert r.startswith("ok"), r

    def define(self, name, wire):
        return self.drv.ask(f"def {name} {wire}")

    def run(self, text):
        try:
            w = parse_wire(text)
        except Unsupported as e:
            return None, f"unsupported {e}"
        r = self.drv.ask(f"run {FUEL} {w}")
        if r in ("bad-op", "arity-mismatch"):
            return r, ""
        # "<ok V | err C> depth=…"
        i = r.index(" depth=")
        return r[:i], r[i + 1:]


# --------------------------------------------------------------------------- generator AST
#
# nodes are JSON-able lists:  ["int", n]  ["val", pyvalue]  ["p", "x"]  ["g", name]
#   ["op2", o, a, b]  ["op1", o, a]  ["cond", c, a, b]  ["call", fname, [args]]  ["self", [args]]
#   ["asg", name, e]  ["seq", [e…]]  ["each", verbtext, a]  ["over", verbtext, a]  ["raw", text]

def lit_text(v):
    """Klong literal text of a plain Python value (ints, floats, str, flat/nested lists)"""
    if isinstance(v, bool):
        v = int(v)
    if isinstance(v, int):
        return str(v) if v >= 0 else f"({v})"
    if isinstance(v, float):
        r = repr(v)
        return r if v >= 0 and not r.startswith("-") else f"({r})"
    if isinstance(v, str):
        return '"' + v.replace('"', '""') + '"'
    if isinstance(v, list):
        return "[" + " ".join(_lit_inner(x) for x in v) + "]"
    if isinstance(v, dict) and not v:
        return ":{}"
    raise ValueError(v)


def _lit_inner(v):
    if isinstance(v, int):
        return str(v)
    if isinstance(v, float):
        return repr(v)
    return lit_text(v)


def render(n):
    t = n[0]
    if t == "int":
        return lit_text(n[1])
    if t == "val":
        return lit_text(n[1])
    if t in ("p", "g"):
        return n[1]
    if t == "op2":
        return f"({render(n[2])}{n[1]}{render(n[3])})"
    if t == "op1":
        return f"({n[1]}{render(n[2])})"
    if t == "cond":
        return f":[{render(n[1])};{render(n[2])};{render(n[3])}]"
    if t == "call":
        return f"{n[1]}({';'.join(render(a) for a in n[2])})"
    if t == "self":
        return f".f({';'.join(render(a) for a in n[1])})"
    if t == "asg":
        return f"{n[1]}::{render(n[2])}"
    if t == "seq":
        return ";".join(render(a) for a in n[1])
    if t == "each":
        return f"({n[1]}'{render(n[2])})"
    if t == "over":
        return f"({n[1]}/{render(n[2])})"
    if t == "raw":
        return n[1]
    raise ValueError(n)


def gsubst(n, env):
    """the body with the parameters replaced by argument VALUES (verb texts of adverbs are nested
    function literals / names: substitution stops there)"""
    t = n[0]
    if t == "p":
        return ["val", env[n[1]]] if n[1] in env else n
    if t in ("int", "val", "g", "raw"):
        return n
    if t == "op2":
        return ["op2", n[1], gsubst(n[2], env), gsubst(n[3], env)]
    if t == "op1":
        return ["op1", n[1], gsubst(n[2], env)]
    if t == "cond":
        return ["cond"] + [gsubst(a, env) for a in n[1:]]
    if t == "call":
        return ["call", n[1], [gsubst(a, env) for a in n[2]]]
    if t == "self":
        return ["self", [gsubst(a, env) for a in n[1]]]
    if t == "asg":
        return ["asg", n[1], gsubst(n[2], env)]
    if t == "seq":
        return ["seq", [gsubst(a, env) for a in n[1]]]
    if t in ("each", "over"):
        return [t, n[1], gsubst(n[2], env)]
    raise ValueError(n)


def rename_self(n, name):
    """`.f(…)` -> `name(…)` (recursion through the function's own name)"""
    t = n[0]
    if t == "self":
        return ["call", name, [rename_self(a, name) for a in n[1]]]
    if t in ("int", "val", "g", "raw", "p"):
        return n
    if t == "op2":
        return ["op2", n[1], rename_self(n[2], name), rename_self(n[3], name)]
    if t == "op1":
        return ["op1", n[1], rename_self(n[2], name)]
    if t == "cond":
        return ["cond"] + [rename_self(a, name) for a in n[1:]]
    if t == "call":
        return ["call", n[1], [rename_self(a, name) for a in n[2]]]
    if t == "asg":
        return ["asg", n[1], rename_self(n[2], name)]
    if t == "seq":
        return ["seq", [rename_self(a, name) for a in n[1]]]
    if t in ("each", "over"):
        return [t, n[1], rename_self(n[2], name)]
    raise ValueError(n)


PARAMS = ["x", "y", "z"]
SMALL = [0, 1, 2, 3, 5, 7]
ARG_INTS = [0, 1, -1, 2, 3, 5, -3, 7, 17, 100]
ARG_LISTS = [[], [1], [3, 1], [1, 2, 3], [5, -3, 2, 7]]
HELPERS = [("inc", 1, "inc::{x+1}"), ("dbl", 1, "dbl::{x*2}"), ("add", 2, "add::{x+y}"),
           ("sub", 2, "sub::{x-y}"), ("mad", 3, "mad::{(x*y)+z}"), ("pick", 3, "pick:::{:[x;y;z]}".replace(":::", "::"))]
GLOBALS = [("ga", 3), ("gb", 7), ("gz", 0)]

# the truth universe: (literal text or None, python value used for the oracle, defined-from-outside?)
TRUTH = [0, 1, -1, 2, 100, 0.0, 0.5, 1e-7, -2.5, [], [0], [0, 0], [1, 2, 3], "", "a", " ", "0", "abc", {}]


def py_truth(v):
    """Klong truth, stated independently: 0, [] and "" are false, everything else is true"""
    if isinstance(v, (int, float)) and not isinstance(v, bool):
        return v != 0
    if isinstance(v, (list, str)):
        return len(v) != 0
    return True


def gen_int(rng, nparams, depth, funs, log=False, rec=None, leafy=0.3, ops="+-+-*", globs=True):
    """integer-valued expression over the first `nparams` parameters, the integer globals and `funs`"""
    r = rng.random()
    if depth <= 0 or r < leafy:
        c = rng.random()
        if nparams and c < 0.55:
            return ["p", PARAMS[rng.randrange(nparams)]]
        if c < 0.8 or not globs:
            return ["int", rng.choice(SMALL)]
        return ["g", rng.choice(GLOBALS)[0]]
    sub = lambda: gen_int(rng, nparams, depth - 1, funs, log, rec, leafy, ops, globs)  # noqa: E731
    if r < 0.55:
        return ["op2", rng.choice(ops), sub(), sub()]
    if r < 0.62:
        return ["op2", "=", sub(), sub()]
    if r < 0.72:
        return ["cond", sub(), sub(), sub()]
    if r < 0.90 and funs:
        name, ar = rng.choice(funs)
        return ["call", name, [sub() for _ in range(ar)]]
    if r < 0.95 and log:
        return ["call", "log", [sub()]]
    if rec is not None and r < 0.97:
        return ["raw", rec]
    return ["op1", "-", sub()]


def gen_list(rng, nparams, depth):
    """list-mode body: joins and sizes only (parameters may be integers or flat integer lists)"""
    r = rng.random()
    if depth <= 0 or r < 0.3:
        c = rng.random()
        if nparams and c < 0.7:
            return ["p", PARAMS[rng.randrange(nparams)]]
        if c < 0.85:
            return ["int", rng.choice(SMALL)]
        return ["val", rng.choice(ARG_LISTS)]
    sub = lambda: gen_list(rng, nparams, depth - 1)  # noqa: E731
    if r < 0.75:
        return ["op2", ",", sub(), sub()]
    if r < 0.9:
        return ["op1", "#", sub()]
    return ["cond", sub(), sub(), sub()]


def _decl(rng, names):
    """a local declaration in one of its two spellings: `[a b];` or `[a;b];`"""
    if not names:
        return ""
    return "[" + (";" if rng.random() < 0.5 else " ").join(names) + "];"


def uses_all(n, nparams):
    txt = json.dumps(n)
    return all(f'["p", "{p}"]' in txt for p in PARAMS[:nparams])


def gen_body(rng, nparams, mode, funs, log=False, tries=20):
    for _ in range(tries):
        b = gen_int(rng, nparams, 3, funs, log) if mode == "int" else gen_list(rng, nparams, 3)
        if uses_all(b, nparams):
            return b
    # make sure every parameter occurs
    b = ["p", "x"] if nparams else ["int", 1]
    for p in PARAMS[1:nparams]:
        b = ["op2", "+" if mode == "int" else ",", b, ["p", p]]
    return b


def gen_args(rng, n, mode):
    if mode == "int":
        return [rng.choice(ARG_INTS) for _ in range(n)]
    return [rng.choice(ARG_LISTS) if rng.random() < 0.6 else rng.choice(ARG_INTS) for _ in range(n)]


def ordered_partitions(items):
    """all ordered set partitions of `items` (lists of non-empty blocks)"""
    items = list(items)
    if not items:
        return [[]]
    out = []
    first, rest = items[0], items[1:]
    for p in ordered_partitions(rest):
        for i in range(len(p)):
            out.append(p[:i] + [[first] + p[i]] + p[i + 1:])
        for i in range(len(p) + 1):
            out.append(p[:i] + [[first]] + p[i:])
    return out


PRELUDE = [h[2] for h in HELPERS] + [f"{g}::{v}" for g, v in GLOBALS]
FUNS = [(h[0], h[1]) for h in HELPERS]


# --------------------------------------------------------------------------- case builders

def case_subst(rng):
    n = rng.choice([1, 1, 2, 2, 3])
    mode = "int" if rng.random() < 0.7 else "list"
    use_log = rng.random() < 0.3
    body = gen_body(rng, n, mode, FUNS if mode == "int" else [], log=use_log)
    pre = []
    locals_ = []
    if mode == "int" and rng.random() < 0.35:
        # a multi-statement body: assignments to existing globals (deliberate) and/or declared locals.
        # Assigned values are sums of parameters and small integers and the products stay shallow, so
        # that nothing can reach the int64 range (numpy integers wrap, the substituted text has Python ints)
        stm = []
        body = gen_int(rng, n, 2, FUNS, log=use_log)
        if rng.random() < 0.5:
            locals_ = ["t"] if rng.random() < 0.5 else rng.choice([["t", "u"], ["u", "t"], ["u", "t", "w"]])
            stm.append(["asg", "t", gen_int(rng, n, 2, [], ops="+-", globs=False)])
            body = ["op2", "+", body, ["g", "t"]]
        if rng.random() < 0.6:
            stm.append(["asg", rng.choice(["ga", "gb"]), gen_int(rng, n, 2, [], ops="+-", globs=False)])
        if not uses_all(["seq", stm + [body]], n):
            for pp in PARAMS[:n]:
                body = ["op2", "+", body, ["p", pp]]
        body = ["seq", stm + [body]] if stm else body
    decl = _decl(rng, locals_)
    ftext = "{" + decl + render(body) + "}"
    stmts = list(PRELUDE) + pre + ["f::" + ftext]
    forms = []
    k = rng.randrange(2, 5)
    seq_body = body[0] == "seq"
    for _ in range(k):
        args = gen_args(rng, n, mode)
        choices = ["direct", "literal", "var"]
        if all(isinstance(a, int) for a in args) or n == 1:
            choices.append("at")
        if n == 1 and mode == "int":
            choices.append("each")
        if n == 2 and mode == "int":
            choices.append("over")
        form = rng.choice(choices)
        al = ";".join(lit_text(a) for a in args)
        if form == "direct":
            text = f"f({al})"
        elif form == "literal":
            text = f"{ftext}({al})"
        elif form == "var":
            stmts.append("v::f")
            text = f"v({al})"
        elif form == "at":
            if n == 1:
                text = f"f@{lit_text(args[0])}" if isinstance(args[0], int) else f"f@[{lit_text(args[0])}]"
            else:
                text = "f@" + lit_text(args)
        elif form == "each":
            args = [rng.choice(ARG_INTS) for _ in range(rng.randrange(1, 4))]
            text = "f'" + lit_text(args)
        else:
            args = [rng.choice(ARG_INTS) for _ in range(rng.randrange(2, 5))]
            text = "f/" + lit_text(args)
        forms.append(dict(form=form, idx=len(stmts), args=args))
        stmts.append(text)
    return dict(kind="subst", stmts=stmts, meta=dict(n=n, body=body, locals=locals_, forms=forms, seq=seq_body))


# argument values of every kind of the universe (not only integers), through every call form
VAL_STRINGS = ["", "a", "ab", "abc", "hello foo", 'say "hi"', "h\u00e9llo w\u00f6rld", " "]
VAL_SIZEABLE = VAL_STRINGS + [[], [1], [3, 1], [1, 2, 3], ["ab", "cd"], ["a", "bcd", ""], [[1, 2], [3, 4]], [[1], [2, 3]],
                              0, 1, 7, -3, 100]
VAL_ANY = VAL_SIZEABLE + [0.5, 2.5, 0.0]


def _sz(p):
    return ["op1", "#", ["p", p]]


VAL_BODIES = {
    # arity: [(body, needs sizeable arguments, inside the model)]
    1: [(["p", "x"], False, True), (_sz("x"), True, True), (["cond", ["p", "x"], _sz("x"), ["int", 0]], True, True),
        (["cond", ["p", "x"], ["int", 1], ["int", 2]], False, True),
        (["op2", ",", ["p", "x"], ["val", "!"]], True, False), (["op2", ",", ["p", "x"], ["p", "x"]], True, False)],
    2: [(["p", "y"], False, True), (["op2", "+", _sz("x"), _sz("y")], True, True),
        (["cond", ["p", "x"], ["p", "y"], ["p", "x"]], False, True),
        (["op2", ",", ["p", "x"], ["p", "y"]], True, False)],
    3: [(["cond", ["p", "x"], ["p", "y"], ["p", "z"]], False, True),
        (["op2", "+", _sz("x"), ["op2", "+", _sz("y"), _sz("z")]], True, True),
        (["p", "z"], False, True), (["p", "y"], False, True)],
}


def _at_member_ok(a):
    """can be written as a member of the list literal on the right of @ without changing its kind"""
    return not isinstance(a, float)


def case_values(rng):
    """call form = substituted body for strings (empty, unicode), lists of strings, nested lists, reals"""
    n = rng.choice([1, 1, 1, 2, 3])
    body, sizeable, in_model = rng.choice(VAL_BODIES[n])
    pool = VAL_SIZEABLE if sizeable else VAL_ANY
    ftext = "{" + render(body) + "}"
    stmts = list(PRELUDE) + ["f::" + ftext]
    if n == 1:
        stmts.append("ap::{x@y}")
    if n == 3:
        stmts.append("t3::f")
    forms = []
    for _ in range(rng.randrange(3, 7)):
        args = [rng.choice(pool) if rng.random() < 0.75 else rng.choice(VAL_STRINGS) for _ in range(n)]
        choices = ["direct", "literal", "var", "at", "at", "at"]
        if n == 1:
            choices += ["each", "ateach", "atparam", "atparam"]
        if n == 2:
            choices += ["over"]
        if n == 3:
            choices += ["atproj", "atproj"]
        form = rng.choice(choices)
        al = ";".join(lit_text(a) for a in args)
        if form == "at" and n > 1 and not all(_at_member_ok(a) for a in args):
            form = "direct"
        if form == "direct":
            text = f"f({al})"
        elif form == "literal":
            text = f"{ftext}({al})"
        elif form == "var":
            stmts.append("v::f")
            text = f"v({al})"
        elif form == "at":
            if n == 1:
                a = args[0]
                how = rng.choice(["lit", "var"])
                operand = lit_text(a) if not isinstance(a, list) else "[" + _lit_inner(a) + "]"
                if how == "var":
                    stmts.append("w::" + operand)
                    operand = "w"
                text = f"f@{operand}"
            else:
                text = "f@[" + " ".join(_lit_inner(a) for a in args) + "]"
        elif form == "atparam":
            a = args[0]
            text = "ap(f;" + (lit_text(a) if not isinstance(a, list) else "[" + _lit_inner(a) + "]") + ")"
        elif form == "atproj":
            operand = lit_text(args[1]) if not isinstance(args[1], list) else "[" + _lit_inner(args[1]) + "]"
            text = f"f({lit_text(args[0])};;{lit_text(args[2])})@{operand}"
        elif form in ("each", "ateach"):
            # a list member reached by Each would be spread by @ (its members are the arguments): atoms only there
            ok = (lambda q: not isinstance(q, (float, list))) if form == "ateach" else (lambda q: not isinstance(q, float))
            args = [rng.choice([q for q in pool if ok(q)]) for _ in range(rng.randrange(1, 4))]
            text = ("f'" if form == "each" else "{f@x}'") + "[" + " ".join(_lit_inner(a) for a in args) + "]"
        else:
            args = [rng.choice([q for q in pool if not isinstance(q, float)]) for _ in range(rng.randrange(2, 4))]
            text = "f/[" + " ".join(_lit_inner(a) for a in args) + "]"
        forms.append(dict(form=form, idx=len(stmts), args=args))
        stmts.append(text)
    return dict(kind="subst", stmts=stmts, tie=in_model,
                meta=dict(n=n, body=body, locals=[], forms=forms, seq=False, values=True))


REC_TEMPLATES = [
    # (arity, body with .f, argument ranges)
    (2, ["cond", ["p", "x"], ["op2", "+", ["p", "y"], ["self", [["op2", "-", ["p", "x"], ["int", 1]], ["p", "y"]]]], ["int", 0]]),
    (3, ["cond", ["op2", "=", ["p", "x"], ["int", 0]], ["p", "z"],
         ["self", [["op2", "-", ["p", "x"], ["int", 1]], ["op2", "+", ["p", "y"], ["int", 1]], ["op2", "*", ["p", "z"], ["int", 2]]]]]),
    (1, ["cond", ["p", "x"], ["op2", "*", ["p", "x"], ["self", [["op2", "-", ["p", "x"], ["int", 1]]]]], ["int", 1]]),
]


def _dec(p):
    return ["op2", "-", ["p", p], ["int", 1]]


# .f in TAIL position with two or three arguments, a later argument mentioning a parameter that an
# earlier argument replaces: the arguments must all be evaluated in the calling activation
TAIL_TEMPLATES = [
    (2, ["cond", ["p", "x"], ["self", [_dec("x"), ["op2", "+", ["p", "y"], ["p", "x"]]]], ["p", "y"]]),           # sum
    (2, ["cond", ["p", "x"], ["self", [_dec("x"), ["op2", "*", ["p", "y"], ["p", "x"]]]], ["p", "y"]]),           # factorial
    (2, ["cond", ["p", "x"], ["self", [_dec("x"), ["op2", ",", ["p", "x"], ["p", "y"]]]], ["p", "y"]]),           # countdown list
    (3, ["cond", ["p", "x"], ["self", [_dec("x"), ["p", "z"], ["op2", "+", ["p", "y"], ["p", "z"]]]], ["p", "y"]]),   # Fibonacci
    (3, ["cond", ["p", "x"], ["self", [_dec("x"), ["p", "z"], ["p", "y"]]], ["op2", ",", ["p", "y"], ["p", "z"]]]),   # rotate
    (3, ["cond", ["op2", "=", ["p", "x"], ["int", 0]], ["op2", "-", ["p", "y"], ["p", "z"]],
         ["self", [_dec("x"), ["op2", "+", ["p", "x"], ["p", "z"]], ["op2", "*", ["p", "x"], ["p", "y"]]]]]),
]


def _tail_case(rng):
    """(n, body, locals): a bounded self-recursion through .f in tail position"""
    locals_ = []
    if rng.random() < 0.45:
        n, body = rng.choice(TAIL_TEMPLATES)
        return n, body, locals_
    n = rng.choice([2, 2, 3])
    # first argument counts x down; the others are small expressions over ALL parameters
    args = [_dec("x")]
    for _ in range(n - 1):
        a = gen_int(rng, n, rng.choice([1, 1, 2]), [], leafy=0.2, globs=False)
        if '["p", "x"]' not in json.dumps(a) and rng.random() < 0.7:
            a = ["op2", rng.choice("+-"), a, ["p", rng.choice(PARAMS[:n])]]
        args.append(a)
    rec = ["self", args]
    base = gen_int(rng, n, 1, [], globs=False)
    shape = rng.random()
    if shape < 0.5:
        body = ["cond", ["p", "x"], rec, base]
    elif shape < 0.7:
        body = ["cond", ["op2", "=", ["p", "x"], ["int", 0]], base, rec]
    elif shape < 0.85:
        # the tail of a program, after an assignment to a declared local
        locals_ = ["a"]
        body = ["seq", [["asg", "a", ["op2", "+", ["p", "x"], ["p", "y"]]],
                        ["cond", ["p", "x"], ["self", [_dec("x")] + [["op2", "+", ["g", "a"], q] for q in args[1:]]], ["g", "a"]]]]
    else:
        # nested conditionals: the self-call is the selected branch of the selected branch
        body = ["cond", ["p", "x"], ["cond", ["op2", "=", ["p", "y"], ["p", "y"]], rec, ["int", -1]], base]
    return n, body, locals_


def case_rec(rng):
    """recursion through .f against recursion through the function's own name"""
    stmts = list(PRELUDE)
    locals_ = []
    tail = rng.random() < 0.4
    if tail:
        n, body, locals_ = _tail_case(rng)
        if locals_:
            stmts += ["a::1000", "b::2000"]
    elif rng.random() < 0.5:
        n, body = rng.choice(REC_TEMPLATES)
        if rng.random() < 0.5:
            # random combination around the recursive call
            inner = gen_int(rng, n, 2, FUNS, rec="RECURSE")
            txt = json.dumps(inner)
            if "RECURSE" in txt:
                recargs = [["op2", "-", ["p", "x"], ["int", 1]]] + [["p", p] for p in PARAMS[1:n]]
                inner = json.loads(txt.replace('["raw", "RECURSE"]', json.dumps(["self", recargs])))
                body = ["cond", ["p", "x"], inner, gen_int(rng, n, 1, FUNS)]
    else:
        # declared locals around the recursive call (each activation must have its own)
        n = 1
        locals_ = ["a"] if rng.random() < 0.6 else ["a", "b"]
        rec = ["self", [["op2", "-", ["p", "x"], ["int", 1]]]]
        variants = [
            ["seq", [["asg", "a", ["p", "x"]], ["cond", ["p", "x"], rec, ["int", 0]], ["g", "a"]]],
            ["seq", [["asg", "a", ["op2", "*", ["p", "x"], ["int", 10]]],
                     ["op2", "+", ["cond", ["p", "x"], rec, ["int", 0]], ["g", "a"]]]],
            ["seq", [["asg", "a", ["p", "x"]], ["asg", locals_[-1], ["op2", "+", ["cond", ["p", "x"], rec, ["int", 100]], ["g", "a"]]],
                     ["op2", "+", ["g", locals_[-1]], ["g", "a"]]]],
        ]
        body = rng.choice(variants)
        stmts += ["a::1000", "b::2000"]
    decl = _decl(rng, locals_)
    stmts.append("fs::{" + decl + render(body) + "}")
    stmts.append("fr::{" + decl + render(rename_self(body, "fr")) + "}")
    pairs = []
    ncalls = rng.randrange(1, 4)
    if tail:
        stmts += ["vs::fs", "vr::fr"]
        if n >= 2:
            stmts += [f"ps::fs(;{';'.join(['1'] * (n - 1))})", f"pr::fr(;{';'.join(['1'] * (n - 1))})"]
    ndefs = len(stmts)
    for _ in range(ncalls):
        args = [rng.randrange(0, 5)] + [rng.choice(SMALL) for _ in range(n - 1)]
        al = ";".join(lit_text(a) for a in args)
        form = rng.choice(["direct", "direct", "var", "at", "proj"]) if tail else "direct"
        if form == "var":
            a, b = f"vs({al})", f"vr({al})"
        elif form == "at" and all(q >= 0 for q in args):
            a, b = "fs@" + lit_text(args), "fr@" + lit_text(args)
        elif form == "proj" and n >= 2:
            a, b = f"ps({lit_text(args[0])})", f"pr({lit_text(args[0])})"
        else:
            a, b = f"fs({al})", f"fr({al})"
        pairs.append([len(stmts), len(stmts) + 1])
        stmts += [a, b]
    return dict(kind="rec", stmts=stmts, meta=dict(pairs=pairs, locals=locals_, ndefs=ndefs, tail=tail))


PROJ_BODIES_INT = {2: [["op2", "+", ["op2", "*", ["int", 10], ["p", "x"]], ["p", "y"]],
                       ["op2", "-", ["p", "x"], ["p", "y"]]],
                   3: [["op2", "+", ["op2", "*", ["int", 100], ["p", "x"]], ["op2", "+", ["op2", "*", ["int", 10], ["p", "y"]], ["p", "z"]]],
                       ["op2", "-", ["p", "x"], ["op2", "*", ["p", "y"], ["p", "z"]]]]}
PROJ_BODIES_LIST = {2: [["op2", ",", ["p", "x"], ["p", "y"]], ["op2", ",", ["op1", "#", ["p", "x"]], ["p", "y"]]],
                    3: [["op2", ",", ["p", "x"], ["op2", ",", ["p", "y"], ["p", "z"]]],
                        ["op2", ",", ["op2", ",", ["op1", "#", ["p", "z"]], ["p", "x"]], ["p", "y"]]]}


def case_proj(rng, n, partition, variant):
    """one fill order: partition = ordered blocks of argument positions"""
    mode = "int" if rng.random() < 0.5 else "list"
    if rng.random() < 0.5:
        body = rng.choice((PROJ_BODIES_INT if mode == "int" else PROJ_BODIES_LIST)[n])
    else:
        body = gen_body(rng, n, mode, FUNS if mode == "int" else [])
    args = gen_args(rng, n, mode)
    ftext = "{" + render(body) + "}"
    stmts = list(PRELUDE) + ["f::" + ftext]
    direct = len(stmts)
    stmts.append("f(" + ";".join(lit_text(a) for a in args) + ")")
    remaining = list(range(n))
    prev = ftext if variant == "literal" else "f"
    for i, block in enumerate(partition[:-1]):
        pat = ";".join(lit_text(args[p]) if p in block else "" for p in remaining)
        name = f"p{i + 1}"
        stmts.append(f"{name}::{prev}({pat})")
        remaining = [p for p in remaining if p not in block]
        prev = name
    final_args = [args[p] for p in remaining]
    call = len(stmts)
    style = "direct"
    if len(partition) > 1 and variant == "adverb":
        if len(remaining) == 1 and isinstance(final_args[0], int):
            style = "each"
        elif len(remaining) == 2 and all(isinstance(a, int) for a in final_args):
            style = rng.choice(["over", "at"])
    if style == "each":
        stmts.append(f"{prev}'{lit_text([final_args[0]])}")
    elif style == "over":
        stmts.append(f"{prev}/{lit_text(final_args)}")
    elif style == "at":
        stmts.append(f"{prev}@{lit_text(final_args)}")
    else:
        stmts.append(f"{prev}(" + ";".join(lit_text(a) for a in final_args) + ")")
    return dict(kind="proj", stmts=stmts,
                meta=dict(n=n, body=body, args=args, partition=partition, direct=direct, call=call, style=style,
                          steps=len(partition), list_arg=any(isinstance(a, list) for a in args)))


def case_cond(rng):
    """conditionals over the truth universe, with logging branches"""
    stmts = list(PRELUDE)
    defs = {}
    expects = []

    def test_expr(v):
        """a way of writing the test value: literal, global, via a variable defined from outside"""
        c = rng.random()
        if isinstance(v, dict):
            c = 0.2 if c < 0.3 else 0.9      # the literal :{} is a call of a copying lambda: outside the model
        if c < 0.5:
            return lit_text(v), []
        if c < 0.8:
            return "tv", [f"tv::{lit_text(v)}"]
        name = f"tw{len(defs)}"
        defs[name] = v
        return name, []

    for _ in range(rng.randrange(2, 6)):
        v = rng.choice(TRUTH)
        shape = rng.choice(["top", "fn", "elif", "asg", "each", "expr", "nested", "monad", "dyad"])
        if shape == "each":
            vs = [rng.choice([0, 1, 2, 0, -1]) for _ in range(rng.randrange(1, 5))]
            stmts.append("{:[x;log(10+x);log(20+x)]}'" + lit_text(vs))
            expects.append(dict(i=len(stmts) - 1, out=[(10 + q) if q != 0 else (20 + q) for q in vs],
                                events=[(10 + q) if q != 0 else (20 + q) for q in vs]))
            continue
        if shape == "expr":
            a, b = rng.choice(SMALL), rng.choice(SMALL)
            kind = rng.choice(["eq", "minus", "size"])
            if kind == "eq":
                t, tv = f"{a}={b}", int(a == b)
            elif kind == "minus":
                t, tv = f"{a}-{b}", a - b
            else:
                lst = rng.choice(ARG_LISTS)
                t, tv = f"#{lit_text(lst)}", len(lst)
            stmts.append(f":[{t};log(1);log(2)]")
            sel = 1 if py_truth(tv) else 2
            expects.append(dict(i=len(stmts) - 1, out=sel, events=[sel]))
            continue
        t, extra = test_expr(v)
        stmts += extra
        if isinstance(v, float) and v == 0.0 and rng.random() < 0.5:
            t = f"tw{len(defs)}"
            defs[t] = -0.0
        sel = py_truth(v)
        if shape == "monad":
            # a conditional as the operand of a monadic operator
            if rng.random() < 0.5:
                stmts.append(f"-:[{t};log(1);log(2)]")
                expects.append(dict(i=len(stmts) - 1, out=-1 if sel else -2, events=[1 if sel else 2], key="cond:monad-operand"))
            else:
                stmts.append("mf::{#:[x;y;z]}")
                stmts.append(f"mf({t};[7];[8 9])")
                expects.append(dict(i=len(stmts) - 1, out=1 if sel else 2, events=[], key="cond:monad-operand"))
        elif shape == "dyad":
            stmts.append(f"100+:[{t};log(1);log(2)]")
            expects.append(dict(i=len(stmts) - 1, out=101 if sel else 102, events=[1 if sel else 2]))
        elif shape == "top":
            stmts.append(f":[{t};log(1);log(2)]")
            expects.append(dict(i=len(stmts) - 1, out=1 if sel else 2, events=[1 if sel else 2]))
        elif shape == "fn":
            stmts.append("cf::{:[x;log(y);log(z)]}")
            stmts.append(f"cf({t};5;6)")
            expects.append(dict(i=len(stmts) - 1, out=5 if sel else 6, events=[5 if sel else 6]))
        elif shape == "elif":
            v2 = rng.choice(TRUTH)
            t2 = lit_text(v2)
            stmts.append(f":[{t};log(1):|{t2};log(2);log(3)]")
            r = 1 if sel else (2 if py_truth(v2) else 3)
            expects.append(dict(i=len(stmts) - 1, out=r, events=[r]))
        elif shape == "nested":
            v2 = rng.choice(TRUTH)
            t2 = lit_text(v2)
            stmts.append(f":[{t};:[{t2};log(1);log(2)];:[{t2};log(3);log(4)]]")
            r = (1 if py_truth(v2) else 2) if sel else (3 if py_truth(v2) else 4)
            expects.append(dict(i=len(stmts) - 1, out=r, events=[r]))
        else:
            stmts.append(f":[{t};ga::41;gb::42]")
            expects.append(dict(i=len(stmts) - 1, out=41 if sel else 42, events=[],
                                var=["ga", 41] if sel else ["gb", 42], untouched="gb" if sel else "ga"))
    return dict(kind="cond", stmts=stmts, defs=defs, meta=dict(expects=expects))


BOOM = ":[fail;boom(x);0]"
FRAME_POS = ["pre", "arg", "left", "right", "condtest", "condbranch", "post", "eachverb", "localasg", "newasg", "lastexpr"]
CALL_STYLES = ["direct", "at", "eachatom", "eachlist", "var", "proj", "over"]


def frame_fn(level, depth, pos, style, self_rec, sep=" "):
    """text of level function f<level>; `pos` (or None) is where the failing sub-expression sits"""
    nxt = level + 1
    if level == depth:
        inner = "(x*2)"
    elif style == "direct":
        inner = f"f{nxt}(x+1)"
    elif style == "at":
        inner = f"(f{nxt}@(x+1))"
    elif style == "eachatom":
        inner = f"(f{nxt}'(x+1))"
    elif style == "eachlist":
        inner = f"(#f{nxt}'((x+1),(x+2)))"
    elif style == "var":
        inner = f"v{nxt}(x+1)"
    elif style == "proj":
        inner = f"q{nxt}(x+1)"
    else:
        inner = f"({{f{nxt}(x+y)}}/((x,1),0))"
    if self_rec and level == depth:
        inner = ":[x;.f(0);7]"
    b = BOOM
    pre = post = ""
    a_rhs = "x"
    last = "t+a"
    call = inner
    if pos == "pre":
        pre = b + ";"
    elif pos == "arg" and level < depth and style in ("direct", "var", "proj"):
        call = inner.replace("(x+1)", f"((x+1)+{b})")
    elif pos == "arg":
        pre = f"inc({b});"
    elif pos == "left":
        call = f"(({b})+{inner})"
    elif pos == "right":
        call = f"({inner}+({b}))"
    elif pos == "condtest":
        call = f":[{b};0;{inner}]"
    elif pos == "condbranch":
        call = f":[1;({b})+{inner};0]"
    elif pos == "post":
        post = b + ";"
    elif pos == "eachverb":
        pre = "{:[fail;boom(x);x]}'[1 2];"
    elif pos == "localasg":
        a_rhs = f"x+{b}"
    elif pos == "newasg":
        pre = f"newv::{b};"
    elif pos == "lastexpr":
        last = f"(t+a)+{b}"
    return (f"f{level}::{{[a{sep}t];a::{a_rhs};g{level}::g{level}+1;{pre}t::{call};{post}g{level}::g{level}+10;{last}}}")


def case_frame(rng, depth=None, fail_level=None, pos=None):
    depth = depth or rng.choice([1, 2, 3])
    fail_level = fail_level or rng.randrange(1, depth + 1)
    pos = pos or rng.choice(FRAME_POS)
    styles = [rng.choice(CALL_STYLES) for _ in range(depth)]
    self_rec = rng.random() < 0.3
    stmts = list(PRELUDE) + ["fail::0", "a::10", "b::20", "t::30", "g1::0", "g2::0", "g3::0"]
    for level in range(depth, 0, -1):
        stmts.append(frame_fn(level, depth, pos if level == fail_level else None, styles[level - 1], self_rec,
                              sep=rng.choice(" ;")))
        if level > 1:
            st = styles[level - 2]
            if st == "var":
                stmts.append(f"v{level}::f{level}")
            elif st == "proj":
                stmts.append(f"d{level}::{{f{level}(x)+y}}")
                stmts.append(f"q{level}::d{level}(;0)")
    ndefs = len(stmts)
    arg = rng.choice([1, 2, 3])
    may = ["g1", "g2", "g3", "fail"]
    stmts.append(f"f1({arg})")          # succeeds (fail = 0)
    stmts.append("fail::1")
    fail_idx = len(stmts)
    stmts.append(f"f1({arg})")          # raises somewhere inside (when the position is reached)
    stmts.append("fail::0")
    follow = len(stmts)
    stmts += [f"f1({arg})", "a", "t", "x", "y", ".f", "newv", f"f{depth}(1)"]
    return dict(kind="frame", stmts=stmts,
                meta=dict(depth=depth, fail_level=fail_level, pos=pos, styles=styles, ndefs=ndefs, may=may,
                          calls=[ndefs, fail_idx], fail_idx=fail_idx, follow=follow))


LOCAL_TEMPLATES = [
    # (statements, expectations {index: value}, globals that must keep value {name: value}, names that must not exist)
    (["a::10", "f::{[a];a::x;a+1}", "f(5)", "a"], {2: 6, 3: 10}, {"a": 10}, []),
    (["a::10", "g::{a::a+x;a}", "f::{[a];a::x;g(1);a}", "f(5)", "a", "g(1)", "a"], {3: 6, 4: 10, 5: 11, 6: 11}, {}, []),
    (["f::{t::x*2;t+1}", "f(3)"], {1: 7}, {}, ["t"]),
    (["x::100", "f::{x::x+1;x*2}", "f(3)", "x"], {2: 8, 3: 100}, {"x": 100}, []),
    (["f::{[h];h::{x*2};h(x)+1}", "f(3)"], {1: 7}, {}, ["h"]),
    (["h::{x+1}", "f::{[h];h::{x*2};h(x)}", "f(3)", "h(3)"], {2: 6, 3: 4}, {}, []),
    (["a::1", "b::2", "f::{[a b];a::x;b::y;(10*a)+b}", "f(3;4)", "a", "b"], {3: 34, 4: 1, 5: 2}, {"a": 1, "b": 2}, []),
    (["a::1", "b::2", "f::{[a;b];a::x;b::y;(10*a)+b}", "f(3;4)", "a", "b"], {3: 34, 4: 1, 5: 2}, {"a": 1, "b": 2}, []),
    (["a::1", "b::2", "c::3", "f::{[a;b;c];a::x;b::a+1;c::b+1;a+b+c}", "f(3)", "a", "b", "c"], {4: 12, 5: 1, 6: 2, 7: 3},
     {"a": 1, "b": 2, "c": 3}, []),
    (["sumto::{[a;b];a::x;b:::[x;.f(x-1);0];a+b}", "sumto(4)", "a::7", "sumto(3)", "a"], {1: 10, 3: 6, 4: 7}, {"a": 7}, ["b"]),
    (["a::5", "g::{[a;t];a::x;t::a*2;t}", "f::{[a;b];a::x;b::g(a+1);a+b}", "f(2)", "a"], {3: 8, 4: 5}, {"a": 5}, ["b", "t"]),
    (["a::1", "f::{[a];a::x;boom(x)}", "f(9)", "a"], {3: 1}, {"a": 1}, []),
    (["a::1", "f::{[a];a::x;inc(boom(x))}", "g::{[b];b::x;f(b)+1}", "g(9)", "a", "b"], {4: 1}, {"a": 1}, ["x", "y", ".f"]),
    (["f::{[a];a::x;:[x;.f(x-1);0];a}", "f(3)"], {1: 3}, {}, ["a"]),
    (["f::{[a];a}", "f()", "a"], {}, {}, []),
    (["k::5", "f::{k::x;k}", "f(8)", "k"], {2: 8, 3: 8}, {}, []),
]


def case_locals(rng):
    if rng.random() < 0.5:
        stmts, expect, keep, absent = rng.choice(LOCAL_TEMPLATES)
        return dict(kind="locals", stmts=list(PRELUDE) + list(stmts),
                    meta=dict(expect={str(k + len(PRELUDE)): v for k, v in expect.items()}, keep=keep, absent=absent,
                              may=["a", "k"] if "g(1)" in stmts or "k::5" in stmts else [], calls=[]))
    # random: declared locals L, assignments to names of {a b t u}, a and b exist globally
    names = ["a", "b", "t", "u"]
    locs = [n for n in names if rng.random() < 0.5]
    n = rng.choice([1, 2])
    body = []
    assigned = []
    for _ in range(rng.randrange(1, 5)):
        nm = rng.choice(names)
        body.append(f"{nm}::{render(gen_int(rng, n, 2, FUNS))}")
        assigned.append(nm)
    readable = [q for q in assigned] + ["a", "b"]
    body.append("+".join(rng.choice(readable) for _ in range(2)) + "+" + render(gen_int(rng, n, 1, FUNS)))
    fail = rng.random() < 0.3
    if fail:
        body.insert(rng.randrange(len(body) + 1), "boom(x)")
    decl = _decl(rng, locs)
    stmts = list(PRELUDE) + ["a::10", "b::20", "f::{" + decl + ";".join(body) + "}"]
    call = len(stmts)
    stmts.append("f(" + ";".join(lit_text(rng.choice(ARG_INTS)) for _ in range(n)) + ")")
    stmts += ["a", "b"]
    may = [q for q in assigned if q not in locs and q in ("a", "b")]
    return dict(kind="locals", stmts=stmts, meta=dict(expect={}, keep={}, absent=[q for q in ("t", "u", "x", "y", ".f")],
                                                       may=may, calls=[call]))


# ---- long histories of failing calls, then probes (the budget a failed call may leave behind)

HIST_PRELUDE = ["down::{:[x;1+down(x-1);0]}", "cnt::{:[x;.f(x-1;y+x);y]}", "bf::{boom(x)}", "bg::{inc(bf(x))}", "pq::add(1;)"]
# failures that surface while the callee is resolved or the argument list is evaluated, nested 1-3 deep
HIST_FAIL_ARGS = ["nosuch(1)", "inc(nosuch(1))", "inc(dbl(nosuch(2)))", "add(1;boom(2))", "add(boom(1);2)",
                  "inc(dbl(boom(3)))", "inc([1 2]+[1 2 3])", "dbl(add(1;[1 2]+[1 2 3]))", "mad(1;2;nosuch(3))",
                  "pq(boom(1))", "{x+1}(boom(2))", "inc(bf(1))", "mad(inc(1);dbl(boom(1));3)", "inc@boom(1)",
                  "add(1;nosuch(2))+inc(1)", "pick(boom(0);1;2)"]
# failures inside the body of the callee, and calls that succeed
HIST_OTHER = ["bf(1)", "bg(2)", "inc(1)", "add(2;3)", "pq(4)", "down(3)", "{boom(x);1}(0)", ":[boom(1);1;2]"]
HIST_PROBES = ["inc(1)", "down(30)", "down(60)", "down(90)", "add(1;2)", "inc(dbl(inc(1)))", "cnt(40;0)", "pq(5)",
               "inc'[1 2 3]", "add/[1 2 3 4]", "down(90)"]


def case_history(rng, nfail):
    stmts = list(PRELUDE) + list(HIST_PRELUDE)
    ndefs = len(stmts)
    for _ in range(nfail):
        stmts.append(rng.choice(HIST_FAIL_ARGS))
        if rng.random() < 0.25:
            stmts.append(rng.choice(HIST_OTHER))
    follow = len(stmts)
    probes = list(HIST_PROBES)
    rng.shuffle(probes)
    stmts += probes
    return dict(kind="history", stmts=stmts, meta=dict(ndefs=ndefs, follow=follow, nfail=nfail))


# ---- function verbs of adverbs over list-valued members (matrices, rank 3)

ADV_DYADS_ELEM = ["x+y", "x-y", "(x*2)+y", "y-x", "y", "x"]
ADV_DYADS_LIST = ["x,y", "y,x", "(#x)+#y", "x,#y", "y", "x"]
ADV_MONADS_ELEM = ["x+1", "x*x", "-x", "x"]
ADV_MONADS_LIST = ["x,x", "#x", "0,x", "x"]


def _matrix(rng, r, c):
    return [[rng.choice([0, 1, 2, 3, 5, 7, -1, -3]) for _ in range(c)] for _ in range(r)]


def case_adverb(rng):
    """a user function as the verb of an adverb, the members of the operand being lists"""
    shape = rng.choice(["matrix", "matrix", "matrix", "rank3", "flat", "onerow"])
    if shape == "matrix":
        m = _matrix(rng, rng.choice([2, 3, 4]), rng.choice([1, 2, 3]))
    elif shape == "rank3":
        m = [_matrix(rng, 2, 2) for _ in range(rng.choice([2, 3]))]
    elif shape == "flat":
        m = [rng.choice(ARG_INTS) for _ in range(rng.randrange(2, 5))]
    else:
        m = _matrix(rng, 1, rng.choice([2, 3]))
    form = rng.choice(["over", "over", "over", "each", "scan", "eachpair", "overn"])
    if shape == "onerow" and form in ("scan", "eachpair"):
        form = "over"
    monad = form == "each"
    elem_ok = shape != "rank3"
    if monad:
        body = rng.choice(ADV_MONADS_ELEM + ADV_MONADS_LIST if elem_ok else ADV_MONADS_LIST)
    else:
        body = rng.choice(ADV_DYADS_ELEM + ADV_DYADS_LIST if elem_ok else ADV_DYADS_LIST)
    stmts = list(PRELUDE) + ["f::{" + body + "}", ("t::{y;" if monad else "t::{z;") + body + "}", "m::" + lit_text(m)]
    ndefs = len(stmts)
    adv = {"over": "/", "each": "'", "scan": "\\", "eachpair": ":'", "overn": "/"}[form]
    spelling = rng.choice(["named", "lambda", "proj", "param", "var"])
    operand = rng.choice(["m", lit_text(m)])
    neutral = None
    if form == "overn":
        neutral = rng.choice(m) if rng.random() < 0.6 else (rng.choice(SMALL) if shape == "flat" else rng.choice(m))
    pre = (lit_text(neutral) + " ") if form == "overn" else ""
    if spelling == "named":
        text = f"{pre}f{adv}{operand}"
    elif spelling == "lambda":
        text = f"{pre}{{{body}}}{adv}{operand}"
    elif spelling == "proj":
        text = f"{pre}t({';' if monad else ';;'}0){adv}{operand}"
    elif spelling == "var":
        stmts.append("v::f")
        ndefs += 1
        text = f"{pre}v{adv}{operand}"
    else:
        inner = f"x{adv}y" if form != "overn" else f"z x{adv}y"
        text = "{" + inner + "}(f;" + operand + ((";" + lit_text(neutral)) if form == "overn" else "") + ")"
    stmts.append(text)
    return dict(kind="adverb", stmts=stmts, meta=dict(form=form, monad=monad, m=m, neutral=neutral, ndefs=ndefs,
                                                       spelling=spelling, shape=shape, body=body))


# ---- dyadic adverbs whose iterated operand is an ATOM (and, for comparison, a list): small and deterministic

ATOM_VERBS = ["x-y", "(10*x)+y", "x,y"]


def case_advatom(body, spelling):
    """every adverb form with a non-commutative function verb; operands atoms and lists"""
    stmts = list(PRELUDE) + ["f::{" + body + "}"]
    ndefs = len(stmts)
    v = "f" if spelling == "named" else "{" + body + "}"
    checks = []

    def add(text, form, a, b):
        checks.append(dict(i=len(stmts), form=form, a=a, b=b))
        stmts.append(text)

    for a, b in [(7, 3), (1, 2), (0, 5)]:
        add(f"{a} {v}:\\{b}", "eachleft", a, b)
        add(f"{a} {v}:/{b}", "eachright", a, b)
        add(f"{a} {v}'{b}", "each2", a, b)
        add(f"{a} {v}/{b}", "overn", a, b)
        add(f"{a} {v}\\{b}", "scann", a, b)
    for a, b in [(7, [3]), (7, [3, 1, 2]), (2, [5, 0])]:
        add(f"{a} {v}:\\{lit_text(b)}", "eachleft", a, b)
        add(f"{a} {v}:/{lit_text(b)}", "eachright", a, b)
        add(f"{a} {v}/{lit_text(b)}", "overn", a, b)
        add(f"{a} {v}\\{lit_text(b)}", "scann", a, b)
    for a, b in [([7, 1], [3, 2]), ([1, 2, 3], [4, 5, 6])]:
        add(f"{lit_text(a)} {v}'{lit_text(b)}", "each2", a, b)
    for b in [5, 0]:
        add(f"{v}/{b}", "over1", None, b)
        add(f"{v}:'{b}", "eachpair1", None, b)
    return dict(kind="advatom", stmts=stmts, tie=False, meta=dict(ndefs=ndefs, checks=checks, body=body, spelling=spelling))


# ---- symbol-valued arguments

def case_symbols(rng):
    """the identity (or second-argument) function applied to SYMBOL values: as a quoted literal, held in a
    variable, as list members reached through Each / Over / @.  Expected: the symbol itself."""
    stmts = list(PRELUDE) + ["idf::{x}", "sec::{y}"]
    a_defined = rng.random() < 0.6
    if a_defined:
        stmts.append("a::" + lit_text(rng.choice([5, [1, 2], "abc"])))
    stmts.append("sv:::q")                 # a symbol held in a variable (q is not a variable yet)
    if rng.random() < 0.5:
        stmts.append("q::9")
    ndefs = len(stmts)
    checks = []

    def y(name):
        return "(y " + " ".join(str(ord(c)) for c in name) + ")"

    for _ in range(rng.randrange(3, 7)):
        form = rng.choice(["each", "at", "over", "atvar", "directvar", "quoted", "eachparam"])
        names = [rng.choice(["a", "b"]) for _ in range(rng.randrange(1, 3))]
        if form == "each":
            text, want, kind = "idf'[" + " ".join(":" + n for n in names) + "]", "(lit (L " + " ".join(y(n) for n in names) + "))", "member"
        elif form == "eachparam":
            text, want, kind = "{x'y}(idf;[" + " ".join(":" + n for n in names) + "])", "(lit (L " + " ".join(y(n) for n in names) + "))", "member"
        elif form == "at":
            names = names[:1]
            text, want, kind = f"idf@[:{names[0]}]", f"(sym {names[0]})", "member"
        elif form == "over":
            names = names[:1]
            text, want, kind = f"sec/[1 :{names[0]}]", f"(sym {names[0]})", "member"
        elif form == "atvar":
            names = ["q"]
            text, want, kind = "idf@sv", "(sym q)", "member"
        elif form == "directvar":
            names = ["q"]
            text, want, kind = "idf(sv)", "(sym q)", "held"
        else:
            names = names[:1]
            text, want, kind = f"idf(:{names[0]})", f"(sym {names[0]})", "literal"
        checks.append(dict(i=len(stmts), want="ok " + want, names=names, kind=kind))
        stmts.append(text)
    return dict(kind="symbols", stmts=stmts, meta=dict(ndefs=ndefs, checks=checks))


# --------------------------------------------------------------------------- oracles

def _big_int(s):
    """an integer of more than 9 digits occurs: one more multiplication could leave the int64 range"""
    import re
    return any(len(x) > 9 for x in re.findall(r"\(i -?(\d+)\)", s))


def _ok_prefix(obs, upto):
    return all(o["out"].startswith("ok") for o in obs[:upto])


def _data_vars(snapshot):
    return {k: v for k, v in snapshot.items() if v.startswith("(lit ")}


def _wire_of(v):
    return "(lit " + to_wire(_from_plain(v)) + ")"


def _from_plain(v):
    from .universe import from_py
    if isinstance(v, dict):
        return ('D', [])
    return from_py(v)


def _plain_of_wire(w):
    """(lit V) -> plain python value"""
    from .universe import from_wire
    assert w.startswith("(lit "), w
    return _plain(from_wire(w[5:-1]))


def _plain(v):
    t = v[0]
    if t in "ir":
        return v[1]
    if t == "s":
        return v[1]
    if t == "L":
        return [_plain(x) for x in v[1]]
    raise Unsupported(v)


def frame_check(ctx, case, o, may, what):
    """depth, no leaked names, nothing clobbered (the before/after comparison of the property)"""
    ok = True
    cj = _js(case)
    if o["depth1"] != o["depth0"]:
        ctx.oracle_fail("frame:depth", dict(case=cj, text=o["text"]), f"depth {o['depth0']}", f"depth {o['depth1']}",
                        "context depth after the call differs from the depth before: " + what)
        ok = False
    new = sorted(set(o["after"]) - set(o["before"]) - set(may))
    gone = sorted(set(o["before"]) - set(o["after"]))
    if new or gone:
        ctx.oracle_fail("frame:leak", dict(case=cj, text=o["text"]), "same global names as before",
                        f"new={new} gone={gone}", "parameters / locals / .f / undeclared names reached the caller: " + what)
        ok = False
    changed = sorted(k for k in o["before"] if k in o["after"] and k not in may and o["before"][k] != o["after"][k])
    if changed:
        ctx.oracle_fail("frame:clobber", dict(case=cj, text=o["text"]),
                        {k: o["before"][k] for k in changed}, {k: o["after"][k] for k in changed},
                        "a variable of the caller that the program never assigns changed: " + what)
        ok = False
    return ok


DIRECT_LIKE = ("direct", "literal", "var", "at", "atparam", "atproj")


def oracle_subst(ctx, case, obs):
    m = case["meta"]
    forms = {f["idx"]: f for f in m["forms"]}
    first = min(forms)
    body, n = m["body"], m["n"]
    if not _ok_prefix(obs, first):
        bad = next(o for o in obs[:first] if not o["out"].startswith("ok"))
        if bad["text"].startswith("f::"):
            # the function could not even be defined although its body, with values for x y z, is a program
            f0 = forms[first]
            if f0["form"] in DIRECT_LIKE:
                tw = Real()
                for t in case["stmts"][:first]:
                    if not t.startswith("f::"):
                        tw.run(t)
                tout, _ = tw.run(render(gsubst(body, dict(zip(PARAMS, f0["args"])))))
                if tout.startswith("ok"):
                    ctx.oracle_fail("subst:definition-rejected", dict(case=_js(case), text=bad["text"]), tout, bad["out"],
                                    "the function literal is rejected although its substituted body evaluates")
                    return
        ctx.bump("gen-reject:" + case["kind"])
        return
    twin = Real()
    locs = set(m["locals"])
    for i, text in enumerate(case["stmts"]):
        o = obs[i]
        f = forms.get(i)
        if f is None:
            twin.run(text)
            continue
        frame_check(ctx, case, o, ["ga", "gb"] if m["seq"] else [], "call form " + f["form"])
        # the reference: the body with the argument values written in place of x, y, z
        events = []
        big = False
        try:
            if f["form"] in DIRECT_LIKE:
                env = dict(zip(PARAMS, f["args"]))
                tout, _ = twin.run(render(gsubst(body, env)))
                events = list(twin.events)
            elif f["form"] in ("each", "ateach"):
                vals = []
                tout = None
                for a in f["args"]:
                    r, _ = twin.run(render(gsubst(body, {"x": a})))
                    big |= _big_int(r)
                    events += list(twin.events)
                    if not r.startswith("ok"):
                        tout = r
                        break
                    vals.append(_plain_of_wire(r[3:]))
                if tout is None:
                    tout = "ok " + _wire_of(vals)
            else:
                acc = f["args"][0]
                tout = None
                for a in f["args"][1:]:
                    r, _ = twin.run(render(gsubst(body, {"x": acc, "y": a})))
                    big |= _big_int(r)
                    events += list(twin.events)
                    if not r.startswith("ok"):
                        tout = r
                        break
                    acc = _plain_of_wire(r[3:])
                if tout is None:
                    tout = "ok " + _wire_of(acc)
        except Unsupported:
            ctx.bump("oracle-skip")
            return
        if (_DRV is not None and case.get("tie", True) and f["form"] in DIRECT_LIKE and not locs
                and all(isinstance(a, (list, str)) or (isinstance(a, (int, float)) and a >= 0) for a in f["args"])):
            # the reference semantics of the model (Klong.C03.subst) against the textual substitution
            try:
                fn = _parse("{" + render(body) + "}")[0]
                want = _parse(render(gsubst(body, dict(zip(PARAMS, f["args"])))))
                want = ast_wire(want[0]) if len(want) == 1 else ast_wire(want)
                line = "subst " + ast_wire(fn.a) + " " + " ".join(_wire_of(a) for a in f["args"])
                got = _DRV.ask(line)
                if got != "ok " + want:
                    ctx.mismatch("Klong.C03.subst vs textual substitution", dict(case=_js(case), form=f), got, "ok " + want)
                else:
                    ctx.bump("tie:subst")
            except Unsupported:
                pass
        if big or _big_int(o["out"]) or _big_int(o["digest"]) or _big_int(tout) or _big_int(twin.digest()):
            ctx.bump("oracle-skip")      # numpy integers wrap, Python integers do not: outside the universe
            return
        ev_p = [ast_wire(e) for e in o["events"]]
        ev_t = [ast_wire(e) for e in events]
        key = "subst:" + f["form"]
        cj = dict(case=_js(case), form=f, text=o["text"], substituted=render(gsubst(body, dict(zip(PARAMS, f["args"])))) if f["form"] in DIRECT_LIKE else None)
        if o["out"] != tout:
            ctx.oracle_fail(key, cj, tout, o["out"], "call form differs from the textually substituted body")
            return
        if ev_p != ev_t:
            ctx.oracle_fail(key + ":events", cj, ev_t, ev_p, "events of the call differ from those of the substituted body")
            return
        if not o["out"].startswith("ok"):
            return      # after an error the two states need not be aligned any more
        a = {k: v for k, v in _data_vars(o["after"]).items() if k not in locs}
        b = {k: v for k, v in _data_vars(twin.snapshot()).items() if k not in locs}
        if a != b:
            ctx.oracle_fail(key + ":state", cj, b, a, "variables after the call differ from those after the substituted body")
            return
        ctx.bump("oracle:subst:" + f["form"])


def oracle_rec(ctx, case, obs):
    m = case["meta"]
    if not _ok_prefix(obs, m["ndefs"]):
        ctx.bump("gen-reject:" + case["kind"])
        return
    for i, j in m["pairs"]:
        a, b = obs[i], obs[j]
        if _big_int(a["out"]) or _big_int(b["out"]):
            ctx.bump("oracle-skip")
            return
        frame_check(ctx, case, a, [], "recursion through .f")
        key = "dotf:tail-args" if m.get("tail") else ("dotf:locals" if m["locals"] else "subst:dotf")
        if a["out"] != b["out"] or [ast_wire(e) for e in a["events"]] != [ast_wire(e) for e in b["events"]]:
            ctx.oracle_fail(key, dict(case=_js(case), text=a["text"]), b["out"], a["out"],
                            "recursion through .f differs from recursion through the function's own name")
            return
        ctx.bump("oracle:rec")


def oracle_proj(ctx, case, obs):
    m = case["meta"]
    if not _ok_prefix(obs, m["direct"]):
        ctx.bump("gen-reject:" + case["kind"])
        return
    d, c = obs[m["direct"]], obs[m["call"]]
    # the direct call itself against the substituted body
    twin = Real()
    for text in case["stmts"][:m["direct"]]:
        twin.run(text)
    tout, _ = twin.run(render(gsubst(m["body"], dict(zip(PARAMS, m["args"])))))
    cj = dict(case=_js(case))
    if any(_big_int(o["out"]) for o in obs) or _big_int(tout):
        ctx.bump("oracle-skip")
        return
    if d["out"] != tout:
        ctx.oracle_fail("subst:direct", cj, tout, d["out"], "direct call differs from the substituted body")
        return
    want = d["out"]
    if m["style"] == "each" and want.startswith("ok (lit "):
        want = "ok (lit (L " + want[len("ok (lit "):-1] + "))"
    if m["steps"] >= 3:
        key = "proj:multi-step"
    elif m["list_arg"] and m["steps"] >= 2:
        key = "proj:list-arg"
    else:
        key = "proj:one-step"
    for o in obs[m["direct"]:]:
        frame_check(ctx, case, o, [f"p{i}" for i in range(1, 4)], "projection")
    if c["out"] != want:
        ctx.oracle_fail(key, cj, want, c["out"],
                        f"filling the holes in the order {m['partition']} ({m['style']}) differs from the direct call")
        return
    ctx.bump(f"oracle:proj:{m['n']}:{m['steps']}")


def oracle_cond(ctx, case, obs):
    m = case["meta"]
    for e in m["expects"]:
        o = obs[e["i"]]
        if not _ok_prefix(obs, e["i"]):
            ctx.bump("gen-reject:" + case["kind"])
            return
        want = "ok " + _wire_of(e["out"])
        ev = [ast_wire(x) for x in o["events"]]
        wev = [_wire_of(x) for x in e["events"]]
        cj = dict(case=_js(case), text=o["text"])
        if o["out"] != want:
            ctx.oracle_fail(e.get("key", "cond:truth"), cj, want, o["out"], "the conditional selected the wrong branch")
            return
        if ev != wev:
            ctx.oracle_fail(e.get("key", "cond:unselected-evaluated"), cj, wev, ev, "events other than those of the selected branch")
            return
        if "var" in e:
            name, val = e["var"]
            if o["after"].get(name) != _wire_of(val) or o["after"].get(e["untouched"]) != o["before"].get(e["untouched"]):
                ctx.oracle_fail("cond:unselected-evaluated", cj, f"{name}={val}, {e['untouched']} untouched",
                                {k: o["after"].get(k) for k in (name, e["untouched"])}, "assignment of the unselected branch ran")
                return
        ctx.bump("oracle:cond")


def oracle_frame(ctx, case, obs):
    m = case["meta"]
    if not _ok_prefix(obs, m["ndefs"]):
        ctx.bump("gen-reject:" + case["kind"])
        return
    what = f"depth {m['depth']}, failing level {m['fail_level']}, position {m['pos']}, styles {m['styles']}"
    if any(o["out"] == "err fuel" or _big_int(o["digest"]) for o in obs):
        ctx.bump("oracle-skip")      # Python's recursion limit is not a property of the program
        return
    good = True
    for i in m["calls"]:
        good &= frame_check(ctx, case, obs[i], m["may"], what)
    fo = obs[m["fail_idx"]]
    ctx.bump("frame:outcome:" + fo["out"].split(" ")[0] + (":" + fo["out"].split(" ")[1] if fo["out"].startswith("err") else ""))
    if not good:
        return
    # follow-up programs against an interpreter that never ran the failed call
    twin = Real()
    for text in case["stmts"][:m["ndefs"] + 1]:
        twin.run(text)
    try:
        for k, w in sorted(_data_vars(fo["after"]).items()):
            twin.run(f"{k}::{lit_text(_plain_of_wire(w))}")
    except Unsupported:
        ctx.bump("oracle-skip")
        return
    twin.run("fail::0")
    for o in obs[m["follow"]:]:
        tout, tdig = twin.run(o["text"])
        if (tout, tdig) != (o["out"], o["digest"]):
            ctx.oracle_fail("frame:after-failure", dict(case=_js(case), text=o["text"]), f"{tout} {tdig}",
                            f"{o['out']} {o['digest']}",
                            "a follow-up program behaves differently after the failed call than on an interpreter "
                            "that never ran it: " + what)
            return
    ctx.bump("oracle:frame")


def oracle_locals(ctx, case, obs):
    m = case["meta"]
    cj = dict(case=_js(case))
    for k, v in m["expect"].items():
        o = obs[int(k)]
        if o["out"] != "ok " + _wire_of(v):
            ctx.oracle_fail("dotf:locals" if ".f(" in "".join(case["stmts"]) else "locals:value", dict(cj, text=o["text"]),
                            v, o["out"], "value of a program with declared locals")
            return
    last = obs[-1]
    for name, v in m["keep"].items():
        if last["after"].get(name) != _wire_of(v):
            ctx.oracle_fail("locals:clobber", cj, f"{name}={v}", last["after"].get(name),
                            "a global shadowed by a declared local or a parameter changed")
            return
    for name in m["absent"]:
        if name in last["after"] and name not in obs[0]["before"]:
            ctx.oracle_fail("frame:leak", cj, f"{name} undefined", last["after"][name], "a frame-local name reached the caller")
            return
    for i in m["calls"]:
        if not _ok_prefix(obs, i):
            ctx.bump("gen-reject:" + case["kind"])
            return
        if not frame_check(ctx, case, obs[i], m["may"], "declared locals"):
            return
    for o in obs:
        if o["depth1"] != o["depth0"]:
            ctx.oracle_fail("frame:depth", dict(cj, text=o["text"]), o["depth0"], o["depth1"], "context depth changed")
            return
    ctx.bump("oracle:locals")


def oracle_history(ctx, case, obs):
    m = case["meta"]
    if not _ok_prefix(obs, m["ndefs"]):
        ctx.bump("gen-reject:" + case["kind"])
        return
    for o in obs[m["ndefs"]:m["follow"]]:
        if not frame_check(ctx, case, o, [], f"history of {m['nfail']} failing calls"):
            return
    twin = Real()
    for text in case["stmts"][:m["ndefs"]]:
        twin.run(text)
    for o in obs[m["follow"]:]:
        tout, tdig = twin.run(o["text"])
        if "err fuel" in (tout, o["out"]) and tout == o["out"]:
            continue
        if (tout, tdig) != (o["out"], o["digest"]):
            ctx.oracle_fail("frame:history", dict(case=_js(case), text=o["text"]), f"{tout} {tdig}"[:400],
                            f"{o['out']} {o['digest']}"[:400],
                            f"after a history of {m['nfail']} failed calls a program behaves differently than on an "
                            "interpreter that never ran them")
            return
    ctx.bump("oracle:history")


def oracle_adverb(ctx, case, obs):
    m = case["meta"]
    if not _ok_prefix(obs, m["ndefs"]):
        ctx.bump("gen-reject:" + case["kind"])
        return
    o = obs[-1]
    twin = Real()
    for text in case["stmts"][:m["ndefs"]]:
        twin.run(text)

    def app(*args):
        r, _ = twin.run("f(" + ";".join(lit_text(a) for a in args) + ")")
        if not r.startswith("ok"):
            raise _Stop(r)
        return _plain_of_wire(r[3:])

    members, form = m["m"], m["form"]
    try:
        if form == "each":
            want = [app(a) for a in members]
        elif form == "over":
            acc = members[0]
            for a in members[1:]:
                acc = app(acc, a)
            want = acc
        elif form == "overn":
            acc = m["neutral"]
            for a in members:
                acc = app(acc, a)
            want = acc
        elif form == "scan":
            acc = members[0]
            want = [acc]
            for a in members[1:]:
                acc = app(acc, a)
                want.append(acc)
        else:
            want = [app(a, b) for a, b in zip(members, members[1:])]
        wout = "ok " + _wire_of(want)
    except _Stop as e:
        wout = e.args[0]
    except Unsupported:
        ctx.bump("oracle-skip")
        return
    if _big_int(wout) or _big_int(o["out"]):
        ctx.bump("oracle-skip")
        return
    frame_check(ctx, case, o, [], "function verb of an adverb")
    if o["out"] != wout:
        ctx.oracle_fail("adverb:" + form, dict(case=_js(case), text=o["text"]), wout, o["out"],
                        f"a function as the verb of {form} ({m['spelling']}, {m['shape']} operand) differs from the "
                        "explicit direct calls")
        return
    ctx.bump("oracle:adverb:" + form)


class _Stop(Exception):
    pass


def oracle_advatom(ctx, case, obs):
    m = case["meta"]
    if not _ok_prefix(obs, m["ndefs"]):
        ctx.bump("gen-reject:" + case["kind"])
        return
    twin = Real()
    for text in case["stmts"][:m["ndefs"]]:
        twin.run(text)

    def app(x, y):
        r, _ = twin.run(f"f({lit_text(x)};{lit_text(y)})")
        if not r.startswith("ok"):
            raise _Stop(r)
        return _plain_of_wire(r[3:])

    for c in m["checks"]:
        o = obs[c["i"]]
        a, b, form = c["a"], c["b"], c["form"]
        atom = not isinstance(b, list)
        try:
            if form == "eachleft":          # a f:\b : f(a;b) for an atom, else f(a;b_i)
                want = app(a, b) if atom else [app(a, q) for q in b]
            elif form == "eachright":       # a f:/b : f(b;a) for an atom, else f(b_i;a)
                want = app(b, a) if atom else [app(q, a) for q in b]
            elif form == "each2":
                want = app(a, b) if atom else [app(p, q) for p, q in zip(a, b)]
            elif form == "overn":
                want = a
                for q in ([b] if atom else b):
                    want = app(want, q)
            elif form == "scann":
                acc = a
                want = [a]
                for q in ([b] if atom else b):
                    acc = app(acc, q)
                    want.append(acc)
            else:                           # f/atom and f:'atom ignore f
                want = b
            wout = "ok " + _wire_of(want)
        except _Stop as e:
            wout = e.args[0]
        if o["out"] != wout:
            ctx.oracle_fail("adverb:" + form + (":atom" if atom else ""), dict(case=_js(case), text=o["text"]), wout, o["out"],
                            f"a function as the verb of {form} with {'an atom' if atom else 'a list'} as the iterated "
                            "operand differs from the explicit direct call(s)")
            return
    ctx.bump("oracle:advatom")


def oracle_symbols(ctx, case, obs):
    m = case["meta"]
    if not _ok_prefix(obs, m["ndefs"]):
        ctx.bump("gen-reject:" + case["kind"])
        return
    for c in m["checks"]:
        o = obs[c["i"]]
        if o["out"] == c["want"]:
            ctx.bump("oracle:symbols:" + c["kind"])
            continue
        # which of the symbols named a variable holding something else than the symbol itself?
        defined = [n for n in c["names"] if n in o["before"] and o["before"][n] != f"(sym {n})"]
        if defined and c["kind"] == "member":
            key = "subst:symbol-member-defined"
        elif defined and c["kind"] == "literal":
            key = "subst:symbol-literal-defined"
        else:
            key = "subst:symbol-argument"
        ctx.oracle_fail(key, dict(case=_js(case), text=o["text"]), c["want"], o["out"],
                        "a symbol passed to the identity function does not come back as itself"
                        + (f" (it names the defined variable {defined})" if defined else ""))
        if key == "subst:symbol-argument":
            return


ORACLES = dict(history=oracle_history, adverb=oracle_adverb, symbols=oracle_symbols, advatom=oracle_advatom, subst=oracle_subst, rec=oracle_rec, proj=oracle_proj, cond=oracle_cond, frame=oracle_frame,
               locals=oracle_locals, hand=None)


# --------------------------------------------------------------------------- one case

def run_case(ctx, drv, case):
    """runs every statement on the real interpreter and on the model, compares, then evaluates the
    oracle of the case's kind on the real observations."""
    real = Real()
    model = Model(drv) if drv and case.get("tie", True) else None
    for name, val in case.get("defs", {}).items():
        real.define(name, val)
        if model:
            model.define(name, ast_wire(real.globals()[_sym(name)]))
    obs = []
    tie_ok = True
    for i, text in enumerate(case["stmts"]):
        d0 = real.depth()
        before = real.snapshot()
        out, dig = real.run(text)
        obs.append(dict(text=text, out=out, digest=dig, depth0=d0, depth1=real.depth(), before=before,
                        after=real.snapshot(), events=list(real.events)))
        if model and tie_ok:
            try:
                mout, mdig = model.run(text)
            except Unsupported:
                mout, mdig = None, ""
            except Exception as e:  # noqa: BLE001 - the real parser rejected the text
                mout, mdig = f"parse {type(e).__name__}", ""
            if (mout is None or mout.startswith("err unmodelled") or "?" in out or "?" in dig
                    or _big_int(out) or _big_int(dig)):
                ctx.bump("outside-model")
                sm = ctx.extra.setdefault("outside_model_samples", [])
                if len(sm) < 12:
                    sm.append(dict(text=text, model=str(mout)[:80], impl=out[:80]))
                tie_ok = False       # the states may have diverged: stop comparing this case
            elif mout.startswith("parse "):
                if not out.startswith("err"):
                    ctx.mismatch("C03 parse", dict(case=_js(case), step=i), mout, out)
                tie_ok = False
            elif (mout, mdig) != (out, dig):
                ctx.mismatch("Klong.C03.eval vs KlongInterpreter.__call__", dict(case=_js(case), step=i, text=text),
                             f"{mout} {mdig}", f"{out} {dig}")
                tie_ok = False
            else:
                ctx.bump("tie:" + " ".join(out.split(" ")[:2 if out.startswith("err") else 1]))
    if tie_ok and model:
        ctx.bump("tie-cases")
    oracle = ORACLES.get(case["kind"])
    if oracle:
        try:
            oracle(ctx, case, obs)
        except common.Infra:
            raise
        except Exception as e:  # noqa: BLE001 - what the real code produced could not even be decoded
            ctx.oracle_fail("harness:undecodable:" + case["kind"], dict(case=_js(case)), "observations the oracle can read",
                            f"{type(e).__name__}: {e}", "the oracle could not evaluate what the real interpreter produced")
    ctx.count((case["kind"], tuple(case["stmts"])), nontrivial=len(case["stmts"]) >= 2)
    if ctx.hist.get("kind:" + case["kind"], 0) == 0 and case["kind"] != "hand":
        ctx.sample(dict(kind=case["kind"], stmts=case["stmts"][-5:], out=[o["out"][:60] for o in obs[-5:]]), limit=8)
    ctx.bump("kind:" + case["kind"])
    return obs


def _sym(name):
    from klongpy.core import KGSym
    return KGSym(name)


def _js(case):
    return dict(kind=case["kind"], stmts=case["stmts"], defs=case.get("defs", {}), meta=case.get("meta", {}),
                tie=case.get("tie", True))


# --------------------------------------------------------------------------- bare KlongContext

CTX_KEYS = ["a", "b", "c", "x", "y", ".f", "sysfn", "sysvar"]


def _scopes_text(kc):
    from klongpy.utils import ReadonlyDict
    parts = []
    for d in kc._context:
        items = ";".join(sorted(f"{k}={ast_wire(d[k])}" for k in d))
        parts.append(("ro:" if isinstance(d, ReadonlyDict) else "") + items)
    return " | ".join(parts)


def run_ctx_sequence(ctx, drv, ops, strict, nsys):
    """random get/set/del/push/pop on a bare KlongContext against Klong.C03.Ctx"""
    from klongpy.interpreter import KlongContext
    from klongpy.utils import ReadonlyDict
    from klongpy.core import KlongException
    sysd = {_sym("sysfn"): 1}
    sysv = {_sym("sysvar"): 2}
    system = ([dict() for _ in range(nsys - 2)] + [sysv, ReadonlyDict(sysd)]) if nsys >= 2 else [ReadonlyDict(sysd)]
    kc = KlongContext(system, strict_mode=strict)
    case = dict(kind="ctx", strict=strict, nsys=nsys, ops=ops)
    if drv:
        drv.ask(f"ctx new {strict} {nsys} {nsys + 1}")
        if nsys >= 2:
            drv.ask(f"ctx seed {nsys - 1} sysvar:2")
        m = drv.ask(f"ctx seed {nsys} sysfn:1")
        if m != "ok " + _scopes_text(kc):
            ctx.mismatch("Klong.C03.Ctx construction", case, m, "ok " + _scopes_text(kc))
            return
    for i, op in enumerate(ops):
        kind = op[0]
        d0 = len(kc._context)
        try:
            if kind == "set":
                kc[_sym(op[1])] = op[2]
                res = "ok"
                line = f"ctx set {op[1]} {op[2]}"
            elif kind == "get":
                res = "val:" + ast_wire(kc[_sym(op[1])])
                line = f"ctx get {op[1]}"
            elif kind == "del":
                del kc[_sym(op[1])]
                res = "ok"
                line = f"ctx del {op[1]}"
            elif kind == "push":
                kc.push({_sym(k): v for k, v in op[1]})
                res = "ok"
                line = "ctx push " + ",".join(f"{k}:{v}" for k, v in op[1]) if op[1] else "ctx push"
            else:
                r = kc.pop()
                res = "none" if r is None else "popped"
                line = "ctx pop"
        except KeyError:
            res = "keyerror"
        except KlongException:
            res = "err:strict"
        except TypeError:
            res = "err:type"
        if kind in ("set", "get", "del") and "line" not in dir():
            pass
        if kind == "set":
            line = f"ctx set {op[1]} {op[2]}"
        elif kind == "get":
            line = f"ctx get {op[1]}"
        elif kind == "del":
            line = f"ctx del {op[1]}"
        impl = res + " " + _scopes_text(kc)
        # oracle of the push/pop discipline itself: pop never goes below the system scopes
        if len(kc._context) < nsys:
            ctx.oracle_fail("ctx:min-count", dict(case, upto=i), f">= {nsys} scopes", len(kc._context))
            return
        if drv:
            m = drv.ask(line)
            if m != impl:
                ctx.mismatch("Klong.C03.Ctx vs KlongContext." + kind, dict(case, upto=i), m, impl)
                return
        ctx.bump("ctx:" + kind + ":" + res.split(":")[0])
    ctx.count(("ctx", strict, nsys, json.dumps(ops)))


def gen_ctx_ops(rng, n):
    ops = []
    for _ in range(n):
        r = rng.random()
        k = rng.choice(CTX_KEYS)
        if r < 0.35:
            ops.append(["set", k, rng.randrange(100)])
        elif r < 0.55:
            ops.append(["get", k])
        elif r < 0.7:
            ops.append(["del", k])
        elif r < 0.87:
            keys = rng.sample(CTX_KEYS[:6], rng.randrange(0, 3))
            ops.append(["push", [[q, rng.randrange(100)] for q in keys]])
        else:
            ops.append(["pop"])
    return ops


# --------------------------------------------------------------------------- projections called from Python

def run_pycall_projections(ctx, rng):
    """klong[name](...) on a stored projection: every hole pattern of arity 2 and 3, one and two projection
    steps, compared with the same call written in Klong and with the direct call (deterministic family)"""
    bodies = {2: [("(10*x)+y", [4, 7]), ("x,y", [[1, 2], 3])],
              3: [("(100*x)+(10*y)+z", [4, 7, 9]), ("x,y,z", [[1, 2], 3, [4]])]}
    for n in (2, 3):
        for body, args in bodies[n]:
            real = Real()
            real.run("f::{" + body + "}")
            direct, _ = real.run("f(" + ";".join(lit_text(a) for a in args) + ")")
            for part in ordered_partitions(range(n)):
                if len(part) < 2:
                    continue
                remaining = list(range(n))
                prev = "f"
                hist = ["f::{" + body + "}"]
                for i, block in enumerate(part[:-1]):
                    name = f"s{i + 1}"
                    pat = ";".join(lit_text(args[p]) if p in block else "" for p in remaining)
                    text = f"{name}::{prev}({pat})"
                    hist.append(text)
                    real.run(text)
                    remaining = [p for p in remaining if p not in block]
                    prev = name
                    # the stored projection, called from Python with all the values still missing
                    vals = [args[p] for p in remaining]
                    case = dict(kind="pycall", stmts=list(hist), py=dict(name=name, args=vals), meta=dict(partition=part))
                    ktext = f"{name}(" + ";".join(lit_text(a) for a in vals) + ")"
                    kout, _ = real.run(ktext)
                    pout = real.pycall(name, vals)
                    ctx.count(("pycall", body, str(part), name))
                    if kout != direct:
                        ctx.oracle_fail("proj:multi-step", dict(case=case, text=ktext), direct, kout,
                                        "the Klong call of the projection differs from the direct call")
                    elif pout != direct:
                        ctx.oracle_fail("proj:python-call", dict(case=case, text=f"klong['{name}'](*{vals})"), direct, pout,
                                        f"calling the stored projection {hist[-1]} from Python with the {len(vals)} missing "
                                        "value(s) differs from the same call in Klong")
                    else:
                        ctx.bump("oracle:pycall")
    ctx.bump("kind:pycall")


# --------------------------------------------------------------------------- entry

HAND = [
    ["f::{(100*x)+(10*y)+z}", "g::f(;;3)", "h::g(;2)", "h(1)", "g(1)", "g(1;2)"],
    ["f::{x,y}", "g::f(;[1 2])", "g(3)", "g::f([1 2];)", "g(3)", "g([4 5])"],
    ["f::{[a];a::x;:[x;.f(x-1);0];a}", "f(3)", "g::{[a];a::x;:[x;g(x-1);0];a}", "g(3)"],
    ["f::{newvar::42}", "f()", "newvar", "foo", "foo"],
    ["a::1", "f::{a::x;boom(x);5}", "f(7)", "a", "f::{[a];a::x;boom(x)}", "f(9)", "a", "x", "y"],
    ["id::{x}", "ap::{id(5)}", "ap({x+1})", "ap(7)"],
    ["g::{x+y}", "f::{g(x;)}", "f(1)", "x::50", "f(1)"],
    ["f::{y}", "f(5)", "y::9", "f(5)", "f::{x+z}", "f(1;2)", "f(1;2;3)"],
    ["f::{x+1}", "f'[1 2 3]", "f@4", "g::{x-y}", "g/[10 2 3]", "g@[10 3]", "{x+1}'[1 2 3]", "{x-y}/[10 2 3]", "{x-y}@[5 3]"],
    ["#5", "#(-3)", "#[1 2 3]", "~0", "~5", "3=3", "3=4", "[1 2]=[1 3]", "1,2", "[1 2],3", "1,[2 3]", "[1],[2]", "[],1",
     "1,[]", "-[1 2]", "[1 2]+[3 4]", "[1 2]+[3 4 5]", "[1 2]*2", '""', '#""', "#[]", "[1]+[1 2]"],
    [":[0;log(1);log(2)]", ":[[];log(1);log(2)]", ':["";log(1);log(2)]', ":[0.0;log(1);log(2)]", ":[1;log(1);log(2)]",
     ':["a";log(1);log(2)]', ":[[0];log(1);log(2)]", ":[0c0;log(1);log(2)]", ":[:{};log(1);log(2)]",
     ":[log(0);log(1):|log(3);log(4);log(5)]"],
    ["f::{log(x)+log(y)}", "f(1;2)", "f(log(3);log(4))", "boom(1)", "boom()", "boom", "{x}", "f::{1}", "f()", "f", ".f", "g(1)"],
    ["{[[a b] [c d]]}()", "{:[[a];1;2]}()", "a", "f::{[a;b];a::1;b::2;a+b}", "f()", "a", "b"],
    ["g::{:[:[y;y;y];1;2]}", "g(0;[1])", "a::1", "b::2", "c::3", "f::{:[a;b;c];a}", "f()",
     "h::{:[:[x;y;[5 -3 2 7]];1;2]}", "h(1;0)", "h(0;0)"],
    ["f::{x-y}", "f(1;2;3)", "f(1)", "f()", "g::f(1)", "g(2)", "f(;)", "h::f(;)", "h(1;2)", "h(1)", "{x}(;)"],
    ["a::5", "f::{[a];a}", "f()", "f::{[x];x}", "f(3)", "f::{[a b];a::1;b::2;a+b}", "f()", "a", "b"],
]


WITNESSES = [
    ("proj:multi-step", ["f::{(100*x)+(10*y)+z}", "g::f(;;3)", "h::g(;2)", "h(1)"], {3: 123}),
    ("proj:multi-step", ["f::{(100*x)+(10*y)+z}", "g::f(;2;)", "h::g(;3)", "h(1)"], {3: 123}),
    ("proj:multi-step", ["f::{(100*x)+(10*y)+z}", "g::f(1;;)", "h::g(;3)", "h(2)"], {3: 123}),
    ("proj:list-arg", ["f::{x,y}", "g::f(;[1 2])", "g(3)"], {2: [3, 1, 2]}),
    ("dotf:locals", ["f::{[a];a::x;:[x;.f(x-1);0];a}", "f(3)"], {1: 3}),
    ("locals:semicolon-declaration", ["a::1", "b::2", "f::{[a;b];a::x;b::y;(10*a)+b}", "f(3;4)", "a", "b",
                                      "sumto::{[a;b];a::x;b:::[x;.f(x-1);0];a+b}", "sumto(4)", "a"], {3: 34, 4: 1, 5: 2, 7: 10, 8: 1}),
    ("dotf:tail-args", ["s::{:[x;.f(x-1;y+x);y]}", "s(4;0)", "fib::{:[x;.f(x-1;z;y+z);y]}", "fib(10;0;1)",
                        "rot::{:[x;.f(x-1;z;y);y,z]}", "rot(3;1;2)", "s@[4 0]", "q::s(;0)", "q(4)"],
     {1: 10, 3: 55, 5: [2, 1], 6: 10, 8: 10}),
    # a declaration followed by exactly ONE expression, an outer variable of the same name, every call form
    ("locals:one-expression-body",
     ["t::100", "u::200", "sq::{[t];t::x*x}", "sq(3)", "t", "sq@4", "t", "sq'[1 2 3]", "t", "ad::{[u];u::x+y}", "ad(1;2)", "u",
      "p::ad(;5)", "p(1)", "u", "ad/[1 2 3]", "u", "{[t];t::x*x}(5)", "t", "{[t;u];u::x}(7)", "u", "t",
      "pk::{[t];t}", "pk()", "fl::{[t];boom(t::x)}", "fl(9)", "t", "fl@8", "t", "fl'[1 2]", "t",
      "nest::{[t];t::sq(x)+1}", "nest(2)", "t"],
     {3: 9, 4: 100, 5: 16, 6: 100, 7: [1, 4, 9], 8: 100, 10: 3, 11: 200, 13: 6, 14: 200, 15: 6, 16: 200, 17: 25, 18: 100,
      19: 7, 20: 200, 21: 100, 26: 100, 28: 100, 30: 100, 32: 5, 33: 100}),
    # function literals whose parameters occur only in callee position, passed directly as values
    ("subst:callee-only-literal",
     ["apply::{x(y)}", "dbl::{x*2}", "sb::{x-y}", "at3::{x(3)}", "at3(dbl)", "apply(at3;dbl)", "apply({x(3)};dbl)",
      "apply({x(10;3)};sb)", "ap2::{x(0;y)}", "ap2({y(2)};dbl)", "pk2::{:[x;{x(1)};{x(2)}]}", "apply(pk2(0);dbl)",
      "apply(pk2(1);dbl)", "apply(:[0;{x(5)};{x(6)}];dbl)", "ea::{x'y}", "ea({x(3)};[1 2])", "{x(4)}(dbl)",
      "lst::{[r];r::{x(7)};apply(r;dbl)}", "lst()", "w3::{x(1;2;3)}", "tri::{(100*x)+(10*y)+z}", "apply({x(1;2;3)};tri)"],
     {4: 6, 5: 6, 6: 6, 7: 7, 9: 4, 11: 4, 12: 2, 13: 12, 16: 8, 18: 14, 21: 123}),
    ("cond:monad-operand", ["-:[1;5;6]", "#:[0;[1];[2 2]]", "cf::{-:[x;y;z]}", "cf(0;5;6)"], {0: -5, 1: 2, 3: -6}),
    ("subst:definition-rejected", ["dbl::{x*2}", "g::{x,y}", "f::{dbl(:[x;5;6])}", "f(0)", "h::{g([1 2];x)}", "h(3)"],
     {3: 12, 5: [1, 2, 3]}),
    ("locals:conditional-body", ["g::{:[:[y;y;y];1;2]}", "g(0;[1])", "a::1", "b::2", "c::3", "f::{:[a;b;c];a}", "f()",
                                 "h::{:[:[x;y;[5 -3 2 7]];1;2]}", "h(1;0)"], {1: 1, 6: 1, 8: 2}),
]


def oracle_witness(ctx, case, obs):
    for k, v in case["meta"]["expect"].items():
        o = obs[int(k)]
        if o["out"] != "ok " + _wire_of(v):
            ctx.oracle_fail(case["meta"]["key"], dict(case=_js(case), text=o["text"]), v, o["out"],
                            "a fixed witness program of the property gives another value than the property prescribes")
            return
    ctx.bump("oracle:witness")


ORACLES["witness"] = oracle_witness


def all_partitions():
    out = []
    for n in (2, 3):
        for p in ordered_partitions(range(n)):
            out.append((n, p))
    return out


def run(ctx):
    quick = ctx.tier == "quick"
    rng = ctx.rng
    drv = Driver("c03") if getattr(ctx, "driver_ok", True) else None
    ctx.rule = ("programs = statement sequences on a fresh interpreter; families: substitution (bodies of the closed "
                "grammar x argument tuples x call form direct/literal/variable/@/each/over), recursion through .f vs own "
                "name, every ordered set partition of the argument positions of arity 2 and 3 as a chain of projections "
                "(named / literal first step, final step direct/@/each/over), conditionals over the truth universe with "
                "logging branches, failing sub-expression at each of 11 positions x failing level x nesting depth <= 3 x "
                "call style, declared locals; function verbs of Over / Each / Scan / Each-pair / Over-neutral over "
                "matrix and rank-3 operands (named, lambda, projection, parameter-held) against explicit direct calls; "
                "argument tuples of strings (empty, unicode), lists of strings, nested lists and reals through direct / "
                "literal / variable / @ / parameter-held @ / projection @ / each / over; "
                "dyadic adverbs (Each-Left/Right, Each-2, Over/Scan-neutral) with atoms and lists as the iterated operand; "
                "stored projections called through klong[name](...) for every hole pattern and step order; "
                "histories of 60-200 failing calls followed by probes (recursion 30-90 deep) against a fresh "
                "interpreter; bare KlongContext operation sequences. distinct = distinct statement "
                "sequences; non-trivial = at least two statements")
    ctx.assumptions += [
        "the parser is not modelled: the model evaluates the AST the real parser produced",
        "names of the generated programs are not system names; modules, I/O and system functions are outside the model",
        "integers stay far below the int64 range (a case in which an integer of more than 9 digits appears is not "
        "compared: numpy integers wrap, Python and Lean integers do not); reals only as data",
        "function values as arguments (higher-order calls) are outside the value universe of the property",
    ]
    global _DRV
    _DRV = drv
    ctx.partial += [
        "call_is_substitution (+_var, _at) is proved for the first-order body grammar Body (data, parameters, global "
        "data variables, monads, dyads other than @, conditionals); bodies with nested calls, calls as adverb verbs and "
        "recursion through .f are covered by the substitution oracle and the correspondence only",
        "call_is_substitution_at holds for members that are not symbols: a symbol handed to a function as a list "
        "member through an adverb or @ (or written as a quoted literal) is evaluated as a variable when the frame is "
        "built (known findings subst:symbol-member-defined / subst:symbol-literal-defined, witness "
        "symbol_member_counterexample by decide)",
        "projection_one_step / projection_any_order assume Stable (the two spare _resolve_fn passes leave the body "
        "alone): true for operator, conditional, program and data bodies, false for a body that is a bare parameter "
        "bound to a function in the caller's frame (function-valued arguments are outside the value universe)",
    ]
    try:
        for st in HAND:
            run_case(ctx, drv, dict(kind="hand", stmts=st))
        for key, st, exp in WITNESSES:
            run_case(ctx, drv, dict(kind="witness", stmts=st, meta=dict(key=key, expect={str(k): v for k, v in exp.items()})))
        cdir = common.CORPUS / "C03"
        if cdir.exists():
            for p in sorted(cdir.glob("*.json")):
                c = json.loads(p.read_text())
                run_case(ctx, drv, c)
        parts = all_partitions()
        reps = 2 if quick else 40
        for _ in range(reps):
            for n, p in parts:
                for variant in ("named", "literal", "adverb"):
                    run_case(ctx, drv, case_proj(rng, n, p, variant))
        n_subst, n_rec, n_cond, n_loc = (400, 120, 200, 200) if quick else (14000, 3000, 6000, 6000)
        for _ in range(n_subst):
            run_case(ctx, drv, case_subst(rng))
        for _ in range(n_rec):
            run_case(ctx, drv, case_rec(rng))
        for _ in range(n_cond):
            run_case(ctx, drv, case_cond(rng))
        for _ in range(n_loc):
            run_case(ctx, drv, case_locals(rng))
        for _ in range(250 if quick else 5000):
            run_case(ctx, drv, case_adverb(rng))
        for _ in range(250 if quick else 5000):
            run_case(ctx, drv, case_values(rng))
        for _ in range(60 if quick else 1500):
            run_case(ctx, drv, case_symbols(rng))
        for body in ATOM_VERBS:
            for spelling in ("named", "lambda"):
                run_case(ctx, drv, case_advatom(body, spelling))
        run_pycall_projections(ctx, rng)
        for _ in range(3 if quick else 40):
            run_case(ctx, drv, case_history(rng, rng.randrange(70, 110) if quick else rng.randrange(60, 200)))
        # failing sub-expression: every (depth, failing level, position), call styles sampled
        combos = [(d, l, p) for d in (1, 2, 3) for l in range(1, d + 1) for p in FRAME_POS]
        for _ in range(1 if quick else 40):
            for d, l, p in combos:
                run_case(ctx, drv, case_frame(rng, d, l, p))
        for _ in range(100 if quick else 2000):
            run_case(ctx, drv, case_frame(rng))
        for _ in range(150 if quick else 6000):
            strict = rng.choice([0, 0, 1, 2])
            nsys = rng.choice([2, 2, 2, 1, 3])
            run_ctx_sequence(ctx, drv, gen_ctx_ops(rng, rng.randrange(3, 25)), strict, nsys)
        if getattr(ctx, "driver_ok", True) and not ctx.broken:
            recorded = []
            for n, part in [(3, [[2], [1], [0]])] + ([] if quick else [(3, [[1], [0, 2]]), (2, [[1], [0]])]):
                c = case_proj(rng, n, part, "named")
                recorded.append((c, run_case(ctx, drv, c)))
            c = case_frame(rng, 2, 2, "arg")
            recorded.append((c, run_case(ctx, drv, c)))
            c = dict(kind="witness", stmts=WITNESSES[4][1] + WITNESSES[5][1],
                     meta=dict(key="dotf:locals", expect={}))
            recorded.append((c, run_case(ctx, drv, c)))
            kernel_obligation(ctx, recorded)
        ctx.extra["in_model_fraction"] = round(
            ctx.hist.get("tie-cases", 0) / max(1, sum(v for k, v in ctx.hist.items() if k.startswith("kind:"))), 4)
    finally:
        _DRV = None
        if drv:
            drv.close()


def replay(ctx, case):
    global _DRV
    drv = Driver("c03") if getattr(ctx, "driver_ok", True) else None
    _DRV = drv
    c = case.get("case", case)
    c = c.get("case", c)
    try:
        if c.get("kind") == "ctx":
            ops = c["ops"][:c.get("upto", len(c["ops"])) + 1] if "upto" in c else c["ops"]
            run_ctx_sequence(ctx, drv, ops, c["strict"], c["nsys"])
        elif c.get("kind") == "pycall":
            run_pycall_projections(ctx, ctx.rng)
        elif "stmts" in c:
            run_case(ctx, drv, dict(kind=c.get("kind", "hand"), stmts=c["stmts"], defs=c.get("defs", {}),
                                    meta=c.get("meta", {}), tie=c.get("tie", True)))
        else:
            run(ctx)
    finally:
        if drv:
            drv.close()
    print("replay:", "oracle failures:", json.dumps(ctx.oracle_failures, default=str)[:3000],
          "mismatches:", json.dumps(ctx.mismatches, default=str)[:3000])


# --------------------------------------------------------------------------- per-run kernel obligation

def _sexp(s):
    toks = s.replace("(", " ( ").replace(")", " ) ").split()
    pos = [0]

    def rd():
        t = toks[pos[0]]
        pos[0] += 1
        if t != "(":
            return t
        out = []
        while toks[pos[0]] != ")":
            out.append(rd())
        pos[0] += 1
        return out
    r = rd()
    assert pos[0] == len(toks), s
    return r


def _lean_str(name):
    return '"' + name.replace("\\", "\\\\").replace('"', '\\"') + '"'


def _lean_val(t):
    if t == "U":
        return ".undef"
    tag = t[0]
    if tag == "i":
        n = int(t[1])
        return f"(.int {n})" if n >= 0 else f"(.int ({n}))"
    if tag == "r":
        return f"(.real 0x{t[1]})"
    if tag == "c":
        return f"(.chr {t[1]})"
    if tag in ("y", "s"):
        return f"(.{'sym' if tag == 'y' else 'str'} [{', '.join(t[1:])}])"
    if tag == "L":
        return "(.list [" + ", ".join(_lean_val(x) for x in t[1:]) + "])"
    raise Unsupported(tag)


def _lean_expr(t):
    """wire tree -> Lean term of type Klong.C03.Expr"""
    if t == "H":
        return ".hole"
    tag = t[0]
    op = lambda tok: _lean_str("".join(chr(int(c)) for c in tok.split(".")))  # noqa: E731
    lst = lambda xs: "[" + ", ".join(_lean_expr(x) for x in xs) + "]"  # noqa: E731
    if tag == "lit":
        return f"(.lit {_lean_val(t[1])})"
    if tag == "sym":
        return f"(.sym {_lean_str(t[1])})"
    if tag == "lam":
        return f"(.lam {_lean_str(t[1])})"
    if tag == "op1":
        return f"(.op1 {op(t[1])} {_lean_expr(t[2])})"
    if tag == "op2":
        return f"(.op2 {op(t[1])} {_lean_expr(t[2])} {_lean_expr(t[3])})"
    if tag == "asg":
        return f"(.asg {_lean_str(t[1])} {_lean_expr(t[2])})"
    if tag in ("fn", "callN"):
        return f"(.{tag} {_lean_expr(t[1])} {t[2]})"
    if tag in ("proj", "call"):
        return f"(.{tag} {_lean_expr(t[1])} {lst(t[2])} {t[3]})"
    if tag == "prog":
        return f"(.prog {lst(t[1:])})"
    if tag == "cond":
        return f"(.cond {_lean_expr(t[1])} {_lean_expr(t[2])} {_lean_expr(t[3])})"
    if tag in ("each", "over"):
        return f"(.{tag} {_lean_expr(t[1])} {_lean_expr(t[2])})"
    raise Unsupported(tag)


def kernel_obligation(ctx, recorded):
    """a few cases of this run, evaluated by the Lean KERNEL (`decide +kernel`, no compiled driver in
    between) against what the real interpreter returned: result or error class and context depth"""
    src = ["import Klong.Props.C03", "open Klong Klong.C03", "namespace C03Run",
           'def p0 : St := { ctx := (freshCtx.setD "boom" (.callN (.lam "boom") 1)).setD "log" (.callN (.lam "log") 1) }']
    checks = 0
    for ci, (case, obs) in enumerate(recorded):
        prev = "p0"
        props = []
        try:
            for i, o in enumerate(obs):
                term = _lean_expr(_sexp(parse_wire(o["text"])))
                name = f"r{ci}_{i}"
                src.append(f"def {name} := eval {FUEL} {term} {{ {prev} with log := [] }}")
                prev = f"{name}.2"
                props.append(f"{name}.2.ctx.depth = {o['depth1']}")
                out = o["out"]
                if out.startswith("ok (lit (i ") and out.endswith("))"):
                    n = int(out[len("ok (lit (i "):-2])
                    props.append(f"obsInt {name}.1 = {n}" if n >= 0 else f"obsInt {name}.1 = ({n})")
                elif out.startswith("err "):
                    props.append(f"obsErr {name}.1 = some .{out[4:]}")
                elif out.startswith("ok (lit (L"):
                    try:
                        v = _plain_of_wire(out[3:])
                        if all(isinstance(q, int) for q in v):
                            props.append(f"obsInts {name}.1 = some [{', '.join(str(q) for q in v)}]")
                    except Unsupported:
                        pass
        except Exception:  # noqa: BLE001 - a case the printer does not cover is simply not used
            continue
        if props:
            src.append("example : " + " ∧ ".join(props) + " := by decide +kernel")
            checks += 1
    src.append("end C03Run")
    if not checks:
        return
    ok, out = common.lean_run("\n".join(src) + "\n", timeout=600)
    ctx.obligation(f"kernel evaluation of {checks} recorded cases equals the real interpreter's observations",
                   ok, out[-800:])
    ctx.extra["kernel_checked_cases"] = checks
