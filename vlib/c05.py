"""C05 — compiled and interpreted execution of an expression are indistinguishable.

* extract(ctx): regenerates lean/Klong/Generated/C05Tables.lean (operator sets admitted by
  compiler._ast_to_ir, the op -> source templates of both backends' _ir_to_source, the helper names
  bound into generated code, where operand kinds are tested) from the Python AST of the checked tree.
  An AST shape it does not recognise is a broken tie (it raises).
* run(ctx):
  1. codegen_matches_model: the real `_ir_to_source` of both backends vs the model's `irToSource`, string
     equality, for every IR tree up to depth 2 over two leaves and a composed depth-3 layer.
  2. property oracle (needs no model): the same program in two REAL interpreters, one of them with
     `klongpy.interpreter.compile_expr` replaced by a stub returning None; every expression position
     (top level, function body, lambda parameters, operand of a non-compilable verb) x the binding
     universe x rebinding histories x backends.
  3. correspondence: real `_ast_to_ir` / `_collect_params` / compiled callable / interpreter vs the Lean
     model (`kd_c05`) for the same expression and bindings.
"""
import ast
import hashlib
import json
import math

import numpy as np

from . import common
from .common import Driver
from .universe import canon, veq, show, from_py, klit, to_wire, from_wire

CLAIM = dict(
    text="Lean 4 theorems over a model of compiler._ast_to_ir, both backends' _ir_to_source, the generated "
         "Python expression language (PyExpr.eval) and the tree-walking interpreter: for ALL expressions and "
         "all bindings inside the decidable domain Adm (variables bound, scalar integer arithmetic inside int64) "
         "the compiled callable either raises (and the call site falls back) or returns the interpreter's value "
         "(compiled_eq_interp), also when the callable was compiled under other bindings and is reused after "
         "rebinding (system_eq_interp, for every memo content); the parameter order of the generated function "
         "matches var_syms. Operator sets and op->source tables are regenerated from the Python AST on every run; "
         "the generated source strings are compared with the real backends' output per run; the property oracle "
         "is the same program run in two real interpreters, one with compile_expr stubbed out.",
    note="trusted: Lean kernel (axioms propext/Classical.choice/Quot.sound), the AST extractor and harness, CPython "
         "(exec of the generated def, repr/float round trip), numpy ufunc semantics as modelled (validated by the "
         "correspondence on the universe; values deeper than one level of raggedness are outside the model), torch "
         "method semantics (source strings only; behaviour covered by the two-interpreter oracle, float32 tolerance)",
    technique="Lean 4 proof by induction on the expression + translator-regenerated tables + per-run string equality "
              "of generated code + differential two-interpreter oracle",
    design="7/C05")

MODULES = ["Klong.Props.C05"]
THEOREMS = [
    "Klong.C05.compiled_eq_interp",
    "Klong.C05.compiled_value_is_interp_value",
    "Klong.C05.system_eq_interp",
    "Klong.C05.top_eq_interp",
    "Klong.C05.params_match_var_syms",
    "Klong.C05.pinned_scan_rank2_differs",
    "Klong.C05.pinned_reduce_empty_differs",
    "Klong.C05.pinned_power_kind_differs",
]

GENERATED = common.LEAN / "Klong" / "Generated" / "C05Tables.lean"


# =========================================================================== translator

class Shape(Exception):
    """the Python source no longer has a shape the translator understands"""


def _src(path):
    return (common.REPO / path).read_text()


def _fn(tree, name, cls=None):
    for node in ast.walk(tree):
        if isinstance(node, ast.FunctionDef) and node.name == name:
            return node
    raise Shape(f"function {name} not found")


def _set_literal(tree, name):
    for node in tree.body:
        if isinstance(node, ast.Assign) and len(node.targets) == 1 and getattr(node.targets[0], "id", None) == name:
            v = node.value
            if isinstance(v, ast.Set) and all(isinstance(e, ast.Constant) and isinstance(e.value, str) for e in v.elts):
                return sorted(e.value for e in v.elts)
            raise Shape(f"{name} is not a set literal of strings")
    raise Shape(f"{name} not found")


def _ifs(fn):
    return [n for n in ast.walk(fn) if isinstance(n, ast.If)]


def _body_src(stmts):
    return "; ".join(ast.unparse(s) for s in stmts)


def extract_compiler():
    tree = ast.parse(_src("klongpy/compiler.py"))
    out = dict(arith=_set_literal(tree, "_ARITH_OPS"), cmp=_set_literal(tree, "_CMP_OPS"),
               rs=_set_literal(tree, "_REDUCE_SCAN_OPS"))
    fn = _fn(tree, "_ast_to_ir")
    tests = {}
    for i in _ifs(fn):
        tests.setdefault(ast.unparse(i.test), i)

    def need(test, body):
        if test not in tests:
            raise Shape(f"_ast_to_ir: no `if {test}`")
        got = _body_src(tests[test].body)
        if got != body:
            raise Shape(f"_ast_to_ir: `if {test}` does `{got}`, expected `{body}`")
        return tests[test]

    need("op_char in _ARITH_OPS", "return ('binop', op_char, left, right)")
    need("op_char in _CMP_OPS", "return ('cmp', op_char, left, right)")
    need("op_char not in _REDUCE_SCAN_OPS", "return None")
    need("t is int or t is float", "return ('literal', node)")
    # operands are translated left then right
    srcfn = ast.unparse(fn)
    li, ri = srcfn.find("left = _ast_to_ir(args[0]"), srcfn.find("right = _ast_to_ir(args[1]")
    if li < 0 or ri < 0 or ri < li:
        raise Shape("_ast_to_ir: operands are not translated left (args[0]) then right (args[1])")
    # negate
    neg = None
    for t, node in tests.items():
        if t.startswith("arity == 1 and op_char == "):
            c = node.test.values[1].comparators[0]
            if isinstance(c, ast.Constant) and "return ('negate', child)" in _body_src(node.body):
                neg = c.value
    if neg is None:
        raise Shape("_ast_to_ir: monadic branch not recognised")
    out["negate"] = neg
    # reduce / scan adverbs
    red = [n for t, n in tests.items() if t.startswith("adv_char == ") and "('reduce', op_char, arg_ir)" in _body_src(n.body)]
    if len(red) != 1:
        raise Shape("_ast_to_ir: reduce branch not recognised")
    out["reduce_adv"] = red[0].test.comparators[0].value
    sc = red[0].orelse
    if not (len(sc) == 1 and isinstance(sc[0], ast.If) and ast.unparse(sc[0].test).startswith("adv_char == ")
            and _body_src(sc[0].body) == "return ('scan', op_char, arg_ir)"):
        raise Shape("_ast_to_ir: scan branch not recognised")
    out["scan_adv"] = sc[0].test.comparators[0].value
    # every tuple returned is a known IR node
    tags = set()
    for n in ast.walk(fn):
        if isinstance(n, ast.Return) and isinstance(n.value, ast.Tuple) and isinstance(n.value.elts[0], ast.Constant):
            tags.add(n.value.elts[0].value)
    if tags != {"literal", "var", "binop", "cmp", "negate", "reduce", "scan"}:
        raise Shape(f"_ast_to_ir returns IR nodes {sorted(tags)}")
    # variables
    sym = need_prefix(tests, "t is KGSym")
    body = _body_src(sym.body)
    if "var_refs[node] = f'_v{len(var_refs)}'" not in body or "return ('var', var_refs[node])" not in body:
        raise Shape("_ast_to_ir: variable numbering not recognised")
    looks_up = "klong._context[node]" in body
    guarded = any(isinstance(s, ast.If) and ast.unparse(s.test) == "check_operands" for s in sym.body)
    out["sym_lookup"] = "guarded" if (looks_up and guarded) else ("always" if looks_up else "never")
    # compile_expr
    ce = _fn(tree, "compile_expr")
    cs = ast.unparse(ce)
    for frag in ("if not var_refs:", "var_syms = list(var_refs.keys())", "klong._backend.compile_expr_ir(ir, var_syms)"):
        if frag not in cs:
            raise Shape(f"compile_expr: `{frag}` not found")
    out["require_vars"] = True
    return out


def need_prefix(tests, prefix):
    for t, n in tests.items():
        if t == prefix:
            return n
    raise Shape(f"no `if {prefix}`")


def extract_callsites(comp):
    tree = ast.parse(_src("klongpy/interpreter.py"))
    calls = [n for n in ast.walk(tree) if isinstance(n, ast.Call) and getattr(n.func, "id", None) == "compile_expr"]
    if len(calls) != 3:
        raise Shape(f"interpreter.py: {len(calls)} compile_expr call sites, expected 3")
    kw = set()
    for c in calls:
        k = {k.arg: ast.unparse(k.value) for k in c.keywords}
        kw.add(k.get("check_operands", "default"))
    if len(kw) != 1:
        raise Shape("interpreter.py: call sites pass different check_operands")
    check = kw.pop()
    tries = []
    for n in ast.walk(tree):
        if isinstance(n, ast.Try) and "fn(*args)" in _body_src(n.body):
            tries.append(n)
    if len(tries) != 3:
        raise Shape(f"interpreter.py: {len(tries)} guarded compiled calls, expected 3")
    fetch = set()
    for t in tries:
        if not (len(t.handlers) == 1 and getattr(t.handlers[0].type, "id", None) == "Exception"
                and all(isinstance(s, ast.Pass) for s in t.handlers[0].body)):
            raise Shape("interpreter.py: compiled call is not `except Exception: pass`")
        b = _body_src(t.body)
        if "args = [self._context[s] for s in var_syms]" in b:
            fetch.add("plain")
        elif "args = compiled_args(self, var_syms)" in b:
            fetch.add("checked")
        else:
            raise Shape("interpreter.py: operand fetch not recognised")
        if "return fn(*args)" not in b:
            raise Shape("interpreter.py: compiled result is not returned as is")
    if len(fetch) != 1:
        raise Shape("interpreter.py: call sites fetch operands differently")
    at_call = fetch.pop() == "checked"
    if comp["sym_lookup"] == "always":
        at_compile = True
    elif comp["sym_lookup"] == "never":
        at_compile = False
    else:
        if check not in ("False", "True", "default"):
            raise Shape("interpreter.py: check_operands argument not a constant")
        at_compile = check != "False"
    # memoisation: on the node and per text, per-text cache cleared on rebinding
    src = ast.unparse(tree)
    for frag in ("x._compiled = compiled", "self._compiled_cache[cache_key] = compiled or False",
                 "self._compiled_cache.clear()"):
        if frag not in src:
            raise Shape(f"interpreter.py: `{frag}` not found")
    return dict(at_compile=at_compile, at_call=at_call)


def _templates(fn, kind, nplace):
    """op -> tuple of literal pieces around the operand placeholders, for one `if node_type == kind` block"""
    blk = None
    for i in _ifs(fn):
        if ast.unparse(i.test) == f"node_type == '{kind}'":
            blk = i
    if blk is None:
        raise Shape(f"_ir_to_source: no block for {kind}")
    place = []          # names assigned from self._ir_to_source(...)
    dicts = {}          # name -> dict
    result = {}
    order = []

    def visit(stmts):
        for s in stmts:
            if isinstance(s, ast.Assign) and len(s.targets) == 1:
                tgt = s.targets[0]
                v = s.value
                if isinstance(tgt, ast.Name) and isinstance(v, ast.Call) and ast.unparse(v.func) == "self._ir_to_source":
                    place.append(tgt.id)
                    order.append(ast.unparse(v.args[0]))
                elif (isinstance(tgt, ast.Name) and isinstance(v, ast.Call) and isinstance(v.func, ast.Attribute)
                      and v.func.attr == "get" and isinstance(v.func.value, ast.Dict) and ast.unparse(v.args[0]) == "op"):
                    d = {}
                    for k, val in zip(v.func.value.keys, v.func.value.values):
                        if not (isinstance(k, ast.Constant) and isinstance(val, ast.Constant)):
                            raise Shape(f"_ir_to_source {kind}: table entry is not a constant")
                        d[k.value] = val.value
                    dicts[tgt.id] = d
                elif isinstance(tgt, ast.Name) and isinstance(v, ast.Dict):
                    d = {}
                    for k, val in zip(v.keys, v.values):
                        if not (isinstance(k, ast.Constant) and isinstance(val, ast.Constant)):
                            raise Shape(f"_ir_to_source {kind}: table entry is not a constant")
                        d[k.value] = val.value
                    dicts["@" + tgt.id] = d
                elif (isinstance(tgt, ast.Name) and isinstance(v, ast.Call) and isinstance(v.func, ast.Attribute)
                      and v.func.attr == "get" and isinstance(v.func.value, ast.Name)
                      and "@" + v.func.value.id in dicts and ast.unparse(v.args[0]) == "op"):
                    dicts[tgt.id] = dicts["@" + v.func.value.id]
                elif isinstance(tgt, ast.Tuple):
                    pass        # op, left, right = ir[1], ir[2], ir[3]
                else:
                    raise Shape(f"_ir_to_source {kind}: statement `{ast.unparse(s)}` not recognised")
            elif isinstance(s, ast.Return):
                if isinstance(s.value, ast.Constant) and s.value.value is None:
                    continue
                if not isinstance(s.value, ast.JoinedStr):
                    raise Shape(f"_ir_to_source {kind}: returns `{ast.unparse(s.value)}`")
                used = [v.value.id for v in s.value.values
                        if isinstance(v, ast.FormattedValue) and isinstance(v.value, ast.Name)]
                tabs = [u for u in used if u in dicts]
                if len(tabs) > 1:
                    raise Shape(f"_ir_to_source {kind}: template uses two tables")
                ops = dicts[tabs[0]] if tabs else {None: ""}
                for op, sub in ops.items():
                    pieces, cur, seen = [], "", []
                    for v in s.value.values:
                        if isinstance(v, ast.Constant):
                            cur += v.value
                        elif isinstance(v, ast.FormattedValue) and isinstance(v.value, ast.Name) and not v.format_spec \
                                and v.conversion == -1:
                            if v.value.id in dicts:
                                cur += sub
                            elif v.value.id in place:
                                pieces.append(cur)
                                cur = ""
                                seen.append(v.value.id)
                            else:
                                raise Shape(f"_ir_to_source {kind}: template interpolates `{v.value.id}`")
                        else:
                            raise Shape(f"_ir_to_source {kind}: template piece not recognised")
                    pieces.append(cur)
                    if seen != place:
                        raise Shape(f"_ir_to_source {kind}: template uses operands {seen}, expected {place} once each in order")
                    if op in result:
                        raise Shape(f"_ir_to_source {kind}: two templates for {op!r}")
                    result[op] = tuple(pieces)
            elif isinstance(s, ast.If):
                t = ast.unparse(s.test)
                ok = t.endswith(" is None") or t.endswith(" is not None")
                if not ok:
                    raise Shape(f"_ir_to_source {kind}: condition `{t}` not recognised")
                visit(s.body)
                visit(s.orelse)
            else:
                raise Shape(f"_ir_to_source {kind}: statement `{ast.unparse(s)}` not recognised")

    visit(blk.body)
    if len(place) != nplace:
        raise Shape(f"_ir_to_source {kind}: {len(place)} operands")
    if nplace == 2 and order != ["left", "right"]:
        raise Shape(f"_ir_to_source {kind}: operands translated in order {order}")
    return result


def extract_backend(path):
    tree = ast.parse(_src(path))
    fns = [n for n in ast.walk(tree) if isinstance(n, ast.FunctionDef) and n.name == "_ir_to_source"]
    if len(fns) != 1:
        raise Shape(f"{path}: {len(fns)} _ir_to_source")
    fn = fns[0]
    blocks = {}
    for i in _ifs(fn):
        t = ast.unparse(i.test)
        if t.startswith("node_type == "):
            blocks[t] = _body_src(i.body)
    if set(blocks) != {f"node_type == '{k}'" for k in ("literal", "var", "binop", "cmp", "negate", "reduce", "scan")}:
        raise Shape(f"{path}: _ir_to_source handles {sorted(blocks)}")
    if blocks["node_type == 'literal'"] != "return repr(ir[1])" or blocks["node_type == 'var'"] != "return ir[1]":
        raise Shape(f"{path}: literal / var source not recognised")
    out = dict(binop=_templates(fn, "binop", 2), cmp=_templates(fn, "cmp", 2),
               negate=_templates(fn, "negate", 1), reduce=_templates(fn, "reduce", 1),
               scan=_templates(fn, "scan", 1))
    if set(out["negate"]) != {None}:
        raise Shape(f"{path}: negate template depends on a table")
    ce = [n for n in ast.walk(tree) if isinstance(n, ast.FunctionDef) and n.name == "compile_expr_ir"]
    if len(ce) != 1:
        raise Shape(f"{path}: compile_expr_ir")
    cs = ast.unparse(ce[0])
    for frag in ("source = self._ir_to_source(ir)", "param_names = list(self._collect_params(ir))",
                 "fn_source = f'def _expr({', '.join(param_names)}): return {source}'",
                 "exec(fn_source, ns)", "return (ns['_expr'], var_syms)"):
        if frag not in cs:
            raise Shape(f"{path}: compile_expr_ir: `{frag}` not found")
    out["uses_helpers"] = "_compiled_helpers()" in cs
    return out


def extract_helpers():
    tree = ast.parse(_src("klongpy/backends/base.py"))
    fns = [n for n in ast.walk(tree) if isinstance(n, ast.FunctionDef) and n.name == "_compiled_helpers"]
    if not fns:
        return {}
    ret = [n for n in ast.walk(fns[0]) if isinstance(n, ast.Return) and isinstance(n.value, ast.Dict)]
    if len(ret) != 1:
        raise Shape("_compiled_helpers: return not recognised")
    out = {}
    for k, v in zip(ret[0].value.keys, ret[0].value.values):
        if not isinstance(k, ast.Constant):
            raise Shape("_compiled_helpers: key")
        if isinstance(v, ast.Lambda) and isinstance(v.body, ast.Call) and isinstance(v.body.func, ast.Name):
            a = [x.arg for x in v.args.args]
            if [ast.unparse(x) for x in v.body.args] != a + ["self"]:
                raise Shape(f"_compiled_helpers: {k.value} does not pass its operands through")
            out[k.value] = v.body.func.id
        elif isinstance(v, ast.Name):
            out[k.value] = v.id
        else:
            raise Shape(f"_compiled_helpers: value of {k.value}")
    return out


def _ls(s):
    return json.dumps(s, ensure_ascii=True).replace("\\u", "\\u") if all(ord(c) < 127 for c in s) else json.dumps(s)


def _lean_str(s):
    out = '"'
    for c in s:
        if c == '"':
            out += '\\"'
        elif c == "\\":
            out += "\\\\"
        elif c == "\n":
            out += "\\n"
        elif 32 <= ord(c) < 127:
            out += c
        else:
            raise Shape(f"non-ASCII text in a table: {s!r}")
    return out + '"'


def render_tables(x):
    L = _lean_str

    def strs(xs):
        return "[" + ", ".join(L(s) for s in xs) + "]"

    def t3(d):
        items = []
        for op in sorted(d):
            p = d[op]
            if len(p) != 3:
                raise Shape("binary template")
            items.append(f"({L(op)}, ({L(p[0])}, {L(p[1])}, {L(p[2])}))")
        return "[" + ", ".join(items) + "]"

    def t2(d):
        items = []
        for op in sorted(d):
            p = d[op]
            if len(p) != 2:
                raise Shape("unary template")
            items.append(f"({L(op)}, ({L(p[0])}, {L(p[1])}))")
        return "[" + ", ".join(items) + "]"

    c = x["compiler"]
    lines = [
        "/-",
        "  GENERATED by vlib/c05.py (extract) from klongpy/compiler.py, klongpy/backends/numpy_backend.py,",
        "  klongpy/backends/torch_backend.py -- do not edit; regenerated on every ./check C05.",
        "-/",
        "namespace Klong.C05.Tables",
        "",
        "/-- compiler.py `_ARITH_OPS` -/",
        f"def arithOps : List String := {strs(c['arith'])}",
        "/-- compiler.py `_CMP_OPS` -/",
        f"def cmpOps : List String := {strs(c['cmp'])}",
        "/-- compiler.py `_REDUCE_SCAN_OPS` -/",
        f"def reduceScanOps : List String := {strs(c['rs'])}",
        "/-- compiler.py: the one monad admitted (`arity == 1 and op_char == '-'`) -/",
        f"def negateOp : String := {L(c['negate'])}",
        "/-- compiler.py: adverb characters of ('reduce', …) and ('scan', …) -/",
        f"def reduceAdverb : String := {L(c['reduce_adv'])}",
        f"def scanAdverb : String := {L(c['scan_adv'])}",
        "/-- compile_expr: `if not var_refs: return None` -/",
        f"def requireVars : Bool := {'true' if c['require_vars'] else 'false'}",
        "/-- `_ast_to_ir` looks the variable up and tests its type at compile time -/",
        f"def admitAtCompile : Bool := {'true' if x['sites']['at_compile'] else 'false'}",
        "/-- the call sites test the operand types at every call (compiled_args) -/",
        f"def admitAtCall : Bool := {'true' if x['sites']['at_call'] else 'false'}",
        "",
    ]
    for b in ("numpy", "torch"):
        t = x[b]
        if b == "numpy":
            lines.append("/-- numpy backend: op -> (prefix, infix, suffix) of the generated source around the two operands -/")
        lines += [
            f"def {b}Binop : List (String × (String × String × String)) :=",
            f"  {t3(t['binop'])}",
            f"def {b}Cmp : List (String × (String × String × String)) :=",
            f"  {t3(t['cmp'])}",
            f"def {b}Negate : String × String := ({L(t['negate'][None][0])}, {L(t['negate'][None][1])})",
            f"def {b}Reduce : List (String × (String × String)) :=",
            f"  {t2(t['reduce'])}",
            f"def {b}Scan : List (String × (String × String)) :=",
            f"  {t2(t['scan'])}",
            "",
        ]
    lines += [
        "/-- names bound in the namespace of the generated function -> the interpreter function behind them -/",
        "def helpers : List (String × String) :=",
        "  [" + ", ".join(f"({L(k)}, {L(v)})" for k, v in sorted(x["helpers"].items())) + "]",
        "",
        "end Klong.C05.Tables",
        "",
    ]
    return "\n".join(lines)


def extract_all():
    comp = extract_compiler()
    x = dict(compiler=comp, sites=extract_callsites(comp),
             numpy=extract_backend("klongpy/backends/numpy_backend.py"),
             torch=extract_backend("klongpy/backends/torch_backend.py"),
             helpers=extract_helpers())
    # every helper a template calls must be bound
    import re
    for b in ("numpy", "torch"):
        for kind in ("binop", "cmp", "negate", "reduce", "scan"):
            for op, pieces in x[b][kind].items():
                for name in re.findall(r"_kg_\w+", "".join(pieces)):
                    if name not in x["helpers"] or not x[b]["uses_helpers"]:
                        raise Shape(f"{b} {kind} {op!r}: generated code calls {name}, which is not bound in its namespace")
    return x


def extract(ctx):
    x = extract_all()
    text = render_tables(x)
    old = GENERATED.read_text() if GENERATED.exists() else None
    if old != text:
        GENERATED.parent.mkdir(parents=True, exist_ok=True)
        GENERATED.write_text(text)
    ctx.extra["tables_changed"] = old != text
    ctx.extra["tables"] = dict(arith=x["compiler"]["arith"], cmp=x["compiler"]["cmp"], reduce_scan=x["compiler"]["rs"],
                               admit_at_compile=x["sites"]["at_compile"], admit_at_call=x["sites"]["at_call"],
                               numpy_binop={k: "".join(("%s" if i else "") + p for i, p in enumerate(v))
                                            for k, v in x["numpy"]["binop"].items()})
    ctx._c05_tables = x
    return x


# =========================================================================== expressions

LITS = [0, 1, 2, 3, 0.5, 2.5]
VARS = ["a", "b"]
CONTROL_DYADS = ["!", "&"]          # never compiled (unless the admission changes): they stay in the grammar
CONTROL_ADVERB_OPS = ["-", ","]


def leaves(vars_=VARS):
    return [("v", x) for x in vars_] + [("l", x) for x in LITS]


class Grammar:
    def __init__(self, tables):
        c = tables["compiler"]
        self.bin = sorted(set(c["arith"]) | set(c["cmp"]))
        self.rs = list(c["rs"])
        self.neg = c["negate"]
        self.red = c["reduce_adv"]
        self.scn = c["scan_adv"]

    def rnd(self, rng, d, vars_=VARS, controls=0.06):
        if d == 0 or rng.random() < 0.12:
            return rng.choice(leaves(vars_))
        r = rng.random()
        if r < 0.55:
            op = rng.choice(CONTROL_DYADS) if rng.random() < controls else rng.choice(self.bin)
            return ("b", op, self.rnd(rng, d - 1, vars_, controls), self.rnd(rng, d - 1, vars_, controls))
        if r < 0.65:
            return ("n", self.neg, self.rnd(rng, d - 1, vars_, controls))
        op = rng.choice(CONTROL_ADVERB_OPS) if rng.random() < controls else rng.choice(self.rs)
        if r < 0.83:
            return ("r", op, self.rnd(rng, d - 1, vars_, controls))
        return ("s", op, self.rnd(rng, d - 1, vars_, controls))

    def all(self, d, vars_=VARS, lits=LITS):
        lv = [("v", x) for x in vars_] + [("l", x) for x in lits]
        if d == 0:
            return lv
        sub = self.all(d - 1, vars_, lits)
        out = list(sub)
        for op in self.bin:
            for l in sub:
                for r in sub:
                    out.append(("b", op, l, r))
        for s in sub:
            out.append(("n", self.neg, s))
            for op in self.rs:
                out.append(("r", op, s))
                out.append(("s", op, s))
        return out

    def text(self, e, ren=None):
        t = e[0]
        if t == "v":
            return (ren or {}).get(e[1], e[1])
        if t == "l":
            # ("l", value) or ("l", value, klong_text) for a literal whose Klong text is not repr(value) (1e400)
            return e[2] if len(e) > 2 else repr(e[1])
        if t == "b":
            return f"({self.text(e[2], ren)}){e[1]}({self.text(e[3], ren)})"
        if t == "n":
            return f"{e[1]}({self.text(e[2], ren)})"
        if t == "r":
            return f"{e[1]}{self.red}({self.text(e[2], ren)})"
        if t == "s":
            return f"{e[1]}{self.scn}({self.text(e[2], ren)})"
        raise ValueError(e)


def has_int_literal(e):
    if e[0] == "l":
        return isinstance(e[1], int)
    return any(has_int_literal(k) for k in kids(e))


def twin(e, rng, force=None):
    """the same expression with integer literals rewritten as the equal-valued reals (2 -> 2.0) and integral
    reals as integers: same shape, same values, other integer/real kind"""
    flipped = [False]

    def go(x):
        t = x[0]
        if t == "l":
            v = x[1]
            if isinstance(v, int) and (force or rng.random() < 0.7):
                flipped[0] = True
                return ("l", float(v))
            if isinstance(v, float) and v.is_integer() and abs(v) < 2 ** 31:
                flipped[0] = True
                return ("l", int(v))
            return x
        if t == "v":
            return x
        if t == "b":
            return (t, x[1], go(x[2]), go(x[3]))
        return (t, x[1], go(x[2]))

    r = go(e)
    if not flipped[0] and force is None:
        return twin(e, rng, force=True)
    return r if flipped[0] else None


def kids(e):
    t = e[0]
    if t == "b":
        return [e[2], e[3]]
    if t in "nrs":
        return [e[2]]
    return []


def evars(e):
    if e[0] == "v":
        return [e[1]]
    out = []
    for k in kids(e):
        for v in evars(k):
            if v not in out:
                out.append(v)
    return out


def depth(e):
    return 1 + max([depth(k) for k in kids(e)]) if kids(e) else 0


def _int_only(v):
    if isinstance(v, bool):
        return False
    if isinstance(v, int):
        return True
    if isinstance(v, list):
        return len(v) > 0 and all(_int_only(x) for x in v)
    return False


def _cps(s):
    return " ".join(str(ord(c)) for c in s)


def expr_wire(e):
    t = e[0]
    if t == "v":
        return f"(var {_cps(e[1])})"
    if t == "l":
        return f"(lit {to_wire(from_py(e[1]))} {_cps(repr(e[1]))})"
    if t == "b":
        return f"(dy {e[1]} {expr_wire(e[2])} {expr_wire(e[3])})"
    if t == "n":
        return f"(mo {e[1]} {expr_wire(e[2])})"
    if t == "r":
        return f"(ov {e[1]} {expr_wire(e[2])})"
    if t == "s":
        return f"(sc {e[1]} {expr_wire(e[2])})"
    raise ValueError(e)


def ir_wire(ir, text_as="cps"):
    k = ir[0]
    if k == "literal":
        v = ir[1]
        w = to_wire(from_py(v))
        t = _cps(repr(v)) if text_as == "cps" else repr(v).encode().hex()
        return f"(literal {w} {t})"
    if k == "var":
        return f"(v {int(ir[1][2:])})"
    if k in ("binop", "cmp"):
        return f"({k} {ir[1]} {ir_wire(ir[2], text_as)} {ir_wire(ir[3], text_as)})"
    if k == "negate":
        return f"(negate {ir_wire(ir[1], text_as)})"
    if k in ("reduce", "scan"):
        return f"({k} {ir[1]} {ir_wire(ir[2], text_as)})"
    raise ValueError(ir)


# =========================================================================== bindings

BIND_NUMPY = [0, 1, -1, 2, 3, 5, -3, 7, 17, 100, 0.0, 0.5, 1.5, -2.5, 1e100, 1e-7,
              [], [1], [3, 1], [1, 2, 3], [5, -3, 2, 7], [0, 1, 0, 1, 1], [0, 0], [4, 9],
              [0.5], [1.5, -2.5], [0.5, 1.5, 2.5], [0.0, 2.0], [1, 2.5], [0.5, 2, 3],
              [[1, 2], [3, 4]], [[1, 2, 3], [4, 5, 6]], [[1], [2], [3]], [[1, 2, 3]], [[0.5, 1.5], [2.5, 3.5]],
              [[[1, 2], [3, 4]], [[5, 6], [7, 8]]],
              [[1], [2, 3]], [1, [2]], [[], [1]], [[1, 2], 3], [1, [2, [3, [4], 5], 6], 7], [[1, [2]], [3, [4]]]]
BIND_TORCH = [0, 1, -1, 2, 3, 5, -3, 7, 17, 0.0, 0.5, 1.5, -2.5,
              [], [1], [3, 1], [1, 2, 3], [5, -3, 2, 7], [0, 0], [4, 9],
              [0.5], [1.5, -2.5], [0.5, 1.5, 2.5], [0.0, 2.0], [1, 2.5],
              [[1, 2], [3, 4]], [[1, 2, 3], [4, 5, 6]], [[1], [2], [3]], [[0.5, 1.5], [2.5, 3.5]],
              [[[1, 2], [3, 4]], [[5, 6], [7, 8]]], [[1], [2, 3]], [1, [2]]]


def _shape(v):
    """shape of a rectangular numeric canonical value, or None"""
    t = v[0]
    if t in ("i", "r"):
        return ()
    if t != "L":
        return None
    subs = [_shape(x) for x in v[1]]
    if any(s is None for s in subs):
        return None
    if not subs:
        return (0,)
    if any(s != subs[0] for s in subs):
        return None
    return (len(subs),) + subs[0]


def vkind(v):
    """class of a canonical value, for histograms and finding keys"""
    t = v[0]
    if t == "i":
        return "int"
    if t == "r":
        return "real"
    if t == "U":
        return "undef"
    if t == "L":
        sh = _shape(v)
        if sh is None:
            return "nested"
        if sh == (0,):
            return "empty"
        return {1: "vec", 2: "mat", 3: "rank3"}.get(len(sh), "rank4+")
    return t


# =========================================================================== the two interpreters

def _stub(*a, **k):
    return None


class Pair:
    """interpreter A (compiler on) and interpreter B (compile_expr replaced by a stub)"""

    def __init__(self, backend):
        import klongpy.interpreter as KI
        from klongpy import KlongInterpreter
        self.KI = KI
        self.real = KI.compile_expr
        self.backend = backend
        kw = {} if backend == "numpy" else dict(backend="torch", device="cpu")
        self.A = KlongInterpreter(**kw)
        self.B = KlongInterpreter(**kw)
        self.rtol = 1e-9 if backend == "numpy" else 2e-5
        self.atol = 0.0 if backend == "numpy" else 1e-5

    def _run(self, k, text, stub):
        self.KI.compile_expr = _stub if stub else self.real
        try:
            with np.errstate(all="ignore"):
                r = k(text)
            return self.obs(canon(r))
        except Exception as e:
            return ("U",)
        finally:
            self.KI.compile_expr = self.real

    @staticmethod
    def obs(v):
        return ("U",) if v[0] in ("U", "E") else v

    def raw(self, k, text, stub):
        """the Python object an evaluation returns (None when it raises)"""
        self.KI.compile_expr = _stub if stub else self.real
        try:
            with np.errstate(all="ignore"):
                return k(text)
        except Exception:
            return None
        finally:
            self.KI.compile_expr = self.real

    def bind(self, name, val, how="text"):
        if how == "api" and isinstance(val, (int, float)):
            self.A[name] = val
            self.B[name] = val
        else:
            t = f"{name}::{klit(from_py(val))}"
            self._run(self.A, t, False)
            self._run(self.B, t, True)

    def define(self, text):
        self._run(self.A, text, False)
        self._run(self.B, text, True)

    def both(self, text):
        return self._run(self.A, text, False), self._run(self.B, text, True)

    def value(self, name):
        return self.B[name]

    def same(self, a, b):
        return veq_tol(a, b, self.rtol, self.atol)


def veq_tol(a, b, rtol, atol):
    """universe.veq (kinds exact) with an absolute tolerance for reals (float32 cancellation on torch)"""
    if atol == 0.0:
        return veq(a, b, rtol=rtol)
    ta, tb = a[0], b[0]
    if ta != tb:
        return False
    if ta == "r":
        x, y = a[1], b[1]
        if math.isnan(x) or math.isnan(y):
            return math.isnan(x) and math.isnan(y)
        if x == y:
            return True
        if math.isinf(x) or math.isinf(y):
            return False
        return abs(x - y) <= rtol * max(abs(x), abs(y)) + atol
    if ta == "L":
        return len(a[1]) == len(b[1]) and all(veq_tol(x, y, rtol, atol) for x, y in zip(a[1], b[1]))
    return veq(a, b, rtol=rtol)


def big_ints(v):
    t = v[0]
    if t == "i":
        return abs(v[1]) >= 2 ** 53
    if t == "r":
        return False
    if t == "L":
        return any(big_ints(x) for x in v[1])
    return False


def domain_ok(G, e, pair):
    """int64 assumption: no sub-expression value (with or without the compiler) holds an integer beyond 2^53
    (Python integers are exact, numpy's wrap, Power goes through float64)"""
    stack = [e]
    while stack:
        x = stack.pop()
        a, b = pair.both(G.text(x))
        if big_ints(a) or big_ints(b):
            return False
        stack += kids(x)
    return True


POSITIONS = ["top", "body", "lambda", "operand"]


class Oracle:
    def __init__(self, ctx, G, backend):
        self.ctx = ctx
        self.G = G
        self.backend = backend
        self.pair = Pair(backend)
        self.defined = set()
        self.prev_binds = None      # bindings of the previous history step
        self.cur_binds = None

    def program(self, e, pos):
        """(definitions to run once, text to evaluate)"""
        G = self.G
        t = G.text(e)
        if pos == "top":
            return [], t
        if pos == "body":
            name = "f" + hashlib.sha1(t.encode()).hexdigest()[:10]
            return [f"{name}::{{{t}}}"], f"{name}()"
        if pos == "lambda":
            vs = evars(e)
            ren = {v: p for v, p in zip(vs, "xyz")}
            body = G.text(e, ren)
            if not vs:
                return [], f"{{{body}}}()"
            return [], f"{{{body}}}({';'.join(vs[:3])})"
        if pos == "operand":
            return [], f",({t})"
        if pos == "named":
            vs = evars(e)
            ren = {v: p for v, p in zip(vs, "xyz")}
            body = G.text(e, ren)
            name = "g" + hashlib.sha1(body.encode()).hexdigest()[:10]
            return [f"{name}::{{{body}}}"], f"{name}({';'.join(vs[:3])})"
        raise ValueError(pos)

    def domain_ok(self, e, pair):
        return domain_ok(self.G, e, pair)

    def minimal(self, e, pair):
        """smallest sub-expression that already deviates at top level"""
        G = self.G
        cur = e
        while True:
            nxt = None
            for k in kids(cur):
                a, b = pair.both(G.text(k))
                if not pair.same(a, b):
                    nxt = k
                    break
            if nxt is None:
                return cur
            cur = nxt

    def key(self, e, pair, history):
        G = self.G
        m = self.minimal(e, pair)
        ks = [vkind(pair._run(pair.B, G.text(k), True)) for k in kids(m)]
        kind = {"b": "dyad", "n": "negate", "r": "over", "s": "scan", "v": "var", "l": "lit"}[m[0]]
        op = m[1] if m[0] in "bnrs" else ""
        if history and self.backend == "torch":
            # code compiled for tensors / numbers, now run on a list that torch cannot hold (a numpy object
            # array): one class, whatever the operator
            for v in evars(e):
                val = pair.B._context[self._sym(v)]
                if isinstance(val, np.ndarray):
                    return "torch:history:object-array-operand", m
        if self.backend == "torch" and ("^" in ops_of(m) or "nested" in ks) and any(
                (not evars(k) and depth(k) >= 1)
                or representation(pair.raw(pair.A, G.text(k), False)) != representation(pair.raw(pair.B, G.text(k), True))
                for k in kids(m)):
            # the operands of the deviating node have the same value on both paths but not the same Python
            # representation: generated code computes scalars as Python numbers, the torch interpreter as
            # 0-d tensors (a constant sub-expression inside generated code is Python arithmetic by construction)
            return f"torch:{'history:' if history else ''}operand-representation", m
        if (self.backend == "torch" and m[0] == "b" and "nested" in ks and ("int" in ks or "real" in ks)
                and (op in self.G._cmp or op == "^")):
            # the verbs that go through vec_fn2: an interpreted torch scalar is a 0-d tensor, which vec_fn2
            # treats as an array against an object array (len() of a 0-d tensor raises); compiled
            # sub-expressions deliver Python numbers
            return f"torch:{'history:' if history else ''}vec_fn2(scalar,nested)", m
        return f"{self.backend}:{'history:' if history else ''}{kind}{op}({','.join(ks)})", m

    @staticmethod
    def _sym(name):
        from klongpy.core import KGSym
        return KGSym(name)

    def check(self, e, pos, binds, history, prelude=None):
        """`prelude`: programs (defs, text) evaluated earlier in this interpreter pair that the case may depend on"""
        ctx, pair = self.ctx, self.pair
        defs, text = self.program(e, pos)
        for d in defs:
            if d not in self.defined:
                pair.define(d)
                self.defined.add(d)
        a, b = pair.both(text)
        ctx.count((self.backend, pos, text, repr(binds), history), nontrivial=depth(e) >= 1)
        ctx.bump(f"{self.backend}:{pos}")
        ctx.bump("result:" + vkind(b))
        if pair.same(a, b):
            return True
        if not self.domain_ok(e, pair):
            ctx.bump("outside-domain:int64")
            return True
        # is it the history (a stale compiled function) or the expression itself?
        fresh = Pair(self.backend)
        for n, v, how in binds:
            fresh.bind(n, v, how)
        for d in defs:
            fresh.define(d)
        fa, fb = fresh.both(text)
        stale = fresh.same(fa, fb)
        try:
            key, m = self.key(e, fresh if not stale else pair, stale)
        except Exception as ex:      # classification must never turn a failing input into a crash
            key, m = f"{self.backend}:{'history:' if stale else ''}unclassified({type(ex).__name__})", e
        earlier = None
        if stale and self.prev_binds is not None:
            # shortest history: evaluate once under the previous bindings, rebind, evaluate again
            h2 = Pair(self.backend)
            for n, v, how in self.prev_binds:
                h2.bind(n, v, how)
            for d in defs:
                h2.define(d)
            h2.both(text)
            for n, v, how in binds:
                h2.bind(n, v, how)
            ha, hb = h2.both(text)
            if not h2.same(ha, hb):
                earlier = [[n, v, how] for n, v, how in self.prev_binds]
        earlier_programs = None
        if stale and earlier is None and prelude:
            # the history that matters is another program evaluated earlier by the same interpreter
            h3 = Pair(self.backend)
            for n, v, how in binds:
                h3.bind(n, v, how)
            for pd, pt in prelude:
                for d in pd:
                    h3.define(d)
                h3.both(pt)
            for d in defs:
                h3.define(d)
            ha, hb = h3.both(text)
            if not h3.same(ha, hb):
                earlier_programs = [[pd, pt] for pd, pt in prelude]
        case = dict(kind="oracle", backend=self.backend, position=pos, expr=self.G.text(e), program=text,
                    defs=defs, bindings=[[n, klit(from_py(v)), how] for n, v, how in binds],
                    values=[[n, v, how] for n, v, how in binds], earlier_values=earlier,
                    earlier_programs=earlier_programs,
                    history=history, minimal=self.G.text(m))
        ctx.oracle_fail(key, case, f"interpreted: {show_obs(b)}", f"compiled: {show_obs(a)}",
                        "the value with the expression compiler enabled differs from the tree-walking interpreter's")
        return False


    def check_program(self, defs, text, binds, keyclass, history):
        """a program that is not an expression of the grammar (adverbs over lambdas, …): same comparison, the
        finding key is `<backend>:[history:]<keyclass>`"""
        ctx, pair = self.ctx, self.pair
        for d in defs:
            if d not in self.defined:
                pair.define(d)
                self.defined.add(d)
        a, b = pair.both(text)
        ctx.count((self.backend, "program", text, repr(binds), history))
        ctx.bump(f"{self.backend}:{keyclass.split('[')[0]}")
        if pair.same(a, b):
            return True
        if big_ints(a) or big_ints(b):
            ctx.bump("outside-domain:int64")
            return True
        fresh = Pair(self.backend)
        for n, v, how in binds:
            fresh.bind(n, v, how)
        for d in defs:
            fresh.define(d)
        fa, fb = fresh.both(text)
        stale = fresh.same(fa, fb)
        earlier = None
        if stale and self.prev_binds is not None:
            h2 = Pair(self.backend)
            for n, v, how in self.prev_binds:
                h2.bind(n, v, how)
            for d in defs:
                h2.define(d)
            h2.both(text)
            for n, v, how in binds:
                h2.bind(n, v, how)
            ha, hb = h2.both(text)
            if not h2.same(ha, hb):
                earlier = [[n, v, how] for n, v, how in self.prev_binds]
        case = dict(kind="oracle", backend=self.backend, position="program", expr=text, program=text,
                    defs=defs, bindings=[[n, klit(from_py(v)), how] for n, v, how in binds],
                    values=[[n, v, how] for n, v, how in binds], earlier_values=earlier, earlier_programs=None,
                    history=history, minimal=text)
        ctx.oracle_fail(f"{self.backend}:{'history:' if stale else ''}{keyclass}", case,
                        f"interpreted: {show_obs(b)}", f"compiled: {show_obs(a)}",
                        "the value with the expression compiler enabled differs from the tree-walking interpreter's")
        return False


def _kinds(e):
    return [e[0]] + [k for x in kids(e) for k in _kinds(x)]


def ops_of(e):
    out = set()
    if e[0] in "bnrs":
        out.add(e[1])
    for k in kids(e):
        out |= ops_of(k)
    return out


def representation(x):
    """Python-level representation class of a value (not its content)"""
    tn = type(x).__name__
    if x is None:
        return ("none",)
    if isinstance(x, (bool, int, float)):
        return ("py", "int" if isinstance(x, (bool, int)) else "float")
    if tn == "Tensor":
        return ("tensor", str(x.dtype), x.dim())
    if isinstance(x, np.ndarray):
        return ("ndarray", x.dtype.kind, x.ndim)
    if isinstance(x, np.generic):
        return ("npscalar", x.dtype.kind)
    return (tn,)


def show_obs(v):
    return ":undefined/error" if v[0] == "U" else show(v)


# =========================================================================== codegen string check

def ir_trees(G, rng, quick):
    """IR trees: exhaustive to depth 2 over two leaves, plus a composed depth-3 layer"""
    binops = [("binop", op) for op in G_arith(G) + ["!"]] + [("cmp", op) for op in G_cmp(G) + ["~"]]
    unops = [("negate", None)] + [("reduce", op) for op in G.rs + ["-"]] + [("scan", op) for op in G.rs + ["-"]]

    def layer(sub):
        out = []
        for k, op in binops:
            for l in sub:
                for r in sub:
                    out.append((k, op, l, r))
        for k, op in unops:
            for s in sub:
                out.append((k, s) if k == "negate" else (k, op, s))
        return out

    l0 = [("literal", 1), ("var", "_v0")]
    l0b = [("literal", 2.5), ("literal", 1e100), ("literal", 3), ("var", "_v1"), ("var", "_v2")]
    d1 = l0 + layer(l0)
    if quick:
        # one representative per node kind and operator as children of every root, then a sampled third layer
        reps = {}
        for t in d1:
            reps.setdefault((t[0], t[1] if t[0] not in ("literal", "var", "negate") else ""), t)
        d2 = layer(list(reps.values()))
        K = 20
    else:
        d2 = layer(d1)          # exhaustive depth 2
        K = 120
    trees = d1 + d2
    d1b = layer(l0 + l0b)
    pool = rng.sample(d2, K // 2) + rng.sample(d1b, K // 2) + l0b
    trees += layer(pool)
    return trees


def G_arith(G):
    return [op for op in G.bin if op in G._arith]


def G_cmp(G):
    return [op for op in G.bin if op in G._cmp]


def check_codegen(ctx, G, drv):
    from klongpy.backends.numpy_backend import NumpyBackendProvider
    provs = {"numpy": NumpyBackendProvider()}
    try:
        from klongpy.backends.torch_backend import TorchBackendProvider
        provs["torch"] = TorchBackendProvider(device="cpu")
    except Exception as e:     # torch not importable: numpy only
        ctx.extra["torch"] = f"not available: {type(e).__name__}"
    trees = ir_trees(G, ctx.rng, ctx.tier == "quick")
    total = 0
    bad = None
    for b, prov in provs.items():
        real = []
        for t in trees:
            try:
                real.append(prov._ir_to_source(t))
            except Exception as ex:      # a changed generator may refuse an IR tree: a mismatch, not a crash
                real.append(f"<raised {type(ex).__name__}>")
        if drv is None:
            continue
        model = drv.ask_many([f"src {b} {ir_wire(t)}" for t in trees])
        for t, r, m in zip(trees, real, model):
            total += 1
            want = "none" if r is None else "some:" + r.encode().hex()
            if want != m:
                if bad is None:
                    bad = (b, t, r, m)
                ctx.mismatch(f"Klong.C05.irToSource vs {b} _ir_to_source", dict(kind="codegen", backend=b, ir=repr(t)),
                             bytes.fromhex(m[5:]).decode() if m.startswith("some:") else m, r)
                break
    ctx.obligation("codegen_matches_model", bad is None and drv is not None,
                   "" if bad is None else f"{bad[0]}: IR {bad[1]!r}: real {bad[2]!r} model {bad[3]!r}")
    ctx.extra["codegen_trees_compared"] = total
    ctx.bump("codegen:trees", total)
    return provs


# =========================================================================== model correspondence

def model_case(ctx, G, drv, pair, e, binds):
    """model_case_ with every exception out of the real code turned into a mismatch (never a crash)"""
    try:
        return model_case_(ctx, G, drv, pair, e, binds)
    except common.Infra:
        raise
    except Exception as ex:
        ctx.mismatch("real compiler raised during the correspondence",
                     dict(kind="model", expr=G.text(e), bindings=[[n, klit(from_py(v)), how] for n, v, how in binds]),
                     "a value or a clean refusal", f"{type(ex).__name__}: {ex}")


def model_case_(ctx, G, drv, pair, e, binds):
    """real _ast_to_ir / _collect_params / compiled callable / interpreter vs kd_c05 (numpy, top level)"""
    from klongpy.compiler import _ast_to_ir, compile_expr
    from klongpy.core import KGSym
    k = pair.A
    text = G.text(e)
    ast_ = k.prog(text)[1][0]
    var_refs = {}
    try:
        ir = _ast_to_ir(ast_, k, var_refs)
    except TypeError:
        ir = _ast_to_ir(ast_, k, var_refs, True)
    vs = evars(e)
    admit = 1
    for v in vs:
        if _ast_to_ir(KGSym(v), k, {}) is None:
            admit = 0
    envw = " ".join(f"({ord(v)} {to_wire(canon(k[v]))})" for v in vs)
    reply = drv.ask(f"ev numpy {admit} {expr_wire(e)} (env {envw})")
    if reply == "bad-op":
        ctx.mismatch("kd_c05 request", dict(kind="model", expr=text), reply, "")
        return
    f = dict(x.split("=", 1) for x in reply.split(";"))
    case = dict(kind="model", expr=text, bindings=[[n, klit(from_py(v)), how] for n, v, how in binds])
    # IR
    real_ir = "none" if ir is None else ir_wire(ir, "hex")
    if f["ir"] != real_ir:
        ctx.mismatch("Klong.C05.astToIR vs compiler._ast_to_ir", case, f["ir"], real_ir)
        return
    comp = compile_expr(ast_, k)
    if (comp is None) != (f["compiled"] == "notcompiled"):
        ctx.mismatch("Klong.C05.compile vs compiler.compile_expr (compiled or not)", case, f["compiled"],
                     "None" if comp is None else "compiled")
        return
    # interpreter value
    interp = pair._run(pair.B, text, True)
    mi = f["interp"]
    if mi == "unmod":
        ctx.bump("model:outside(interp)")
    else:
        mv = ("U",) if mi == "raised" else Pair.obs(from_wire(mi))
        if not veq(mv, interp, rtol=1e-9):
            if big_ints(interp) or big_ints(mv) or not domain_ok(G, e, pair):
                ctx.bump("model:outside(int64)")
            else:
                ctx.mismatch("Klong.C05.Interp.eval vs interpreter (compile_expr stubbed)", case, show_obs(mv), show_obs(interp))
                return
        ctx.bump("model:interp-agree")
    if comp is not None:
        fn, var_syms = comp
        prov = k._backend
        params = ",".join(p[2:] for p in prov._collect_params(ir))
        if f["params"] != params or f["syms"] != ",".join(str(s) for s in var_syms):
            ctx.mismatch("Klong.C05.collect / refs vs _collect_params / var_syms", case,
                         f"{f['params']} / {f['syms']}", f"{params} / {','.join(str(s) for s in var_syms)}")
            return
        try:
            with np.errstate(all="ignore"):
                rv = Pair.obs(canon(fn(*[k._context[s] for s in var_syms])))
            raised = False
        except Exception:
            rv, raised = ("U",), True
        mc = f["compiled"]
        if mc == "unmod":
            ctx.bump("model:outside(compiled)")
        elif mc == "raised":
            if not raised:
                if not domain_ok(G, e, pair):
                    ctx.bump("model:outside(int64)")
                else:
                    ctx.mismatch("Klong.C05.PyExpr.eval vs compiled callable (model raises)", case, "raised", show_obs(rv))
                    return
            ctx.bump("model:compiled-raises")
        else:
            mv = Pair.obs(from_wire(mc))
            if raised or not veq(mv, rv, rtol=1e-9):
                if (not raised and (big_ints(rv) or big_ints(mv))) or not domain_ok(G, e, pair):
                    ctx.bump("model:outside(int64)")
                else:
                    ctx.mismatch("Klong.C05.PyExpr.eval vs compiled callable", case, show_obs(mv),
                                 "raised" if raised else show_obs(rv))
                    return
            ctx.bump("model:compiled-agree")
        ctx.bump("model:adm" if f["adm"] == "1" else "model:not-adm")
    else:
        ctx.bump("model:not-compiled")
    ctx.count(("model", text, repr(binds)), nontrivial=depth(e) >= 1)


# =========================================================================== witnesses of the repaired defects

WITNESSES = [
    dict(id="scan-rank2", binds=[("a", [[1, 2], [3, 4]], "text")], expr=("s", "+", ("v", "a"))),
    dict(id="scan-atom", binds=[("a", 5, "text")], expr=("s", "+", ("v", "a"))),
    dict(id="reduce-empty", binds=[("a", [], "text")], expr=("r", "+", ("v", "a"))),
    dict(id="reduce-empty-times", binds=[("a", [], "text")], expr=("r", "*", ("v", "a"))),
    dict(id="power-kind", binds=[("a", 4, "text")], expr=("b", "^", ("v", "a"), ("l", 0.5))),
    dict(id="power-kind-vector", binds=[("a", [0.0, 2.0], "text")], expr=("b", "^", ("v", "a"), ("l", 2))),
    dict(id="divide-array-scalar-zero", binds=[("a", [0, 0], "text")], expr=("b", "%", ("l", 4), ("r", "+", ("v", "a")))),
    dict(id="compare-nested", binds=[("a", [1, [2]], "text")], expr=("b", "=", ("v", "a"), ("l", 0))),
    dict(id="min-over-nested", binds=[("a", [1, [2]], "text")], expr=("r", "&", ("v", "a"))),
    dict(id="max-over-nested", binds=[("a", [1, [2]], "text")], expr=("r", "|", ("v", "a"))),
    dict(id="negate-stacking-object-array", binds=[("a", [[], [1]], "text")],
         expr=("b", "-", ("b", "-", ("l", 2), ("b", "*", ("l", 3), ("v", "a"))), ("n", "-", ("s", "*", ("v", "a"))))),
]


# =========================================================================== entry

def tables_or_fallback(ctx):
    """the regenerated tables; when the translator does not recognise the code any more (already reported as
    a broken tie by extract), the operator sets are read from the imported module so that the oracle still runs"""
    x = getattr(ctx, "_c05_tables", None)
    if x is not None:
        return x
    try:
        return extract_all()
    except Exception as e:
        if not any(b.startswith("translator:") for b in ctx.broken):
            ctx.broken.append(f"translator: {type(e).__name__}: {e}")
        import klongpy.compiler as kc
        return dict(compiler=dict(arith=sorted(getattr(kc, "_ARITH_OPS", {"+", "-", "*", "%", "^"})),
                                  cmp=sorted(getattr(kc, "_CMP_OPS", {"<", "=", ">"})),
                                  rs=sorted(getattr(kc, "_REDUCE_SCAN_OPS", {"+", "*", "|", "&"})),
                                  negate="-", reduce_adv="/", scan_adv="\\"))


def run(ctx):
    quick = ctx.tier == "quick"
    x = tables_or_fallback(ctx)
    G = Grammar(x)
    G._arith, G._cmp = x["compiler"]["arith"], x["compiler"]["cmp"]
    drv = Driver("c05") if getattr(ctx, "driver_ok", True) else None
    ctx.rule = ("expressions of the compilable grammar (operators taken from the regenerated admission sets, plus "
                "never-compiled control verbs) over variables a,b and numeric literals; exhaustive to depth 1, seeded "
                "samples of depth 2 (quick) and depth 3 (thorough); each in four positions (top level, function body, "
                "lambda parameters, operand of `,`; literal-kind twins also as named functions) under a history of 2-3 bindings drawn from the universe (ints, "
                "reals, vectors, matrices, rank 3, nested, empty; rebinding changes type/shape); both backends. "
                "distinct = distinct (backend, position, program, bindings, history step); non-trivial = depth >= 1")
    ctx.assumptions += [
        "integers stay inside int64 / float64's exact range (Python integers in generated code are unbounded, numpy's "
        "wrap, Power goes through float64): cases in which a sub-expression value reaches 2^53 are counted as "
        "outside-domain, not compared",
        "torch: float32 arithmetic of the torch interpreter vs Python floats in generated code compared within 2e-5 relative; "
        "1e100 / 1e-7 are not in the torch universe",
        "values nested deeper than one level of raggedness are outside the Lean model (still run through the two-interpreter oracle)",
        "reals are compared within 1e-9 relative on numpy: np.add.reduce(x, initial=None) in generated code and the "
        "interpreter's np.add.reduce(x) may order the additions of a real vector differently (last-ulp differences)",
        "a::9223372036854775807; a+1 is a Python big integer compiled and an int64 wrap-around interpreted: outside Adm "
        "(int64 overflow), counted as outside-domain",
    ]
    try:
        provs = check_codegen(ctx, G, drv)
        backends = ["numpy"] + (["torch"] if "torch" in provs else [])
        for backend in backends:
            run_backend(ctx, G, drv, backend, quick)
    finally:
        if drv:
            drv.close()


def run_backend(ctx, G, drv, backend, quick):
    rng = ctx.rng
    universe = BIND_NUMPY if backend == "numpy" else BIND_TORCH
    orc = Oracle(ctx, G, backend)

    def rebind_all(binds):
        orc.prev_binds, orc.cur_binds = orc.cur_binds, binds
        for n, v, how in binds:
            orc.pair.bind(n, v, how)

    def draw_binds():
        out = []
        for n in VARS:
            v = rng.choice(universe)
            how = "api" if isinstance(v, (int, float)) and rng.random() < 0.5 else "text"
            out.append((n, v, how))
        return out

    # 1. the witnesses of the repaired defects, in every position
    for w in WITNESSES:
        binds = list(w["binds"]) + [("b", 0, "text")]
        rebind_all(binds)
        for pos in POSITIONS:
            orc.check(w["expr"], pos, binds, 0)
        if backend == "numpy" and drv:
            model_case(ctx, G, drv, orc.pair, w["expr"], binds)

    # 2. exhaustive depth 1 x universe (top level), histories: the same pair is reused throughout,
    #    so every evaluation after the first runs code compiled under earlier bindings
    d1 = [e for e in G.all(1) if depth(e) == 1]
    step = 0
    uni = list(universe)
    n_d1 = len(uni) if not quick else 10
    for i in range(n_d1):
        va = uni[i] if not quick else rng.choice(uni)
        for vb in ([rng.choice(uni)] if quick else rng.sample(uni, 6)):
            binds = [("a", va, "text"), ("b", vb, "text")]
            rebind_all(binds)
            step += 1
            for e in d1:
                if "b" not in evars(e) and vb is not binds[1][1]:
                    continue
                orc.check(e, "top", binds, step)
                if backend == "numpy" and drv and (not quick or rng.random() < 0.25):
                    model_case(ctx, G, drv, orc.pair, e, binds)

    # 3. sampled deeper expressions, four positions, rebinding histories
    n_expr = (300 if quick else 5000) if backend == "numpy" else (80 if quick else 1500)
    maxd = 2 if quick else 3
    for i in range(n_expr):
        d = 2 if (quick or rng.random() < 0.5) else maxd
        e = G.rnd(rng, d)
        nh = rng.choice([2, 3])
        for h in range(nh):
            binds = draw_binds()
            rebind_all(binds)
            step += 1
            for pos in POSITIONS:
                orc.check(e, pos, binds, step)
            if backend == "numpy" and drv:
                model_case(ctx, G, drv, orc.pair, e, binds)
        if i < 3:
            ctx.sample(dict(backend=backend, expr=G.text(e), positions=POSITIONS,
                            last_bindings=[[n, klit(from_py(v))] for n, v, _ in binds]))

    # 5. Each over a one-expression lambda of atomic verbs in x (what an "apply the body to the whole list"
    #    shortcut would compile): a number divided by zero is :undefined, a list divided by zero is inf/nan, so
    #    flat numeric lists with a member that makes a divisor exactly 0 are in the universe; inline lambda,
    #    named function, inside a function body and as a lambda argument; rebinding between evaluations
    each_lists = [[4, 0, 2], [0, 3], [0.0, 2.0], [0, 0], [1, 0.0, 2.5], [1, 2, 3], [0.5, 1.5, 2.5], [5, -3, 2, 7],
                  [-1, 0, 1], [3, 1], [1], [], [[1, 2], [3, 0]], [1, [2]]]
    if backend == "torch":
        each_lists = [v for v in each_lists if v != [1, [2]]] + [[1, [2]]]
    bodies = [("b", "%", ("l", 1), ("v", "x")), ("b", "%", ("v", "x"), ("v", "x")),
              ("b", "%", ("b", "+", ("v", "x"), ("l", 1)), ("v", "x")),
              ("b", "-", ("b", "*", ("v", "x"), ("v", "x")), ("l", 1)), ("b", ">", ("v", "x"), ("l", 0)),
              ("b", "^", ("v", "x"), ("l", 2)), ("n", G.neg, ("v", "x")),
              ("b", "%", ("l", 2.5), ("b", "-", ("v", "x"), ("l", 2))), ("b", "=", ("l", 0), ("b", "%", ("l", 0), ("v", "x")))]
    n_each = (12 if quick else 120) if backend == "numpy" else (6 if quick else 40)
    while len(bodies) < n_each:
        e = G.rnd(rng, rng.choice([1, 2, 2, 3]), vars_=["x"], controls=0.0)
        if "x" in evars(e) and not (ops_of(e) & {"/", "\\"}) and e[0] in "bn" and all(
                k not in "rs" for k in _kinds(e)):
            bodies.append(e)
    for body in bodies:
        bt = G.text(body)
        ops = "".join(sorted(ops_of(body)))
        fname = "e" + hashlib.sha1(bt.encode()).hexdigest()[:10]
        forms = [([], f"{{{bt}}}'(a)"),
                 ([f"{fname}::{{{bt}}}"], f"{fname}'(a)"),
                 ([f"{fname}h::{{{{{bt}}}'(a)}}"], f"{fname}h()"),
                 ([], f"{{{{{bt}}}'x}}(a)"),
                 ([f"{fname}::{{{bt}}}"], f",({fname}'(a))")]
        for va in rng.sample(each_lists, 4 if quick else len(each_lists)):
            binds = [("a", va, "text"), ("b", 0, "text")]
            rebind_all(binds)
            step += 1
            for defs, text in forms:
                orc.check_program(defs, text, binds, f"each[{ops}]({vkind(from_py(va))})", step)

    # 6. mixed integer / real operand pairs of equal length, in both orders, under the reduce / scan / product
    #    shapes a backend might fuse (+/a*b and friends); kinds compared exactly; all positions incl. a named
    #    function called f(v;w) and then f(w;v)
    mixed_pairs = [([1.5, 2.5], [2, 3]), ([0.5, 1.5, 2.5], [1, 2, 3]), ([2.5], [3]), ([1.5, -2.5, 0.5, 3.5], [5, -3, 2, 7]),
                   ([[0.5, 1.5], [2.5, 3.5]], [[1, 2], [3, 4]]), ([1.5, 2.5], 3), (2.5, [2, 3])]
    ab = (("v", "a"), ("v", "b"))
    fused = [("r", "+", ("b", "*",) + ab), ("r", "*", ("b", "+",) + ab), ("r", "+", ("b", "-",) + ab),
             ("r", "|", ("b", "*",) + ab), ("r", "&", ("b", "+",) + ab), ("s", "+", ("b", "*",) + ab),
             ("s", "*", ("b", "+",) + ab), ("b", "*",) + ab, ("b", "+", ("r", "+", ("b", "*",) + ab), ("l", 0)),
             ("r", "+", ("b", "*", ("b", "+", ("v", "a"), ("l", 0)), ("v", "b"))),
             ("r", "+", ("b", "*", ("v", "a"), ("n", G.neg, ("v", "b")))),
             # a verb whose result may be a host (numpy) array or a number rather than a backend array, under the
             # max/min reductions and scans that generated code does with array methods
             ("r", "|", ("b", "^",) + ab), ("r", "&", ("b", "^",) + ab), ("s", "|", ("b", "^",) + ab),
             ("s", "&", ("b", "^",) + ab), ("r", "|", ("b", "^", ("l", 2), ("v", "b"))),
             ("r", "&", ("b", "%",) + ab), ("s", "|", ("b", "%", ("l", 3), ("v", "b"))),
             ("r", "|", ("b", "=",) + ab), ("s", "&", ("b", "<",) + ab), ("r", "+", ("b", "^",) + ab)]
    fused = [e for e in fused if ops_of(e) <= set(G.bin) | set(G.rs) | {G.neg}]
    mixed_pairs += [(2, [1, 2, 3]), ([1, 2, 3], 2), (3, [0.5, 1.5]), (2.5, 2), ([4, 9], [0.5, 0.5])]
    if quick:
        mixed_pairs = mixed_pairs[:2] + mixed_pairs[-5:]
    for w, v in mixed_pairs:
        for first, second in ((((w, v)), ((v, w))) if quick else (((w, v)), ((v, w)), ((w, v)))):
            binds = [("a", first, "text"), ("b", second, "text")]
            rebind_all(binds)
            step += 1
            for e in fused:
                for pos in POSITIONS + ["named"]:
                    orc.check(e, pos, binds, step)
        ctx.bump(f"{backend}:mixed-kind-pairs")

    # 7. wide expressions: 11-14 distinct variables with distinct values in non-commutative chains (left and
    #    right nested Minus / Divide, mixes with Times and Plus), so that any permutation of the operands of the
    #    generated function (its parameters are passed positionally) changes the value
    names = list("abcdefghijklmn")
    n_wide = 8 if quick else 80
    for i in range(n_wide):
        nv = rng.randrange(11, 15)
        vs = names[:nv]
        rng.shuffle(vs) if i % 2 else None
        leaves_ = [("v", v) for v in vs]
        if i % 4 == 0:                               # a-b-c-…  (Klong groups to the right; written explicitly)
            e = leaves_[-1]
            for lf in reversed(leaves_[:-1]):
                e = ("b", "-", lf, e)
        elif i % 4 == 1:                             # ((a-b)-c)-…
            e = leaves_[0]
            for lf in leaves_[1:]:
                e = ("b", "-", e, lf)
        else:                                        # random binary tree over the leaves, non-commutative mix
            pool = list(leaves_)
            while len(pool) > 1:
                j = rng.randrange(len(pool) - 1)
                op = rng.choice(["-", "-", "*", "+", "%"] if i % 4 == 2 else ["-", "+", "*"])
                if op not in G.bin:
                    op = "-"
                pool[j:j + 2] = [("b", op, pool[j], pool[j + 1])]
            e = pool[0]
        kind = i % 3
        vals = ([2 ** k for k in range(nv)] if kind == 0 else
                [k + 1.5 for k in range(nv)] if kind == 1 else
                [[2 ** k, 3 ** k] for k in range(nv)])
        binds = [(n, v, "text") for n, v in zip(names[:nv], vals)]
        rebind_all(binds)
        step += 1
        for pos in POSITIONS + ["named"]:
            orc.check(e, pos, binds, step)
        if backend == "numpy" and drv:
            model_case(ctx, G, drv, orc.pair, e, binds)
        ctx.bump(f"{backend}:wide-expressions")
    rebind_all([("a", 1, "text"), ("b", 2, "text")])

    # 8. real literals that overflow a double (1e400 reads as inf, whose repr is not a Python literal, so the
    #    generated function raises NameError and the call site must fall back), in every position
    big = [("l", float("inf"), "1e400"), ("l", float("inf"), "1e999")]
    over = []
    for lit in big:
        over += [("b", "*", ("v", "a"), lit), ("b", "<", ("v", "a"), lit), ("b", "+", ("v", "a"), lit),
                 ("b", "-", lit, ("v", "a")), ("b", "%", ("v", "a"), lit), ("n", G.neg, ("b", "*", ("v", "b"), lit)),
                 ("r", "+", ("b", "*", ("v", "a"), lit)), ("b", ">", lit, ("b", "+", ("v", "a"), ("v", "b")))]
    over = [e for e in over if ops_of(e) <= set(G.bin) | set(G.rs) | {G.neg}]
    for va in ([2, [1, 2, 3], 0.5] if quick else [2, -3, 0, 0.5, [1, 2, 3], [0.5, 1.5], [[1, 2], [3, 4]], []]):
        binds = [("a", va, "text"), ("b", 3, "text")]
        rebind_all(binds)
        step += 1
        for e in over:
            for pos in POSITIONS + ["named"]:
                orc.check(e, pos, binds, step)
            if backend == "numpy" and drv:
                model_case(ctx, G, drv, orc.pair, e, binds)
        ctx.bump(f"{backend}:overflowing-literals")

    # 9. comparisons (and Match, never compiled) of number-valued variables against arithmetic sub-expressions of
    #    number-valued variables, both operand orders: on torch the interpreter's + - * on two plain numbers give
    #    a 0-d tensor where generated code keeps a Python number, so the comparison primitives see different
    #    representations on the two paths; first evaluated with list bindings, then rebound to numbers
    cmps = [op for op in G._cmp] + ["~"]
    ariths = [op for op in ("+", "-", "*") if op in G.bin]
    va, vb, vc = ("v", "a"), ("v", "b"), ("v", "c")
    fam = []
    for cop in cmps:
        for aop in ariths:
            fam += [("b", cop, vc, ("b", aop, va, vb)), ("b", cop, ("b", aop, va, vb), vc),
                    ("b", cop, va, ("b", aop, vb, ("l", 2))), ("b", cop, ("l", 6), ("b", aop, va, vb))]
        fam += [("b", cop, ("b", "+", va, vb), ("b", "*", va, vb)), ("b", cop, ("n", G.neg, va), ("b", "-", vb, vc))]
    for vals in ([[1, 2, 3], [4, 5, 6], [5, 7, 9]], (2, 3, 5), (6, 3, 2), (1.5, 2.5, 4.0), (3, 1.5, 4.5), (0, 0, 0)):
        binds = [(n, v, "text") for n, v in zip("abc", vals)]
        rebind_all(binds)
        step += 1
        for e in fam:
            for pos in POSITIONS + ["named"]:
                orc.check(e, pos, binds, step)
        ctx.bump(f"{backend}:scalar-comparisons")

    # 4. literal-kind twins: two expressions of the same shape whose literals are equal in value but not in
    #    kind (2 / 2.0, 0 / 0.0, -(1) / -(1.0)), evaluated by ONE interpreter in both orders (a fresh pair per
    #    order), in every position incl. named functions f::{x+1} / g::{x+1.0}; kinds compared exactly
    int_universe = [v for v in universe if from_py(v) is not None and _int_only(v)]
    twins = [("b", "*", ("v", "a"), ("l", 2)), ("b", "+", ("v", "a"), ("l", 1)), ("b", "-", ("v", "a"), ("l", 0)),
             ("b", "+", ("v", "a"), ("n", G.neg, ("l", 1))),
             ("b", "*", ("b", "+", ("v", "a"), ("l", 1)), ("b", "-", ("v", "b"), ("l", 0))),
             ("r", "+", ("b", "*", ("v", "a"), ("l", 1))), ("s", "+", ("b", "+", ("v", "a"), ("l", 0)))]
    n_twin = (30 if quick else 300) if backend == "numpy" else (10 if quick else 80)
    while len(twins) < n_twin:
        e = G.rnd(rng, rng.choice([1, 2, 2, 3]), controls=0.0)
        if has_int_literal(e) and evars(e):
            twins.append(e)
    for e in twins:
        e2 = twin(e, rng)
        if e2 is None:
            continue
        binds = [(n, rng.choice(int_universe), "text") for n in VARS]
        for first, second in ((e, e2), (e2, e)):
            o2 = Oracle(ctx, G, backend)
            for n, v, how in binds:
                o2.pair.bind(n, v, how)
            done = []
            for pos in POSITIONS + ["named"]:
                for x in (first, second):
                    o2.check(x, pos, binds, 0, prelude=list(done))
                    done.append(o2.program(x, pos))
        ctx.bump(f"{backend}:literal-kind-twins")


def replay(ctx, case):
    x = tables_or_fallback(ctx)
    G = Grammar(x)
    G._arith, G._cmp = x["compiler"]["arith"], x["compiler"]["cmp"]
    c = case.get("case", case)
    if c.get("kind") != "oracle":
        run(ctx)
        return
    pair = Pair(c["backend"])
    if c.get("earlier_values"):
        for n, v, how in c["earlier_values"]:
            pair.bind(n, v, how)
        for d in c.get("defs", []):
            pair.define(d)
        pair.both(c["program"])
    for n, v, how in c["values"]:
        pair.bind(n, v, how)
    for pd, pt in c.get("earlier_programs") or []:
        for d in pd:
            pair.define(d)
        pair.both(pt)
    for d in c.get("defs", []):
        pair.define(d)
    a, b = pair.both(c["program"])
    print("replay:", c["program"], "bindings", c["bindings"], "compiled:", show_obs(a), "interpreted:", show_obs(b))
    if not pair.same(a, b):
        ctx.oracle_fail(case.get("key", "replay"), c, f"interpreted: {show_obs(b)}", f"compiled: {show_obs(a)}")
