"""Shared machinery of the klongpy verification checks.

Everything random derives from one PRNG state (VERIF_SEED).  Nothing here is specific
to a property; property modules live next to this file as cNN.py and expose

    THEOREMS : list[str]            fully qualified Lean names of the property theorems
    MODULES  : list[str]            Lean modules to build (Klong.Props.CNN, ...)
    run(ctx) -> None                correspondence + property oracle, filling ctx
    replay(ctx, case) -> None       re-run one recorded case (optional)
"""
import fcntl
import hashlib
import json
import os
import random
import re
import shutil
import subprocess
import sys
import tempfile
import time
from pathlib import Path

ROOT = Path(__file__).resolve().parent.parent
LEAN = ROOT / "lean"
REPO = Path(os.environ.get("VERIF_REPO", "/repo"))
EVIDENCE = ROOT / "evidence"
REPLAYS = ROOT / "replays"
CORPUS = ROOT / "corpus"
BIN = LEAN / ".lake" / "build" / "bin"
ALLOWED_AXIOMS = {"propext", "Classical.choice", "Quot.sound"}
FORBIDDEN = re.compile(
    r"\bsorry\b|\badmit\b|^\s*axiom\s|native_decide|bv_decide|implemented_by|\bunsafe\s|maxHeartbeats\s+0")

TRUSTED_BASE = [
    "Lean 4.33 kernel + elaborator (axioms audited per theorem: subset of propext, Classical.choice, Quot.sound)",
    "Lean compiler/runtime for the kdriver executable (correspondence and search only, never a theorem)",
    "vlib correspondence harness (canonicaliser, generators, interposers) and vlib/extract.py translator",
    "CPython, numpy and the third-party libraries named in the property's DESIGN section are modelled, not verified",
]


class Infra(Exception):
    """infrastructure failure: exit 2, never a VIOLATION"""


# --------------------------------------------------------------------------- build

class _Lock:
    def __init__(self, path):
        self.path = path

    def __enter__(self):
        self.path.parent.mkdir(parents=True, exist_ok=True)
        self.f = open(self.path, "w")
        fcntl.flock(self.f, fcntl.LOCK_EX)
        return self

    def __exit__(self, *a):
        fcntl.flock(self.f, fcntl.LOCK_UN)
        self.f.close()


def _env():
    e = dict(os.environ)
    e.pop("LEAN_PATH", None)
    return e


def lake_build(targets, timeout=3000):
    """Build the given lake targets from the files on disk. Returns (ok, log)."""
    with _Lock(LEAN / ".lake" / "verif.lock"):
        p = subprocess.run(["lake", "build", *targets], cwd=LEAN, env=_env(),
                           stdout=subprocess.PIPE, stderr=subprocess.STDOUT, text=True,
                           timeout=timeout)
    return p.returncode == 0, p.stdout


def lean_run(source, timeout=1200):
    """Elaborate a scratch Lean file against the built library. Returns (ok, output)."""
    d = LEAN / ".lake" / "scratch"
    d.mkdir(parents=True, exist_ok=True)
    fd, path = tempfile.mkstemp(suffix=".lean", dir=d)
    try:
        with os.fdopen(fd, "w") as f:
            f.write(source)
        p = subprocess.run(["lake", "env", "lean", path], cwd=LEAN, env=_env(),
                           stdout=subprocess.PIPE, stderr=subprocess.STDOUT, text=True,
                           timeout=timeout)
        return p.returncode == 0, p.stdout
    finally:
        try:
            os.unlink(path)
        except OSError:
            pass


_AX = re.compile(r"'([^']+)' (?:depends on axioms: \[([^\]]*)\]|does not depend on any axioms)")


def audit(modules, theorems):
    """#print axioms for every theorem. Returns (results, problems)."""
    src = "".join(f"import {m}\n" for m in modules)
    src += "".join(f"#print axioms {t}\n" for t in theorems)
    ok, out = lean_run(src)
    flat = " ".join(out.split())
    res = {}
    for m in _AX.finditer(flat):
        axs = [a.strip() for a in (m.group(2) or "").split(",") if a.strip()]
        res[m.group(1)] = axs
    problems = []
    for t in theorems:
        if t not in res:
            problems.append(f"{t}: not found / does not elaborate")
        else:
            bad = [a for a in res[t] if a not in ALLOWED_AXIOMS]
            if bad:
                problems.append(f"{t}: depends on {bad}")
    if not ok and not problems:
        problems.append("audit file failed to elaborate: " + out[-400:])
    return res, problems


def _strip_comments(text):
    text = re.sub(r"/-.*?-/", lambda m: "\n" * m.group(0).count("\n"), text, flags=re.S)
    return "\n".join(line.split("--")[0] for line in text.split("\n"))


def grep_forbidden(prop=None, modules=None):
    """forbidden constructs in the Lean sources of one property (its own Model/Props/Generated/
    Drivers files plus the shared Wire/Val models); all files when prop is None"""
    hits = []
    files = list((LEAN / "Klong").rglob("*.lean")) + list((LEAN / "Drivers").rglob("*.lean"))
    if prop:
        files = [f for f in files if f.name.startswith(prop) or f.name in ("Wire.lean", "Val.lean")]
        if modules is not None:   # proof files only when they are among the audited modules
            files = [f for f in files if f.parent.name != "Props" or f"Klong.Props.{f.stem}" in modules]
    for f in files:
        for i, line in enumerate(_strip_comments(f.read_text()).split("\n"), 1):
            if FORBIDDEN.search(line):
                hits.append(f"{f.relative_to(LEAN)}:{i}: {line.strip()}")
    return hits


# --------------------------------------------------------------------------- driver

class Driver:
    """Line-protocol client of the compiled Lean model driver."""

    def __init__(self, model):
        exe = BIN / f"kd_{model}"
        if not exe.exists():
            raise Infra(f"{exe} not built")
        self.model = model
        self.p = subprocess.Popen([str(exe)], stdin=subprocess.PIPE,
                                  stdout=subprocess.PIPE, text=True, bufsize=1)
        self.lines = 0

    def ask(self, line):
        assert "\n" not in line
        self.p.stdin.write(line + "\n")
        self.p.stdin.flush()
        r = self.p.stdout.readline()
        if not r:
            raise Infra(f"kdriver {self.model} died on: {line[:200]}")
        self.lines += 1
        return r.rstrip("\n")

    def ask_many(self, lines):
        """pipelined: a writer thread feeds the requests while this thread reads the replies
        (no deadlock however large requests and replies are)"""
        import threading
        for l in lines:
            assert "\n" not in l

        def feed():
            try:
                for k in range(0, len(lines), 500):
                    self.p.stdin.write("\n".join(lines[k:k + 500]) + "\n")
                    self.p.stdin.flush()
            except Exception:
                pass
        t = threading.Thread(target=feed, daemon=True)
        t.start()
        out = []
        for _ in lines:
            r = self.p.stdout.readline()
            if not r:
                raise Infra(f"kdriver {self.model} died")
            out.append(r.rstrip("\n"))
        t.join()
        self.lines += len(lines)
        return out

    def close(self):
        try:
            self.p.stdin.close()
            self.p.wait(timeout=5)
        except Exception:
            self.p.kill()


def fields(reply):
    """parse `word k=v k=v` replies"""
    ws = reply.split(" ")
    d = {"_": ws[0] if ws else ""}
    for w in ws[1:]:
        if "=" in w:
            k, v = w.split("=", 1)
            d[k] = v
    return d


# --------------------------------------------------------------------------- findings

def load_findings(prop):
    """KNOWN_FINDINGS.json plus per-property files findings.d/<id>.json (same shape)"""
    out = []
    files = [ROOT / "KNOWN_FINDINGS.json"] + sorted((ROOT / "findings.d").glob("*.json"))
    for p in files:
        if p.exists():
            data = json.loads(p.read_text())
            out += [e for e in data.get("findings", []) if e.get("property") == prop]
    return out


# --------------------------------------------------------------------------- run context

class Ctx:
    def __init__(self, prop, tier, seed):
        self.prop = prop
        self.tier = tier
        self.seed = seed
        self.rng = random.Random(f"{prop}:{seed}")
        self.t0 = time.time()
        self.evaluations = 0
        self._distinct = set()
        self.samples = []
        self.hist = {}
        self.rule = ""
        self.extra = {}
        self.assumptions = []
        self.partial = []
        # verdict inputs
        self.oracle_failures = []      # property fails on the real code: dict(key, case, expected, observed)
        self.mismatches = []           # model and implementation disagree
        self.broken = []               # proof obligations / translator failures (strings)
        self.obligations = 0
        self.discharged = 0
        self.known_hits = {}
        self.findings = load_findings(prop)
        self.scratch = []

    # -- bookkeeping
    def count(self, case_key, nontrivial=True):
        self.evaluations += 1
        r = repr(case_key)
        self.last_case = r[:400]
        if nontrivial:
            self._distinct.add(hashlib.sha1(r.encode()).digest()[:8])

    def bump(self, name, k=1):
        self.hist[name] = self.hist.get(name, 0) + k

    def sample(self, case, limit=6):
        if len(self.samples) < limit:
            self.samples.append(case)

    def mkdtemp(self):
        base = "/dev/shm" if os.path.isdir("/dev/shm") else None
        d = tempfile.mkdtemp(prefix=f"verif_{self.prop}_", dir=base)
        self.scratch.append(d)
        return d

    def cleanup(self):
        for d in self.scratch:
            shutil.rmtree(d, ignore_errors=True)

    # -- failures
    def known(self, key):
        for e in self.findings:
            if e.get("status") == "known" and e.get("matcher", {}).get("key") == key:
                return e
        return None

    def oracle_fail(self, key, case, expected, observed, what=""):
        """the property's own oracle fails on the real code"""
        e = self.known(key)
        if e is not None:
            self.known_hits.setdefault(e["id"], e)
            return
        if len(self.oracle_failures) < 50:
            self.oracle_failures.append(dict(key=key, case=case, expected=expected,
                                             observed=observed, what=what))

    def mismatch(self, where, case, model, impl):
        if len(self.mismatches) < 50:
            self.mismatches.append(dict(correspondence=where, case=case, model=model, impl=impl))

    def obligation(self, name, ok, detail=""):
        self.obligations += 1
        if ok:
            self.discharged += 1
        else:
            self.broken.append(f"{name}: {detail}"[:2000])


def write_replay(prop, obj):
    d = REPLAYS / prop
    d.mkdir(parents=True, exist_ok=True)
    blob = json.dumps(obj, sort_keys=True, default=str, indent=1)
    h = hashlib.sha1(blob.encode()).hexdigest()[:12]
    p = d / f"{h}.json"
    p.write_text(blob)
    return p.relative_to(ROOT)


def write_evidence(ctx, checker_cmd, violations):
    EVIDENCE.mkdir(exist_ok=True)
    cov = dict(
        obligations=ctx.obligations,
        discharged=ctx.discharged,
        checker_cmd=checker_cmd,
        trusted_base=TRUSTED_BASE,
        evaluations=ctx.evaluations,
        distinct_nontrivial=len(ctx._distinct),
        rule=ctx.rule,
        samples=ctx.samples,
        histogram=ctx.hist,
        partial=ctx.partial,
        correspondence_mismatches=len(ctx.mismatches),
        known_findings_hit=sorted(ctx.known_hits),
        broken_obligations=ctx.broken,
    )
    cov.update(ctx.extra)
    ev = dict(property_id=ctx.prop, tier=ctx.tier, seed=ctx.seed, level="proof",
              coverage=cov, assumptions=ctx.assumptions,
              wall_s=round(time.time() - ctx.t0, 2), violations=violations)
    (EVIDENCE / f"{ctx.prop}.json").write_text(json.dumps(ev, indent=1, default=str))


def log(*a):
    print(*a, file=sys.stderr, flush=True)
