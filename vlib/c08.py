"""C08 — numeric programs mean the same under the NumPy and PyTorch backends (partial).

Oracle (needs no model): every generated program of the numeric core grammar is run under
REAL KlongInterpreter(backend='numpy') and KlongInterpreter(backend='torch', device='cpu');
whenever both return, canonical values must have the same shape and integer/real kind and
equal elements (integers exactly, reals to 1e-5 relative), and the kg_write texts must read
the same (same bracket structure, same integer tokens, real tokens to 1e-5).
Correspondence: the same program on the Lean model `Klong.C08.den` under the numpy provider
and the torch facade (over the reference library NP); integer results compared exactly,
real results by kind and shape.  Micro-correspondence: every primitive of the abstract
tensor library `Lib` against real torch AND real numpy on random integer tensors (this is
the empirical side of the theorems' hypothesis `Agree T NP`).
Translator: the expression compiler's operator sets and both backends' `_ir_to_source`
tables are re-read from the Python source into lean/Klong/Generated/C08Tables.lean on
every run; `compilable_accepted_by_both` is re-checked by the kernel over them.
"""
import ast
import json
import math
import re

from . import common
from . import universe as U
from .common import Driver

CLAIM = dict(
    text="Lean 4 theorems over the torch backend's NumPy facade written against an abstract tensor library T "
         "(hypothesis: T's primitives compute what the reference library NP does on integer tensors): "
         "TorchUfunc call / reduce / accumulate, minimum/maximum, comparisons, floor_to_int and power agree with "
         "numpy's ufunc semantics on well-formed integer tensors of every rank, hence every program of the numeric "
         "core grammar denotes the same value and kind under both providers; every IR the expression compiler emits "
         "is accepted by both code generators (kernel-checked over tables regenerated from the source). Tied to "
         "klongpy by running seeded programs x bindings under the real numpy and torch interpreters, on the model, "
         "and every library primitive against real torch and numpy.",
    note="partial: float32 rounding, torch kernels and dtype promotion inside torch are not modelled - agreement on "
         "reals is established by the comparison only (1e-5 relative); integers stay below 2^31; trusted: Lean kernel, "
         "harness, translator, numpy, torch, CPython",
    technique="Lean 4 proof over a hand-written facade model with an abstract library hypothesis, regenerated "
              "code-generation tables (decide), differential search numpy vs torch vs model",
    design="7/C08")

MODULES = ["Klong.Props.C08"]
THEOREMS = [
    "Klong.C08.facade_ufunc_agrees",
    "Klong.C08.facade_reduce_agrees",
    "Klong.C08.facade_accumulate_agrees",
    "Klong.C08.floor_agrees",
    "Klong.C08.power_agrees",
    "Klong.C08.provider_agrees",
    "Klong.C08.program_agrees",
    "Klong.C08.divide_loop_is_fold",
    "Klong.C08.pinned_reduce_sub_disagrees",
    "Klong.C08.pinned_reduce_add_disagrees",
    "Klong.C08.pinned_reduce_rank1_partial",
    "Klong.C08.pinned_floor_disagrees",
    "Klong.C08.pinned_floor_partial",
    "Klong.C08.scan_divide_single_row_kind_differs",
    "Klong.C08.compilable_accepted_by_both",
    "Klong.C08.torch_generates_code_for_every_emittable",
]

# --------------------------------------------------------------------------- grammar

DY = ['+', '-', '*', '%', '^', '&', '|', '=', '<', '>']
ADV = ['+', '-', '*', '%', '&', '|']
OPNAME = {'+': 'add', '-': 'sub', '*': 'mul', '%': 'div', '^': 'pow', '&': 'min', '|': 'max',
          '=': 'eq', '<': 'lt', '>': 'gt'}
X = ('var', 'x')
EACH = {
    '-': ('neg', X),
    '_': ('floor', X),
    '{x+1}': ('dy', '+', X, ('lit', U.I(1))),
    '{x*x}': ('dy', '*', X, X),
    '{x&2}': ('dy', '&', X, ('lit', U.I(2))),
    '{2-x}': ('dy', '-', ('lit', U.I(2)), X),
    '{+/x}': ('over', '+', X),
    '{|x}': ('rev', X),
}
# functions whose result KIND depends on the member: the collected list mixes integer and real
# members (kg_asarray of separately computed tensors).  Conditionals are not in the Lean grammar:
# these programs are judged by the oracle only.
EACH_MIXED = ['{:[x=3;x%2;x]}', '{:[x>2;x;x%2]}', '{:[x=2;_x%2;x%2]}', '{:[x=3;1.5;x]}', '{:[x<2;x;:[x>3;x;x%2]]}']
VARS = {'a': 0, 'b': 1, 'c': 2, 'x': 3}


class Unmodelled(Exception):
    pass

LEAVES = ([('var', 'a'), ('var', 'b'), ('var', 'c')]
          + [('lit', U.I(n)) for n in (0, 1, 2, -1, 3)]
          + [('lit', U.R(x)) for x in (0.5, 2.5, -1.5)]
          + [('lit', U.L())])              # the literal [] (a float-kind empty tensor under torch)
IDX = [('lit', U.I(0)), ('lit', U.I(1)), ('lit', U.I(-1)),
       ('lit', U.from_py([0, 1])), ('lit', U.from_py([1, 0, 1]))]
TAKES = [1, 2, -1, -2, 3, 0]
DROPS = [1, 2, -1, -2, 0, 4, -4]

BIND = dict(
    int_scalar=[U.I(n) for n in (0, 1, 2, 3, 5, -3, 7, 17)],
    real_scalar=[U.R(x) for x in (0.5, 1.5, -2.5, 0.25, 3.0)],
    int_vector=[U.from_py(v) for v in ([1, 2, 3], [5, -3, 2], [0, 1, 0], [7, 7, 1], [3, 1], [4], [2, 9, 4, 1])],
    real_vector=[U.from_py(v) for v in ([0.5, 1.5, 2.5], [1.5, -2.5, 0.25], [2.0, 4.0, 0.5])],
    int_matrix=[U.from_py(v) for v in ([[1, 2], [3, 4]], [[1, 2, 3], [4, 5, 6]], [[5, -3, 2], [0, 1, 7], [2, 2, 1]],
                                       [[1], [2], [3]], [[1, 2, 3]])],
    real_matrix=[U.from_py(v) for v in ([[0.5, 1.5], [2.5, 3.5]], [[1.5, -2.5, 0.25], [4.0, 0.5, 2.0]])],
    int_rank3=[U.from_py([[[1, 2], [3, 4]], [[5, 6], [7, 8]]])],
    empty=[U.L()],
)
BKINDS = list(BIND)


def src(e):
    """fully parenthesised Klong text"""
    k = e[0]
    if k == 'var':
        return e[1]
    if k == 'lit':
        return U.klit(e[1])
    if k == 'dy':
        return f"({src(e[2])}){e[1]}({src(e[3])})"
    if k == 'neg':
        return f"-({src(e[1])})"
    if k == 'floor':
        return f"_({src(e[1])})"
    if k == 'over':
        return f"{e[1]}/({src(e[2])})"
    if k == 'scan':
        return f"{e[1]}\\({src(e[2])})"
    if k == 'each':
        return f"{e[1]}'({src(e[2])})"
    if k == 'at':
        return f"({src(e[1])})@({src(e[2])})"
    if k == 'take':
        return f"({e[1]})#({src(e[2])})"
    if k == 'drop':
        return f"({e[1]})_({src(e[2])})"
    if k == 'rev':
        return f"|({src(e[1])})"
    if k == 'join':
        return f"({src(e[1])}),({src(e[2])})"
    raise ValueError(e)


def wire(e):
    """the same expression for the Lean model (variables stay variables)"""
    k = e[0]
    if k == 'var':
        return f"(var {VARS[e[1]]})"
    if k == 'lit':
        v = e[1]
        if v[0] == 'i':
            # `(-1)` is Negate applied to 1: a 0-d tensor / numpy scalar, not a Python int
            return f"(lit {v[1]})" if v[1] >= 0 else f"(neg (lit {-v[1]}))"
        if v[0] == 'r':
            return "(rlit)"
        return f"(tlit {U.to_wire(v)})"
    if k == 'dy':
        return f"(dy {OPNAME[e[1]]} {wire(e[2])} {wire(e[3])})"
    if k in ('neg', 'floor', 'rev'):
        return f"({k} {wire(e[1])})"
    if k in ('over', 'scan'):
        return f"({k} {OPNAME[e[1]]} {wire(e[2])})"
    if k == 'each':
        if e[1] not in EACH:
            raise Unmodelled(e[1])
        return f"(each {wire(EACH[e[1]])} {wire(e[2])})"
    if k in ('take', 'drop'):
        return f"({k} {e[1]} {wire(e[2])})"
    if k in ('at', 'join'):
        return f"({k} {wire(e[1])} {wire(e[2])})"
    raise ValueError(e)


def children(e):
    k = e[0]
    if k in ('var', 'lit'):
        return []
    if k == 'dy':
        return [e[2], e[3]]
    if k in ('neg', 'floor', 'rev'):
        return [e[1]]
    if k in ('over', 'scan', 'each', 'take', 'drop'):
        return [e[2]]
    return [e[1], e[2]]


def rebuild(e, kids):
    k = e[0]
    if k == 'dy':
        return (k, e[1], kids[0], kids[1])
    if k in ('neg', 'floor', 'rev'):
        return (k, kids[0])
    if k in ('over', 'scan', 'each', 'take', 'drop'):
        return (k, e[1], kids[0])
    if k in ('at', 'join'):
        return (k, kids[0], kids[1])
    return e


def subst(e, env):
    if e[0] == 'var':
        return ('lit', env[e[1]])
    return rebuild(e, [subst(c, env) for c in children(e)])


def node_name(e):
    k = e[0]
    if k in ('dy', 'over', 'scan', 'each', 'take', 'drop'):
        return f"{k}:{e[1]}"
    return k


def to_json(e):
    return json.loads(json.dumps(e))


def _val_from_json(j):
    if j[0] == 'L':
        return ('L', [_val_from_json(x) for x in j[1]])
    return (j[0], j[1])


def from_json(j):
    k = j[0]
    if k == 'var':
        return ('var', j[1])
    if k == 'lit':
        return ('lit', _val_from_json(j[1]))
    if k == 'dy':
        return ('dy', j[1], from_json(j[2]), from_json(j[3]))
    if k in ('neg', 'floor', 'rev'):
        return (k, from_json(j[1]))
    if k in ('over', 'scan', 'each', 'take', 'drop'):
        return (k, j[1], from_json(j[2]))
    if k in ('at', 'join'):
        return (k, from_json(j[1]), from_json(j[2]))
    raise ValueError(j)


def gen(rng, d):
    if d == 0 or rng.random() < 0.12:
        return rng.choice(LEAVES)
    r = rng.random()
    if r < 0.40:
        return ('dy', rng.choice(DY), gen(rng, d - 1), gen(rng, d - 1))
    if r < 0.46:
        return ('neg', gen(rng, d - 1))
    if r < 0.52:
        return ('floor', gen(rng, d - 1))
    if r < 0.64:
        return ('over', rng.choice(ADV), gen(rng, d - 1))
    if r < 0.76:
        return ('scan', rng.choice(ADV), gen(rng, d - 1))
    if r < 0.82:
        return ('each', rng.choice(list(EACH) + EACH_MIXED), gen(rng, d - 1))
    if r < 0.87:
        return ('at', gen(rng, d - 1), rng.choice(IDX))
    if r < 0.90:
        return ('take', rng.choice(TAKES), gen(rng, d - 1))
    if r < 0.93:
        return ('drop', rng.choice(DROPS), gen(rng, d - 1))
    if r < 0.96:
        return ('rev', gen(rng, d - 1))
    return ('join', gen(rng, d - 1), gen(rng, d - 1))


def depth1_programs():
    """every operator once over the variables (thorough tier: enumerated x all bindings)"""
    a, b = ('var', 'a'), ('var', 'b')
    out = [('dy', op, a, b) for op in DY]
    out += [('neg', a), ('floor', a), ('rev', a), ('join', a, b)]
    out += [('over', op, a) for op in ADV] + [('scan', op, a) for op in ADV]
    out += [('each', f, a) for f in EACH]
    out += [('at', a, i) for i in IDX]
    out += [('take', n, a) for n in TAKES] + [('drop', n, a) for n in DROPS]
    return out


def compilable_over_scan_programs():
    """f/ and f\\ applied DIRECTLY to an expression the compiler handles (a variable, a dyad of
    variables / a literal, Negate) — the shapes for which both backends generate code"""
    a, b = ('var', 'a'), ('var', 'b')
    inner = [a, ('neg', a)]
    for op in DY:
        inner += [('dy', op, a, b), ('dy', op, a, ('lit', U.I(3))), ('dy', op, ('lit', U.R(2.5)), a)]
    for adv in ('over', 'scan'):
        for op in ADV:
            for i in inner:
                yield (adv, op, i)


# array operands for the compiled shapes: every rank, both kinds
ARRAY_BINDINGS = [
    (U.from_py([[1, 2, 3], [4, 5, 6]]), U.from_py([[3, 3, 3], [1, 9, 2]])),
    (U.from_py([[0.5, 1.5], [2.5, 3.5], [4.0, 0.25]]), U.from_py([[1.5, 1.5], [2.0, 0.5], [4.0, 8.0]])),
    (U.from_py([[[1, 2], [3, 4]], [[5, 6], [7, 8]]]), U.from_py([[[2, 2], [2, 2]], [[6, 6], [6, 6]]])),
    (U.from_py([2, 9, 4, 1]), U.from_py([3, 3, 5, 1])),
    (U.from_py([[5, -3, 2], [4, 1, 7], [2, 2, 1]]), U.I(2)),
]

# long lists of large members: every member and every partial result is an ordinary number
# (< 2^31, within float32 range) but products / sums of the members are not
LARGE_BINDINGS = [
    U.from_py([2000000000] + [1000] * 7),
    U.from_py([1e20] + [1e6] * 7),
    U.from_py([[2000000000, 7], [1000, 1], [1000, 1], [1000, 1], [1000, 1], [1000, 1], [1000, 1], [1000, 1]]),
    U.from_py([1000] * 8),
    U.from_py([65536.0, 65536.0, 65536.0, 65536.0, 65536.0, 65536.0, 65536.0, 65536.0, 0.5]),
    U.from_py([1000000007, 999999937, 998244353, 3]),
]


def deterministic_classes(S):
    """classes of programs that every run evaluates, whatever the seed"""
    z = U.I(0)
    # (1) compiled shapes x array operands, as variables and as literals
    for va, vb in ARRAY_BINDINGS:
        env = dict(a=va, b=vb, c=z)
        for e in compilable_over_scan_programs():
            S.one(e, env, 'var', label="compilable")
            S.one(e, env, 'inline', label="compilable")
    # (2) every reduction / scan / monad over long lists of large members
    a = ('var', 'a')
    progs = [(adv, op, a) for adv in ('over', 'scan') for op in ADV] + [('neg', a), ('floor', a), ('rev', a)] \
        + [('each', f, a) for f in EACH] + [('dy', op, a, a) for op in '+-*%&|=<>']
    for v in LARGE_BINDINGS:
        env = dict(a=v, b=z, c=z)
        for e in progs:
            S.one(e, env, 'inline', label="large-operands")
            S.one(e, env, 'var', label="large-operands")
    # (3) lists collected member by member whose members differ in kind
    mixed = [('each', f, a) for f in EACH_MIXED] \
        + [(k, op, ('each', f, a)) for f in EACH_MIXED for k, op in (('over', '+'), ('scan', '+'), ('over', '|'))] \
        + [('rev', ('each', f, a)) for f in EACH_MIXED] \
        + [('at', ('each', f, a), ('lit', U.from_py([0, 2, 3]))) for f in EACH_MIXED]
    for v in ([1, 2, 3, 4], [4, 3, 2, 1], [3, 1, 3], [1, 3], [3], [2, 3, 4, 5, 1], [0, 1, 2, 3, 4, 5]):
        env = dict(a=U.from_py(v), b=z, c=z)
        for e in mixed:
            S.one(e, env, 'inline', label="mixed-kind-members")
            S.one(e, env, 'var', label="mixed-kind-members")


def gen_env(rng):
    env = {}
    for n in 'abc':
        env[n] = rng.choice(BIND[rng.choice(BKINDS)])
    return env


# --------------------------------------------------------------------------- the two real interpreters

class Pair:
    def __init__(self):
        from klongpy import KlongInterpreter
        from klongpy.core import kg_write
        self.kg_write = kg_write
        self.kn = KlongInterpreter(backend='numpy')
        self.kt = KlongInterpreter(backend='torch', device='cpu')
        self.bound = None

    def bind(self, env):
        key = tuple(sorted((n, U.to_wire(v)) for n, v in env.items()))
        if key == self.bound:
            return
        for n, v in env.items():
            t = f"{n}::{U.klit(v)}"
            self.kn(t)
            self.kt(t)
        self.bound = key

    def run1(self, k, text):
        try:
            r = k(text)
            return ('ok', U.canon(r), self.kg_write(r, k._backend))
        except Exception as e:  # an error is an outcome, not a crash of the harness
            return ('err', type(e).__name__, str(e)[:100])

    def run(self, text):
        return self.run1(self.kn, text), self.run1(self.kt, text)


# --------------------------------------------------------------------------- the property's equality

RTOL = 1e-5


def leaves(v):
    if v[0] == 'L':
        for x in v[1]:
            yield from leaves(x)
    else:
        yield v


def vshape(v):
    """shape of a rectangular numeric value, None if ragged / non-numeric"""
    if v[0] in 'ir':
        return ()
    if v[0] != 'L':
        return None
    subs = [vshape(x) for x in v[1]]
    if any(s is None for s in subs) or len(set(subs)) > 1:
        return None
    return (len(subs),) + (subs[0] if subs else ())


def vkind(v):
    ks = {x[0] for x in leaves(v)}
    if ks <= {'i'}:
        return 'int' if ks else 'empty'
    if ks <= {'r'}:
        return 'real'
    return 'mixed:' + ''.join(sorted(ks))


def num_close(x, y, atol=0.0):
    if isinstance(x, float) and math.isnan(x) or isinstance(y, float) and math.isnan(y):
        return isinstance(x, float) and isinstance(y, float) and math.isnan(x) and math.isnan(y)
    if x == y:
        return True
    if math.isinf(x) or math.isinf(y):
        return False
    return abs(x - y) <= RTOL * max(abs(x), abs(y)) + atol


def compare(a, b, atol=0.0):
    """None if the two canonical values are the same in the property's sense, else (what, detail)"""
    ta, tb = a[0], b[0]
    if ta == 'L' and tb == 'L':
        if len(a[1]) != len(b[1]):
            return ('shape', f"{len(a[1])} vs {len(b[1])} elements")
        for x, y in zip(a[1], b[1]):
            r = compare(x, y, atol)
            if r:
                return r
        return None
    if ta == 'L' or tb == 'L':
        return ('shape', f"{ta} vs {tb}")
    if ta in 'ir' and tb in 'ir':
        if ta != tb:
            return ('kind', f"{'integer' if ta == 'i' else 'real'} vs {'integer' if tb == 'i' else 'real'}")
        if ta == 'i':
            return None if a[1] == b[1] else ('value', f"{a[1]} vs {b[1]}")
        return None if num_close(a[1], b[1], atol) else ('value', f"{a[1]!r} vs {b[1]!r}")
    return None if a == b else ('value', f"{a} vs {b}")


_TOK = re.compile(r"\[|\]|[^\[\]\s]+")
_INT = re.compile(r"^-?\d+$")


def text_compare(s, t, atol=0.0):
    """do the two kg_write texts read the same?"""
    xs, ys = _TOK.findall(s), _TOK.findall(t)
    if len(xs) != len(ys):
        return ('text-structure', f"{len(xs)} vs {len(ys)} tokens")
    for x, y in zip(xs, ys):
        if x == y:
            continue
        if x in '[]' or y in '[]':
            return ('text-structure', f"{x} vs {y}")
        xi, yi = bool(_INT.match(x)), bool(_INT.match(y))
        if xi or yi:
            return ('text-kind' if xi != yi else 'text-value', f"{x} vs {y}")
        try:
            fx, fy = float(x), float(y)
        except ValueError:
            return ('text-value', f"{x} vs {y}")
        if not num_close(fx, fy, atol):
            return ('text-value', f"{x} vs {y}")
    return None


def exact_equal(a, b):
    """same structure, same kinds, reals bit-for-bit as doubles (both nan counts as equal)"""
    if a[0] == 'L' and b[0] == 'L':
        return len(a[1]) == len(b[1]) and all(exact_equal(x, y) for x, y in zip(a[1], b[1]))
    if a[0] != b[0]:
        return False
    if a[0] == 'r':
        return a[1] == b[1] or (math.isnan(a[1]) and math.isnan(b[1]))
    return a == b


def has_undef(v):
    return any(x[0] not in 'ir' for x in leaves(v))


def max_mag(v):
    m = 0.0
    for x in leaves(v):
        if x[0] in 'ir' and isinstance(x[1], (int, float)) and not (isinstance(x[1], float) and (math.isnan(x[1]) or math.isinf(x[1]))):
            m = max(m, abs(x[1]))
    return m


def sig(v):
    """operand class for finding keys: kind + rank"""
    if v is None:
        return 'err'
    sh = vshape(v)
    k = vkind(v)
    kk = {'int': 'i', 'real': 'r', 'empty': 'e'}.get(k, 'o')
    return f"{kk}{'?' if sh is None else len(sh)}"


# --------------------------------------------------------------------------- one case

class Searcher:
    def __init__(self, ctx, pair, drv):
        self.ctx = ctx
        self.P = pair
        self.drv = drv
        self.model_torch_ne_np = 0
        self.model_compared = 0

    # -- evaluation of a sub-expression as its own program (cached per env)
    def run_expr(self, e, env, mode):
        if mode == 'var':
            self.P.bind(env)
            return self.P.run(src(e))
        return self.P.run(src(subst(e, env)))

    ADDITIVE_EACH = ('{x+1}', '{2-x}', '{+/x}')

    def magnitude(self, e, env):
        """(largest |integer|, largest |real|, smallest non-zero |real|, largest magnitude that
        enters or leaves an ADDITION or SUBTRACTION) among all intermediate values, both backends,
        interpreted.  Only sums and differences can cancel, so only their operands justify an
        absolute allowance for float32 rounding."""
        mi, mr, tiny, madd = 1, 1.0, 1.0, 0.0
        kid_mag = 0.0
        for c in children(e):
            x, y, z, w = self.magnitude(c, env)
            mi, mr, tiny, madd = max(mi, x), max(mr, y), min(tiny, z), max(madd, w)
            for r in self.run_expr(c, env, 'inline'):
                if r[0] == 'ok':
                    kid_mag = max(kid_mag, max_mag(r[1]))
        own = 0.0
        for r in self.run_expr(e, env, 'inline'):
            if r[0] != 'ok':
                continue
            own = max(own, max_mag(r[1]))
            for l in leaves(r[1]):
                if l[0] == 'i':
                    mi = max(mi, abs(l[1]))
                elif l[0] == 'r' and not (math.isnan(l[1]) or math.isinf(l[1])):
                    mr = max(mr, abs(l[1]))
                    if l[1] != 0:
                        tiny = min(tiny, abs(l[1]))
        additive = (e[0] in ('dy', 'over', 'scan') and e[1] in '+-') or (e[0] == 'each' and e[1] in self.ADDITIVE_EACH)
        if additive:
            madd = max(madd, kid_mag, own)
        return mi, mr, tiny, madd

    def deviates(self, a, b, atol=0.0):
        """a, b = run1 outcomes; returns None / (what, detail); both-return only"""
        if a[0] != 'ok' or b[0] != 'ok':
            return None
        return compare(a[1], b[1], atol) or text_compare(a[2], b[2], atol)

    def culprit(self, e, env, mode, atol):
        """innermost node whose operands agree across the backends and whose result does not"""
        for c in children(e):
            r = self.culprit(c, env, mode, atol)
            if r:
                return r
        a, b = self.run_expr(e, env, mode)
        if a[0] != b[0]:
            return e, a, b, ('one-sided', '')
        d = self.deviates(a, b, atol)
        if d:
            return e, a, b, d
        return None

    def compiled_value(self, k, text):
        """what the expression compiler's code returns for `text` (whether or not the interpreter
        would bother compiling it): ('nocompile',) | ('ok', canon, text) | ('err', …)"""
        from klongpy.compiler import _ast_to_ir
        try:
            _, prog = k.prog(text)
            if len(prog) != 1:
                return ('nocompile',)
            refs = {}
            ir = _ast_to_ir(prog[0], k, refs)
            if ir is None:
                return ('nocompile',)
            r = k._backend.compile_expr_ir(ir, list(refs.keys()))
            if r is None:
                return ('nocompile',)
            fn, syms = r
        except Exception as e:
            return ('err', type(e).__name__, str(e)[:100])
        try:
            import klongpy.compiler as C
            args = C.compiled_args(k, syms) if hasattr(C, 'compiled_args') else [k._context[s] for s in syms]
            v = fn(*args)
            return ('ok', U.canon(v), self.P.kg_write(v, k._backend))
        except Exception as e:
            return ('err', type(e).__name__, str(e)[:100])

    def compiled_root_causes(self, e, env, atol, out):
        """every innermost node (per backend) at which that backend's generated code returns a
        value other than what its interpreter returns — each is a compiled-vs-interpreter
        defect of its own; returns the set of backends with a cause inside the subtree"""
        inner = set()
        for c in children(e):
            inner |= self.compiled_root_causes(c, env, atol, out)
        here = set()
        for name, k in (("numpy", self.P.kn), ("torch", self.P.kt)):
            self.P.bind(env)
            v = self.compiled_value(k, src(e))
            if v[0] != 'ok':
                continue
            i = self.P.run1(k, src(subst(e, env)))
            if i[0] != 'ok':
                # this backend's interpreter raises here: the other one's is the reference
                i = self.P.run1(self.P.kt if name == "numpy" else self.P.kn, src(subst(e, env)))
            if i[0] == 'ok' and (compare(v[1], i[1], atol) or text_compare(v[2], i[2], atol)):
                here.add(name)
                if name not in inner:
                    out.append(f"compiled-vs-interpreter:{name}:{node_name(e)}")
        return inner | here

    def classify(self, e, env, mode, a, b, d):
        """stable key of the failing call-site class, or None when the deviation is not one the
        property speaks about (operand outside the numeric domain, rounding at a discontinuity)"""
        ctx = self.ctx
        if any(l[0] == 'X' for l in leaves(a[1])) or any(l[0] == 'X' for l in leaves(b[1])):
            ctx.bump("skipped:non-numeric-result")          # complex numbers, functions, …
            return None
        mi, mr, tiny, madd = self.magnitude(e, env)
        if mi >= 2 ** 31 or mr >= 1e30 or tiny <= 1e-30:
            ctx.bump("skipped:magnitude-outside-the-universe")   # int64 wrap-around, float32 range
            return None
        atol = RTOL * madd
        if self.deviates(a, b, atol) is None:
            ctx.bump("tolerated:rounding-after-cancellation")
            return None
        if mode == 'var':
            ia, ib = self.run_expr(e, env, 'inline')
            if not (ia[0] == 'ok' and ib[0] == 'ok' and self.deviates(ia, ib, atol) is not None):
                # the interpreted evaluation agrees: the difference comes from the expression
                # compiler (running on one side only, or generating different code)
                out = []
                self.compiled_root_causes(e, env, atol, out)
                return sorted(set(out)) or "compiled-vs-interpreter:unlocalised"
            mode = 'inline'
        c = self.culprit(e, env, mode, atol)
        if c is None:
            return f"unlocalised:{d[0]}"
        ce, ca, cb, cd = c
        kids = []
        exact = True
        for ch in children(ce):
            x, y = self.run_expr(ch, env, mode)
            if x[0] == 'ok' and (has_undef(x[1]) or (y[0] == 'ok' and has_undef(y[1]))):
                ctx.bump("skipped:undefined-or-non-numeric-operand")
                return None
            kids.append(x[1] if x[0] == 'ok' else None)
            if x[0] == 'ok' and y[0] == 'ok' and not exact_equal(x[1], y[1]):
                exact = False
        name = node_name(ce)
        if cd[0] == 'one-sided':
            return f"one-sided-inside:{name}"
        discontinuous = ce[0] == 'floor' or (ce[0] == 'dy' and ce[1] in '=<>^') or (ce[0] == 'each' and ce[1] == '_')
        if discontinuous and not exact:
            ctx.bump("tolerated:rounding-at-discontinuity")
            return None
        if ce[0] == 'dy' and ce[1] == '^' and cd[0] in ('kind', 'text-kind') and ca[0] == 'ok' and cb[0] == 'ok' \
                and U.veq(ca[1], cb[1], RTOL, kinds=False):
            # Power returns an integer when the result is whole: in float32 a large non-whole
            # value can be whole after rounding (14^6.25 = 14564652.7 -> 14564653)
            ctx.bump("tolerated:power-whole-after-float32-rounding")
            return None
        if ce[0] == 'scan' and ce[1] == '%' and kids and kids[0] is not None and kids[0][0] == 'L' \
                and len(kids[0][1]) == 1 and vkind(kids[0]) == 'int' and cd[0] in ('kind', 'text-kind'):
            return "scan:%:integer-single-row:kind"
        return f"{name}:{','.join(sig(k) for k in kids)}:{cd[0]}"

    # -- model
    def model(self, e, env):
        if self.drv is None:
            return None
        try:
            wire(e)
        except Unmodelled:
            self.ctx.bump("model:not-in-the-lean-grammar")
            return None
        line = f"eval {wire(e)} | " + " ".join(U.to_wire(env[n]) for n in 'abc')
        r = self.drv.ask(line)
        m = re.match(r"^np=(.*) torch=(.*) pinned=(.*)$", r)
        if not m:
            return ('bad', r)
        return m.group(1), m.group(2), m.group(3)

    def undefined_inside(self, e, env):
        """does some sub-expression evaluate to :undefined (division by a computed zero)? the
        model carries reals as kind + shape only and cannot see that"""
        a, b = self.run_expr(e, env, 'inline')
        if any(r[0] == 'ok' and has_undef(r[1]) for r in (a, b)):
            return True
        if e[0] in ('over', 'scan') and e[1] == '%':
            # a zero among the divisors sends %/ and %\ through the fold of the Divide verb:
            # :undefined appears inside the fold (and the next step usually raises)
            for r in self.run_expr(e[2], env, 'inline'):
                if r[0] == 'ok' and r[1][0] == 'L' and any(l[0] in 'ir' and l[1] == 0
                                                            for x in r[1][1][1:] for l in leaves(x)):
                    return True
        return any(self.undefined_inside(c, env) for c in children(e))

    def check_model(self, case, which, mres, real):
        """model result vs real outcome of one backend"""
        ctx = self.ctx
        n0 = len(ctx.mismatches)
        self._check_model(case, which, mres, real)
        if len(ctx.mismatches) > n0 and mres.startswith("ab:") and self.undefined_inside(*self._cur):
            del ctx.mismatches[n0:]
            ctx.bump("model:undefined-inside-real-subexpression")

    def _check_model(self, case, which, mres, real):
        ctx = self.ctx
        tag = mres.split(":", 1)[0]
        ctx.bump("model:" + (mres if tag == 'oom' else tag))
        where = f"Klong.C08.den ({which} provider) vs KlongInterpreter(backend='{which}')"
        if tag == 'oom':
            return
        self.model_compared += 1
        if real[0] != 'ok':
            ctx.mismatch(where, case, mres, f"raises {real[1]}: {real[2]}")
            return
        got = real[1]
        if tag == 'undef':
            if got != U.U:
                ctx.mismatch(where, case, mres, U.to_wire(got) if got[0] != 'X' else str(got))
            return
        if tag == 'ok':
            want = U.from_wire(mres[3:])
            if vkind(want) == 'empty' and vkind(got) == 'empty':
                return
            if any(l[0] == 'i' and abs(l[1]) >= 2 ** 31 for l in leaves(want)):
                ctx.bump("model:integer-beyond-2^31")      # the model's integers are unbounded, int64 wraps
                return
            if compare(want, got, 0.0) is not None or vkind(got) not in ('int', 'empty'):
                ctx.mismatch(where, case, mres, _show(got))
            return
        if tag == 'ab':
            _, kind, sh = mres.split(":")
            shape = tuple(int(x) for x in sh.split(",") if x != '')
            if got == U.U and kind == 'real':
                ctx.bump("model:real-divisor-was-zero")
                return
            gk = vkind(got)
            n = 1
            for d in shape:
                n *= d
            if n == 0 and gk == 'empty':
                return                       # the canonical form of an empty array keeps no inner shape
            if kind == 'int' and gk == 'real' and vshape(got) == shape and any(
                    l[0] == 'r' and (math.isinf(l[1]) or math.isnan(l[1]) or abs(l[1]) >= 2.0 ** 63)
                    for l in leaves(got)):
                ctx.bump("model:floor-of-a-real-no-integer-can-hold")   # base.floor_to_int keeps it real
                return
            if vshape(got) != shape or (gk not in (kind, 'empty')):
                ctx.mismatch(where, case, mres, f"kind={gk} shape={vshape(got)} value={_show(got)}")

    # -- one program
    def one(self, e, env, mode, label="program"):
        try:
            self._one(e, env, mode, label)
        except common.Infra:
            raise
        except Exception as ex:  # an exception of the harness itself while judging what the real
            # code produced is a broken tie with this case as replay — never exit 2
            self.ctx.mismatch("harness: could not judge the outcome", dict(
                kind=label, mode=mode, expr=to_json(e), env={n: U.to_wire(v) for n, v in env.items()}),
                "", f"{type(ex).__name__}: {ex}")

    def _one(self, e, env, mode, label="program"):
        ctx = self.ctx
        case = dict(kind=label, mode=mode, program=src(e if mode == 'var' else subst(e, env)),
                    expr=to_json(e), env={n: U.to_wire(v) for n, v in env.items()})
        a, b = self.run_expr(e, env, mode)
        ctx.count((mode, src(e), tuple(sorted(case['env'].items()))), nontrivial=bool(children(e)))
        ctx.bump("mode:" + mode)
        ctx.bump("root:" + node_name(e).split(":")[0])
        if a[0] == 'ok' and b[0] == 'ok':
            ctx.bump("outcome:both-return")
            ctx.bump("kind:" + vkind(a[1]))
            d = self.deviates(a, b)
            if d:
                key = self.classify(e, env, mode, a, b, d)
                for k in ([key] if isinstance(key, str) else key or []):
                    ctx.oracle_fail(k, case, f"numpy: {a[2]}", f"torch: {b[2]}",
                                    f"{d[0]}: {d[1]} (same program, same bindings, both backends return)")
        elif a[0] == 'err' and b[0] == 'err':
            ctx.bump("outcome:both-raise")
        else:
            ctx.bump("outcome:only-" + ("torch" if a[0] == 'err' else "numpy") + "-returns")
        # model (interpreted path only: the compiled path is C05's subject)
        if mode == 'inline' and self.drv is not None:
            self._cur = (e, env)
            m = self.model(e, env)
            if m is None:
                pass
            elif m[0] == 'bad':
                ctx.mismatch("kd_c08 protocol", case, m[1], "")
            else:
                mn, mt, _ = m
                if mn != mt:
                    self.model_torch_ne_np += 1
                    ctx.mismatch("Klong.C08.den torch provider vs numpy provider (program_agrees)", case, mt, mn)
                self.check_model(case, 'numpy', mn, a)
                self.check_model(case, 'torch', mt, b)
        ctx.sample(dict(program=case['program'], mode=mode,
                        numpy=a[2] if a[0] == 'ok' else a[1], torch=b[2] if b[0] == 'ok' else b[1]))


def _show(v):
    try:
        return U.to_wire(v)
    except Exception:
        return str(v)


# --------------------------------------------------------------------------- library micro-correspondence

def _rand_tensor(rng, shape, lo=-9, hi=9):
    import numpy as np
    n = 1
    for s in shape:
        n *= s
    return np.array([rng.randint(lo, hi) for _ in range(n)], dtype=np.int64).reshape(shape)


def _w(x):
    return U.to_wire(U.canon(x))


def micro(ctx, drv, n):
    """every primitive of `Lib` on random integer tensors: Lean NP vs real torch vs real numpy"""
    import numpy as np
    import torch
    rng = ctx.rng
    shapes = [(1,), (2,), (3,), (4,), (2, 2), (2, 3), (3, 1), (1, 3), (3, 3), (2, 2, 2), (1, 2, 2), (3, 2, 1)]
    bad = 0

    def ask(name, args, t_val, n_val):
        nonlocal bad
        r = drv.ask(f"prim {name} " + " ".join(args))
        ctx.bump("prim:" + name.split(":")[0])
        ctx.count(("prim", name, tuple(args)))
        case = dict(kind="primitive", prim=name, args=list(args))
        for which, v in (("torch", t_val), ("numpy", n_val)):
            if v is None:
                continue
            w = "none" if isinstance(v, str) else _w(v)
            if r != w:
                bad += 1
                ctx.mismatch(f"Klong.C08.NP.{name.split(':')[0]} vs {which}", case, r, w)

    for _ in range(n):
        sh = rng.choice(shapes)
        a = _rand_tensor(rng, sh)
        ta = torch.from_numpy(a)
        wa = _w(a)
        # element-wise, equal shapes and scalar broadcasting
        b = _rand_tensor(rng, sh) if rng.random() < 0.6 else np.int64(rng.randint(-5, 5))
        tb = torch.from_numpy(b) if isinstance(b, np.ndarray) else torch.tensor(int(b))
        for op, tf, nf in (("add", torch.add, np.add), ("sub", torch.subtract, np.subtract),
                           ("mul", torch.multiply, np.multiply), ("min", torch.minimum, np.minimum),
                           ("max", torch.maximum, np.maximum),
                           ("eq", lambda x, y: torch.eq(x, y) * 1, lambda x, y: (x == y) * 1),
                           ("lt", lambda x, y: torch.less(x, y) * 1, lambda x, y: np.less(x, y) * 1),
                           ("gt", lambda x, y: torch.greater(x, y) * 1, lambda x, y: np.greater(x, y) * 1)):
            ask(f"ew:{op}", [wa, _w(b)], tf(ta, tb), nf(a, b))
            ask(f"ew:{op}", [_w(b), wa], tf(tb, ta), nf(b, a))
        ask("neg", [wa], torch.negative(ta), np.negative(a))
        e = np.abs(_rand_tensor(rng, sh, 0, 4)) if rng.random() < 0.6 else np.int64(rng.randint(0, 4))
        te = torch.from_numpy(e) if isinstance(e, np.ndarray) else torch.tensor(int(e))
        ask("pow", [wa, _w(e)], ta.pow(te), np.power(a, e))
        ask("toInt", [wa], ta.to(int), np.floor(np.asarray(a, dtype=float)).astype(int))
        ask("sum0", [wa], torch.sum(ta, dim=0), np.add.reduce(a))
        ask("prod0", [wa], torch.prod(ta, dim=0), np.multiply.reduce(a))
        ask("sumAll", [wa], torch.sum(ta), np.sum(a))
        ask("prodAll", [wa], torch.prod(ta), np.prod(a))
        ask("cumsum0", [wa], torch.cumsum(ta, dim=0), np.add.accumulate(a))
        ask("cumprod0", [wa], torch.cumprod(ta, dim=0), np.multiply.accumulate(a))
        ask("amin", [wa], torch.min(ta), np.min(a))
        ask("amax", [wa], torch.max(ta), np.max(a))
        i = rng.randrange(sh[0])
        ask("row", [wa, f"(i {i})"], ta[i], a[i])
        ask("tail", [wa], ta[1:], a[1:])
        ask("flip0", [wa], torch.flip(ta, dims=[0]), a[::-1])
        lo = rng.randrange(sh[0] + 1)
        hi = rng.randrange(lo, sh[0] + 1)
        ask("slice0", [wa, f"(i {lo})", f"(i {hi})"], ta[lo:hi], a[lo:hi])
        k = rng.randrange(1, 4)
        parts = [_rand_tensor(rng, sh[1:]) if len(sh) > 1 else np.int64(rng.randint(-9, 9)) for _ in range(k)]
        tparts = [torch.from_numpy(p) if isinstance(p, np.ndarray) else torch.tensor(int(p)) for p in parts]
        ask("stack", [_w(p) for p in parts], torch.stack(tparts), np.asarray(parts))
        c = _rand_tensor(rng, (rng.randrange(1, 3),) + sh[1:])
        ask("cat0", [wa, _w(c)], torch.cat((ta, torch.from_numpy(c))), np.concatenate((a, c)))
        k = rng.randrange(0, 4)
        ask("tile0", [wa, f"(i {k})"], torch.tile(ta, (k,) + (1,) * (ta.ndim - 1)), np.tile(a, (k,) + (1,) * (a.ndim - 1)))
        # numpy's own ufunc semantics used as the reference side
        ask("npReduce:sub", [wa], None, np.subtract.reduce(a))
        ask("npAccumulate:sub", [wa], None, np.subtract.accumulate(a))
        ask("scanRows:min", [wa], None, np.minimum.accumulate(a))
        # float32 rounding of integers (the pinned floor_to_int)
        big = np.array([rng.choice([1, -1]) * rng.randrange(2 ** rng.randrange(20, 40)) for _ in range(3)]
                       + [2 ** 24 + 1, 2 ** 24 + 3, -(2 ** 25 + 2), 2 ** 24, 2 ** 30 + 64], dtype=np.int64)
        ask("floorF32", [_w(big)], torch.floor(torch.from_numpy(big).float()).to(int), None)
    return bad


# --------------------------------------------------------------------------- translator

def _dict_keys(node):
    return [ast.literal_eval(k) for k in node.keys]


def _is_none_test(t, target, negated):
    """`if <target> is None:` (negated=False) or `if <target> is not None:` (negated=True)"""
    return (isinstance(t, ast.If) and isinstance(t.test, ast.Compare) and isinstance(t.test.left, ast.Name)
            and t.test.left.id == target and len(t.test.ops) == 1
            and isinstance(t.test.ops[0], ast.IsNot if negated else ast.Is)
            and isinstance(t.test.comparators[0], ast.Constant) and t.test.comparators[0].value is None)


def _returns_none(st):
    return isinstance(st, ast.Return) and isinstance(st.value, ast.Constant) and st.value.value is None


def _scan_ir_to_source(fn):
    """tables and control-flow facts of one backend's `_ir_to_source`.

    Inside an `if node_type == K:` branch the operator is looked up in one or more literal
    dictionaries, each `x = {…}.get(op)` (or `d = {…}; x = d.get(op)`), followed by either
    `if x is not None: return <code>` (then the next dictionary is tried) or
    `if x is None: return None` (end of the chain: a missing operator is the interpreter path).
    The table of K is the union of the dictionaries; `missing_none[K]` says the chain ends in
    `return None` rather than in a KeyError / unbound name."""
    kinds, tables, missing_none = [], {}, {}
    default_none = _returns_none(fn.body[-1])
    for st in fn.body:
        if not (isinstance(st, ast.If) and isinstance(st.test, ast.Compare)
                and isinstance(st.test.left, ast.Name) and st.test.left.id == 'node_type'):
            continue
        kind = ast.literal_eval(st.test.comparators[0])
        kinds.append(kind)
        body = st.body
        keys, chain_ok, terminated = [], True, False
        i = 0
        while i < len(body):
            s = body[i]
            d = target = None
            nxt_i = i + 1
            if isinstance(s, ast.Assign) and isinstance(s.value, ast.Call) and isinstance(s.value.func, ast.Attribute) \
                    and s.value.func.attr == 'get' and isinstance(s.value.func.value, ast.Dict):
                d, target = s.value.func.value, s.targets[0].id                 # x = {…}.get(op)
            elif isinstance(s, ast.Assign) and isinstance(s.value, ast.Dict) and i + 1 < len(body):
                nxt = body[i + 1]                                                # d = {…}; x = d.get(op)
                if isinstance(nxt, ast.Assign) and isinstance(nxt.value, ast.Call) \
                        and isinstance(nxt.value.func, ast.Attribute) and nxt.value.func.attr == 'get' \
                        and isinstance(nxt.value.func.value, ast.Name) \
                        and nxt.value.func.value.id == s.targets[0].id:
                    d, target = s.value, nxt.targets[0].id
                    nxt_i = i + 2
            if d is None:
                i += 1
                continue
            if terminated:
                chain_ok = False            # a lookup after the chain was closed: shape not recognised
            keys += _dict_keys(d)
            test = body[nxt_i] if nxt_i < len(body) else None
            if test is not None and _is_none_test(test, target, negated=False) and _returns_none(test.body[0]):
                terminated = True
            elif test is not None and _is_none_test(test, target, negated=True) \
                    and isinstance(test.body[0], ast.Return) and not _returns_none(test.body[0]) and not test.orelse:
                pass                        # found: return code; otherwise fall through to the next dictionary
            else:
                chain_ok = False
            i = nxt_i + 1
        if keys:
            tables[kind] = keys
            missing_none[kind] = chain_ok and terminated
    return kinds, tables, missing_none, default_none


def _find_fn(tree, cls, name):
    for n in ast.walk(tree):
        if isinstance(n, ast.ClassDef) and n.name == cls:
            for f in n.body:
                if isinstance(f, ast.FunctionDef) and f.name == name:
                    return f
    raise ValueError(f"{cls}.{name} not found")


def _lean_list(xs):
    return "[" + ", ".join(json.dumps(x, ensure_ascii=False) for x in xs) + "]"


def extract(ctx):
    """regenerate lean/Klong/Generated/C08Tables.lean from the Python source"""
    repo = common.REPO / "klongpy"
    ctree = ast.parse((repo / "compiler.py").read_text())
    sets = {}
    for n in ctree.body:
        if isinstance(n, ast.Assign) and isinstance(n.value, ast.Set) and isinstance(n.targets[0], ast.Name):
            sets[n.targets[0].id] = sorted(ast.literal_eval(e) for e in n.value.elts)
    for need in ('_ARITH_OPS', '_CMP_OPS', '_REDUCE_SCAN_OPS'):
        if need not in sets:
            raise ValueError(f"compiler.py: {need} not found")
    # node kinds the compiler emits: the first element of every returned tuple in _ast_to_ir
    emitted = []
    for n in ast.walk(ctree):
        if isinstance(n, ast.FunctionDef) and n.name == '_ast_to_ir':
            for r in ast.walk(n):
                if isinstance(r, ast.Return) and isinstance(r.value, ast.Tuple) and r.value.elts \
                        and isinstance(r.value.elts[0], ast.Constant):
                    k = r.value.elts[0].value
                    if k not in emitted:
                        emitted.append(k)
    if sorted(emitted) != sorted(['literal', 'var', 'binop', 'cmp', 'negate', 'reduce', 'scan']):
        raise ValueError(f"compiler.py: unexpected IR node kinds {emitted}")
    out = ["/- GENERATED by vlib/c08.py extract(ctx) from klongpy/compiler.py and the two backends' "
           "_ir_to_source — do not edit -/",
           "namespace Klong.Generated.C08", ""]
    out.append(f"def compilerArith : List String := {_lean_list(sets['_ARITH_OPS'])}")
    out.append(f"def compilerCmp : List String := {_lean_list(sets['_CMP_OPS'])}")
    out.append(f"def compilerReduceScan : List String := {_lean_list(sets['_REDUCE_SCAN_OPS'])}")
    out.append(f"def compilerKinds : List String := {_lean_list(sorted(emitted))}")
    summary = dict(compiler=sets, emitted=emitted)
    for tag, path, cls in (("numpy", "backends/numpy_backend.py", "NumpyBackendProvider"),
                           ("torch", "backends/torch_backend.py", "TorchBackendProvider")):
        fn = _find_fn(ast.parse((repo / path).read_text()), cls, "_ir_to_source")
        kinds, tables, missing_none, default_none = _scan_ir_to_source(fn)
        for k in ('binop', 'cmp', 'reduce', 'scan'):
            if k not in tables:
                raise ValueError(f"{path}: no operator table recognised for '{k}'")
        out.append("")
        out.append(f"def {tag}Kinds : List String := {_lean_list(sorted(kinds))}")
        for k in ('binop', 'cmp', 'reduce', 'scan'):
            out.append(f"def {tag}{k.capitalize()} : List String := {_lean_list(sorted(tables[k]))}")
        out.append(f"def {tag}MissingIsNone : Bool := {'true' if all(missing_none.get(k) for k in ('binop', 'cmp', 'reduce', 'scan')) else 'false'}")
        out.append(f"def {tag}DefaultIsNone : Bool := {'true' if default_none else 'false'}")
        summary[tag] = dict(kinds=kinds, tables=tables, missing_none=missing_none, default_none=default_none)
    out += ["", "end Klong.Generated.C08", ""]
    text = "\n".join(out)
    path = common.LEAN / "Klong" / "Generated" / "C08Tables.lean"
    if not path.exists() or path.read_text() != text:
        path.write_text(text)
    ctx.extra["code_generation_tables"] = summary


def acceptance(ctx, pair):
    """oracle for the second sentence of the property on the real code: every IR built from the
    compiler's own node kinds and operator sets goes through both backends' compile_expr_ir
    without raising, and what comes back is a callable or None (the interpreter path)"""
    from klongpy import compiler as C
    from klongpy.core import KGSym
    ops_b, ops_c, ops_r = sorted(C._ARITH_OPS), sorted(C._CMP_OPS), sorted(C._REDUCE_SCAN_OPS)
    v = ('var', '_v0')
    base = [('literal', 2), ('literal', 2.5), v]
    level1 = ([('binop', o, x, v) for o in ops_b for x in base] + [('cmp', o, v, x) for o in ops_c for x in base]
              + [('negate', v)] + [('reduce', o, v) for o in ops_r] + [('scan', o, v) for o in ops_r])
    level2 = ([('binop', o, x, v) for o in ops_b for x in level1] + [('cmp', o, x, v) for o in ops_c for x in level1]
              + [('negate', x) for x in level1] + [('reduce', o, x) for o in ops_r for x in level1]
              + [('scan', o, x) for o in ops_r for x in level1])
    trees = level1 + (level2 if ctx.tier == 'thorough' else ctx.rng.sample(level2, 120))
    for ir in trees:
        outcome = {}
        for name, k in (("numpy", pair.kn), ("torch", pair.kt)):
            try:
                r = k._backend.compile_expr_ir(ir, [KGSym('a')])
                ok = r is None or (isinstance(r, tuple) and callable(r[0]))
                outcome[name] = "none" if r is None else ("code" if ok else f"unexpected {type(r).__name__}")
            except Exception as e:
                outcome[name] = f"raises {type(e).__name__}: {e}"
        ctx.count(("ir", repr(ir)))
        ctx.bump("ir:numpy:" + outcome["numpy"].split(" ")[0])
        ctx.bump("ir:torch:" + outcome["torch"].split(" ")[0])
        for name, o in outcome.items():
            if o not in ("none", "code"):
                ctx.oracle_fail(f"compile:{name}:{ir[0]}:{ir[1] if isinstance(ir[1], str) else ''}",
                                dict(kind="ir", ir=repr(ir)), "callable or None", o,
                                "an IR the expression compiler emits is not accepted by the backend's code generator")


# --------------------------------------------------------------------------- structural dyads x empty operands

SWEEP_SETUP = ["a::[1 2 3 4]", "b::[1.5 2.5 0.5 4.0]", "mm::[[1 2 3] [4 5 6]]", "e::[]", "s::7",
               "f::{:[#x;(2#x),f(2_x);[]]}"]
# empty lists of every provenance (their dtype differs: [] is float, 0#a integer, a@[] a numpy array …)
SWEEP_EMPTY = ["[]", "e", "0#a", "1_[5]", "{x}'[]", "(-1)_[7]", "0#b", "a@[]", "&0", "!0", "f([])", "4_a"]
SWEEP_FULL = ["a", "b", "mm", "s", "[5]", "2.5", "f(a)"]
SWEEP_TEMPLATES = ["({P}),({Q})", "(2)#({Q})", "(0)#({Q})", "(-2)#({Q})", "(1)_({Q})", "(-1)_({Q})",
                   "(1):+({Q})", "(-1):+({Q})", "([2]):^({Q})", "(2):^({Q})", "(0):^({Q})", "({P}):^({Q})",
                   "(1):_({Q})", "({P}):_({Q})", "({Q})@({P})", "({Q})?({P})", "|({Q})", "({P})+({Q})",
                   "({P})=({Q})", "({P})&({Q})", "-({Q})", "_({Q})", "+/({Q})", "+\\({Q})", "{x+1}'({Q})",
                   "(2):#({Q})", "f(({P}),({Q}))"]
SWEEP_CONSUMERS = ["{S}", "+/({S})", "|({S})", "#({S})", "({S})+1", "({S}),1", "*({S})", "({S})@0"]


def structural_programs():
    ops = [(x, 'E') for x in SWEEP_EMPTY] + [(x, 'F') for x in SWEEP_FULL]
    for t in SWEEP_TEMPLATES:
        for (p, pk) in ops:
            if '{P}' not in t and (p, pk) != ops[0]:
                continue
            for (q, qk) in ops:
                if pk == 'F' and qk == 'F':
                    continue
                base = t.replace("{P}", p).replace("{Q}", q)
                for c in SWEEP_CONSUMERS:
                    yield t, p, q, c, c.replace("{S}", base)


def structural_one(ctx, pair, t, p, q, c, text, label="structural", setup=None):
    """one text program of the sweep under both backends (oracle only: these verbs are not in
    the Lean grammar)"""
    case = dict(kind="structural", family=label, template=t, P=p, Q=q, consumer=c, program=text,
                setup=SWEEP_SETUP if setup is None else setup)
    try:
        a, b = pair.run(text)
        ctx.count((label, text))
        ctx.bump(label + ":" + ("both-return" if a[0] == b[0] == 'ok' else
                                  "both-raise" if a[0] == b[0] else "one-sided"))
        if a[0] == 'ok' and b[0] == 'ok':
            d = compare(a[1], b[1]) or text_compare(a[2], b[2])
            if d:
                sp, sq = pair.run1(pair.kn, p), pair.run1(pair.kn, q)
                ctx.oracle_fail(f"{label}:{t}:{sig(sp[1]) if sp[0] == 'ok' else 'err'},"
                                f"{sig(sq[1]) if sq[0] == 'ok' else 'err'}:{d[0]}",
                                case, f"numpy: {a[2]}", f"torch: {b[2]}",
                                f"{d[0]}: {d[1]} (same program, both backends return)")
    except Exception as ex:      # decoding what the real code produced must never stop the run
        ctx.mismatch(f"harness: {label} family could not judge the outcome", case, "", f"{type(ex).__name__}: {ex}")


# --------------------------------------------------------------------------- verbs that round x negative operands

ROUND_SETUP = ["na::(-7)", "pa::7", "nr::(-7.5)", "nv::[7 -7 9 -9]", "dv::[2 -2 -2 2]", "rv::[7.5 -7.5 2.5 -0.5]",
               "nm::[[7 -7] [-9 9]]", "dm::[[2 -2] [-2 2]]"]
ROUND_ATOMS = ["7", "(-7)", "9", "(-9)", "2", "(-2)", "3", "(-3)", "7.5", "(-7.5)", "(-2.5)", "na", "pa", "nr"]
ROUND_VECTORS = ["[7 -7 9 -9]", "[-7 7 -9 9]", "[2 -2 -2 2]", "[7.5 -7.5 2.5 -0.5]", "nv", "dv", "rv"]
ROUND_MATRICES = ["[[7 -7] [-9 9]]", "[[2 -2] [-2 2]]", "nm", "dm"]
# Integer-Divide truncates toward zero, Remainder takes the sign of the dividend, Floor rounds toward
# minus infinity, Divide is exact: every one of them must see quotients of either sign on both backends
ROUND_DYADS = ["({P}):%({Q})", "({P})!({Q})", "({P})%({Q})", "_(({P})%({Q}))", "(({Q})*(({P}):%({Q})))+(({P})!({Q}))"]
ROUND_MONADS = ["_({P})", "_(({P})%2)", "_(({P})*0.5)", "-({P})", "_(-({P}))", "(({P}):%2),(({P})!2)"]


def rounding_programs():
    groups = [ROUND_ATOMS, ROUND_VECTORS, ROUND_MATRICES]
    for t in ROUND_MONADS:
        for g in groups:
            for p in g:
                yield t, p, "", t.replace("{P}", p)
    for t in ROUND_DYADS:
        for gi, g in enumerate(groups):
            for p in g:
                for hi, h in enumerate(groups):
                    if gi and hi and gi != hi:
                        continue                     # vector with matrix: broadcasting between ranks
                    for q in h:
                        yield t, p, q, t.replace("{P}", p).replace("{Q}", q)


def rounding_family(ctx):
    pair = Pair()
    for st in ROUND_SETUP:
        pair.kn(st)
        pair.kt(st)
    for t, p, q, text in rounding_programs():
        structural_one(ctx, pair, t, p, q or p, "{S}", text, label="rounding", setup=ROUND_SETUP)


def structural_sweep(ctx, quick):
    pair = Pair()                # fresh interpreters: the sweep has its own bindings
    for st in SWEEP_SETUP:
        pair.kn(st)
        pair.kt(st)
    progs = list(structural_programs())
    if quick:
        # every (template, P, Q) with a seeded choice of consumer
        by = {}
        for x in progs:
            by.setdefault(x[:3], []).append(x)
        progs = [ctx.rng.choice(v) for v in by.values()]
    for t, p, q, c, text in progs:
        structural_one(ctx, pair, t, p, q, c, text)


# --------------------------------------------------------------------------- entry

def run_witnesses(ctx, S):
    """replay the witness of every known finding on the real code"""
    for f in ctx.findings:
        w = f.get("witness")
        if not w or "expr" not in w:
            continue
        env = {n: U.from_wire(t) for n, t in w["env"].items()}
        S.one(from_json(w["expr"]), env, w.get("mode", "inline"), label="known-finding-witness")


PINNED_DEFECTS = [
    # DESIGN §8: reproduced by hand on the pinned tree; repaired by the fix-c08 commits
    (('over', '-', ('var', 'a')), dict(a=U.from_py([[1, 2], [3, 4]]), b=U.I(0), c=U.I(0))),
    (('floor', ('var', 'a')), dict(a=U.I(16777217), b=U.I(0), c=U.I(0))),
    (('over', '+', ('var', 'a')), dict(a=U.from_py([[1, 2], [3, 4]]), b=U.I(0), c=U.I(0))),
    (('over', '*', ('var', 'a')), dict(a=U.from_py([[1, 2], [3, 4]]), b=U.I(0), c=U.I(0))),
    (('over', '%', ('var', 'a')), dict(a=U.from_py([[8, 2], [2, 1]]), b=U.I(0), c=U.I(0))),
]


def run(ctx):
    quick = ctx.tier == "quick"
    ctx.rule = ("programs of the numeric core grammar (+ - * % ^ & | = < >, negate, floor, f/ f\\ for + - * % & |, "
                "each with 8 functions, @ with scalar and list indices, take, drop, reverse, join) of depth <= "
                + ("2" if quick else "3") + " x bindings of a b c from integer/real scalars, vectors, matrices and a "
                "rank-3 array, each evaluated with the bindings as variables (expression compiler in play) or as "
                "literals (interpreter only); plus every library primitive on random integer tensors and every IR "
                "tree of depth <= 2 through both code generators. distinct = distinct (mode, program, bindings); "
                "non-trivial = at least one operator")
    ctx.assumptions += [
        "integers stay below 2^31 and reals within float32 range (no property here is about overflow)",
        "cpu device; torch float32 vs numpy float64 compared to 1e-5 relative, with an absolute allowance of 1e-5 x "
        "the largest intermediate magnitude (cancellation) and none at all for integers",
        "both-return only: a program on which one backend raises is counted, not judged",
        "results at a discontinuity (floor, comparison, power's integer test) whose real operands differ by rounding "
        "are counted as tolerated, not judged",
    ]
    ctx.partial += [
        "reals: float32 rounding, torch kernels and dtype promotion are not modelled (V.ab carries kind and shape only)",
        "trailing-axis broadcasting between different ranks, object arrays and the expression compiler's execution "
        "are outside the Lean model (search only)",
        "scan_divide_single_row_kind_differs: %\\ on a single integer row is real on numpy, integer on torch (known finding)",
    ]
    drv = Driver("c08") if getattr(ctx, "driver_ok", True) else None
    pair = Pair()
    S = Searcher(ctx, pair, drv)
    try:
        # 0. witnesses of known findings, the hand-reproduced defects, and the corpus
        run_witnesses(ctx, S)
        for e, env in PINNED_DEFECTS:
            S.one(e, env, 'inline', label="design-8")
        cdir = common.CORPUS / "C08"
        if cdir.exists():
            for p in sorted(cdir.glob("*.json")):
                c = json.loads(p.read_text())
                S.one(from_json(c["expr"]), {n: U.from_wire(t) for n, t in c["env"].items()}, c.get("mode", "inline"),
                      label="corpus")
        # 0b. classes evaluated on every run (not sampled)
        deterministic_classes(S)
        # 1. the code generators accept everything the compiler emits
        acceptance(ctx, pair)
        # 1b. structural dyads with empty operands of every provenance (kinds survive a Join)
        structural_sweep(ctx, quick)
        # 1c. every verb that rounds, with operands and quotients of either sign (every run)
        rounding_family(ctx)
        # 2. hypothesis of the theorems: the library primitives, against real torch and numpy
        if drv is not None:
            bad = micro(ctx, drv, 40 if quick else 400)
            ctx.obligation("library primitives: Lean NP = real torch = real numpy on sampled integer tensors",
                           bad == 0, f"{bad} disagreements")
        # 3. programs
        if not quick:
            progs = depth1_programs()
            for kind_a in BKINDS:
                for kind_b in BKINDS:
                    for va in BIND[kind_a][:3]:
                        vb = ctx.rng.choice(BIND[kind_b])
                        env = dict(a=va, b=vb, c=ctx.rng.choice(BIND[ctx.rng.choice(BKINDS)]))
                        for e in progs:
                            S.one(e, env, 'inline')
                            S.one(e, env, 'var')
        n2, n3 = (4000, 0) if quick else (30000, 30000)
        for depth, n in ((2, n2), (3, n3)):
            for _ in range(n):
                env = gen_env(ctx.rng)
                e = gen(ctx.rng, depth)
                S.one(e, env, ctx.rng.choice(['var', 'inline', 'inline']))
        if drv is not None:
            ctx.obligation("model: torch-facade denotation = numpy denotation on every generated program",
                           S.model_torch_ne_np == 0, f"{S.model_torch_ne_np} differ")
        ctx.extra["model_compared"] = S.model_compared
        tot = ctx.hist.get("mode:inline", 0)
        ctx.extra["fraction_inside_model"] = round(S.model_compared / (2 * tot), 3) if tot else None
    finally:
        if drv:
            drv.close()


def replay(ctx, case):
    c = case.get("case", case)
    drv = Driver("c08") if getattr(ctx, "driver_ok", True) else None
    pair = Pair()
    S = Searcher(ctx, pair, drv)
    try:
        if c.get("kind") == "ir":
            acceptance(ctx, pair)
        elif c.get("kind") == "structural":
            for st in c.get("setup", SWEEP_SETUP):
                pair.kn(st)
                pair.kt(st)
            structural_one(ctx, pair, c["template"], c["P"], c["Q"], c["consumer"], c["program"],
                           label=c.get("family", "structural"), setup=c.get("setup"))
            print("replay:", c["program"], pair.run(c["program"]))
        elif "expr" in c:
            env = {n: U.from_wire(t) for n, t in c["env"].items()}
            e = from_json(c["expr"])
            S.one(e, env, c.get("mode", "inline"), label="replay")
            a, b = S.run_expr(e, env, c.get("mode", "inline"))
            print("replay:", c.get("program"), "\n  numpy:", a, "\n  torch:", b)
            if drv is not None:
                print("  model:", S.model(e, env))
        else:
            run(ctx)
    finally:
        if drv:
            drv.close()
    print("replay:", "oracle failures:", [(f["key"], f["what"]) for f in ctx.oracle_failures],
          "mismatches:", ctx.mismatches[:3])
