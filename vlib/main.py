"""Entry point: ./check <ID> [--tier quick|thorough] [--replay FILE] [--selftest]"""
import argparse
import importlib
import json
import os
import subprocess
import sys
import time
import traceback

from . import common
from .common import Ctx, Infra, log


def verdict(ctx, checker_cmd):
    for fid, e in sorted(ctx.known_hits.items()):
        print(f"KNOWN-FINDING: property={ctx.prop} {fid}: {e.get('what_fails', '')}")
    rc = 0
    lines = []
    if ctx.oracle_failures:
        seen = set()
        for f in ctx.oracle_failures:
            if f["key"] in seen:
                continue
            seen.add(f["key"])
            path = common.write_replay(ctx.prop, dict(
                property=ctx.prop, kind="input", seed=ctx.seed, tier=ctx.tier, **f,
                broken_obligations=ctx.broken, mismatches=ctx.mismatches[:3],
                how_to_run=f"./check {ctx.prop} --replay <this file>"))
            lines.append(f"VIOLATION property={ctx.prop} replay={path}")
        rc = 1
    elif ctx.mismatches or ctx.broken:
        path = common.write_replay(ctx.prop, dict(
            property=ctx.prop, kind="broken-obligation", seed=ctx.seed, tier=ctx.tier,
            theorem_or_correspondence=(ctx.broken + [m["correspondence"] for m in ctx.mismatches])[:10],
            broken_obligations=ctx.broken, mismatches=ctx.mismatches[:5],
            note="model/proof no longer tied to the code; the failing-input search on the real "
                 "code found no input on which the property's own oracle fails"))
        lines.append(f"VIOLATION property={ctx.prop} replay={path} no-failing-input-found")
        rc = 1
    common.write_evidence(ctx, checker_cmd, len(lines))
    for l in lines:
        print(l)
    if rc == 0:
        print(f"OK property={ctx.prop} tier={ctx.tier} seed={ctx.seed} obligations={ctx.discharged}/{ctx.obligations} "
              f"evaluations={ctx.evaluations} wall={time.time() - ctx.t0:.1f}s")
    return rc


def _descendants(pid):
    kids = {}
    for d in os.listdir("/proc"):
        if d.isdigit():
            try:
                ppid = int(open(f"/proc/{d}/stat").read().rsplit(")", 1)[1].split()[1])
            except Exception:
                continue
            kids.setdefault(ppid, []).append(int(d))
    out, todo = [], [pid]
    while todo:
        for k in kids.get(todo.pop(), []):
            out.append(k)
            todo.append(k)
    return out


def _watchdog(ctx, checker_cmd, budget):
    """the check did not finish within `budget` seconds (the unchanged tree needs a small fraction of it):
    report what was found so far; if nothing was, the property is no longer shown to hold"""
    import signal
    import threading

    def fire():
        try:
            log(f"watchdog: no verdict after {budget}s (stage: {ctx.extra.get('stage', '?')})")
            if not ctx.oracle_failures:
                ctx.broken.append(f"check did not terminate within {budget}s; stage={ctx.extra.get('stage', '?')}; "
                                  f"evaluations so far={ctx.evaluations}; last counted case={getattr(ctx, 'last_case', None)}")
            rc = verdict(ctx, checker_cmd)
            sys.stdout.flush()
        except Exception:
            traceback.print_exc()
            rc = 2
        for k in _descendants(os.getpid()):
            try:
                os.kill(k, signal.SIGKILL)
            except Exception:
                pass
        os._exit(rc)
    t = threading.Timer(budget, fire)
    t.daemon = True
    t.start()
    return t


def run_check(prop, tier, seed, replay=None):
    mod = importlib.import_module(f"vlib.{prop.lower()}")
    ctx = Ctx(prop, tier, seed)
    drivers = getattr(mod, "DRIVERS", [f"kd_{prop.lower()}"])
    checker_cmd = f"cd lean && lake build {' '.join(mod.MODULES)} {' '.join(drivers)} && lake env lean <audit: #print axioms of {len(mod.THEOREMS)} theorems>"
    budget = int(os.environ.get("VERIF_BUDGET_S", "1800" if tier == "quick" else "10800"))
    wd = _watchdog(ctx, checker_cmd, budget)
    try:
        # 1. translator: regenerate Generated/*.lean from /repo
        ctx.extra["stage"] = "build"
        if hasattr(mod, "extract"):
            try:
                mod.extract(ctx)
            except Infra:
                raise
            except Exception as e:
                ctx.broken.append(f"translator: {type(e).__name__}: {e}")
        # 2. build models + driver, then proofs
        ok, out = common.lake_build(drivers)
        ctx.driver_ok = ok
        if not ok:
            ctx.broken.append("model/driver build failed: " + out[-1500:])
        ok, out = common.lake_build(mod.MODULES)
        if not ok:
            errs = "\n".join(l for l in out.split("\n") if "error" in l)[:1500]
            ctx.broken.append("proof build failed: " + errs)
        # 3. audit
        res, problems = common.audit(mod.MODULES, mod.THEOREMS)
        for t in mod.THEOREMS:
            bad = [p for p in problems if p.startswith(t + ":")]
            ctx.obligation(t, not bad, "; ".join(bad))
        ctx.extra["axioms"] = res
        hits = common.grep_forbidden(prop, mod.MODULES)
        if hits:
            ctx.broken.append("forbidden construct in Lean sources: " + "; ".join(hits[:5]))
        if tier == "thorough" and not ctx.broken:
            p = subprocess.run(["lake", "env", "leanchecker", *mod.MODULES], cwd=common.LEAN,
                               stdout=subprocess.PIPE, stderr=subprocess.STDOUT, text=True, timeout=1800)
            ctx.obligation("leanchecker " + " ".join(mod.MODULES), p.returncode == 0, p.stdout[-500:])
        # 4./5. correspondence + oracle
        ctx.extra["stage"] = "run"
        if replay:
            case = json.loads(open(replay).read())
            mod.replay(ctx, case)
        else:
            mod.run(ctx)
        wd.cancel()
        ctx.extra.pop("stage", None)
        return verdict(ctx, checker_cmd)
    finally:
        wd.cancel()
        ctx.cleanup()


def main():
    ap = argparse.ArgumentParser()
    ap.add_argument("prop", nargs="?")
    ap.add_argument("--tier", default=os.environ.get("VERIF_TIER", "quick"))
    ap.add_argument("--replay")
    ap.add_argument("--selftest", action="store_true")
    a = ap.parse_args()
    seed = int(os.environ.get("VERIF_SEED", "0"))
    if a.selftest:
        from . import selftest
        sys.exit(selftest.main())
    try:
        sys.exit(run_check(a.prop.upper(), a.tier, seed, a.replay))
    except (Infra, subprocess.TimeoutExpired) as e:
        log(f"INFRA: {e}")
        sys.exit(2)
    except Exception:
        traceback.print_exc()
        sys.exit(2)


if __name__ == "__main__":
    main()
