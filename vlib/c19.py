"""C19 — a table holds exactly the rows inserted into it, in the documented order.

Correspondence: seeded operation histories (create from columns, insert one row, insert a
batch, read a column, count, index on one or two columns, re-insert a key, drop the index,
add a column, SQL through .db) over integer, real and string columns are run at Klong level
through the real interpreter and, step by step, through the Lean machine `Klong.C19`
(driver kd_c19); after every step the observable reply and the table's content (read off a
*copy* of the real table, so that observing never flushes the real insert buffer) must be
equal on both sides.
Oracle (needs no model): a plain Python list of rows with every insert applied at once
(append, or replace-by-key and keep sorted by key when indexed).
"""
import copy
import json

import numpy as np

from . import common
from .common import Driver

CLAIM = dict(
    text="Lean 4 theorems over the buffered table machine (frame, insert buffer, optional index; pandas steps as list "
         "operations): for every operation history the buffered machine is indistinguishable from the table that "
         "applies every insert at once (buffering_unobservable), an unindexed table lists the inserted rows in "
         "insertion order, an indexed one is strictly sorted by key and holds for every key the last inserted row, "
         "creating and dropping an index permutes the rows. Model tied to klongpy.db.sys_fn_db.Table by per-step "
         "correspondence at Klong level (reply + content of a copy of the table) on seeded and enumerated histories.",
    note="trusted: Lean kernel (axioms propext/Classical.choice/Quot.sound), correspondence harness, CPython, numpy, "
         "pandas (concat/sort_index/drop_duplicates/.loc alignment) and duckdb (scan order of a frame); the numeric "
         "kind of a cell is not compared (DataFrame.values turns integer columns real next to a real column); indexes "
         "only on columns whose values are unique (as the property says); overwriting an existing column is not modelled",
    technique="Lean 4 refinement proof (buffered machine -> eager abstract table) by extensionality of strictly sorted "
              "key maps, hand-written model, differential correspondence at Klong level + list-of-rows oracle",
    design="7/C19")

MODULES = ["Klong.Props.C19"]
THEOREMS = [
    "Klong.C19.buffering_unobservable",
    "Klong.C19.buffering_unobservable_from_create",
    "Klong.C19.inv_create",
    "Klong.C19.inv_run",
    "Klong.C19.unindexed_insertion_order",
    "Klong.C19.indexed_last_wins_sorted",
    "Klong.C19.indexed_one_row_per_key",
    "Klong.C19.index_roundtrip_preserves_rows",
    "Klong.C19.commitIdx_spec",
    "Klong.C19.commit_twice_eq_once",
    "Klong.C19.pinned_read_ignores_buffer",
    "Klong.C19.pinned_same_new_key_twice",
]

INTS = [-3, -1, 0, 1, 2, 3, 4, 5, 7, 11]
REALS = [-2.5, -0.25, 0.0, 0.5, 0.75, 1.0, 1.5, 2.25, 3.0, 10.5]
STRS = ["", "a", "ab", "b", "ba", "B", "a b", "abc", "z", "hello"]
UNIVERSE = dict(int=INTS, real=REALS, str=STRS)
NAMES = ["a", "b", "c", "d"]
DBNAMES = ["T", "T", "T", "x", "k", "v", "df", "e", "t"]     # names of the table inside .db
EXTRA = ["e", "f", "g"]


# --------------------------------------------------------------------------- canonical forms

def cell(v):
    """canonical cell: numbers by value (exact multiples of 1/4), strings by code points"""
    if isinstance(v, (str, np.str_)):
        return "s:" + "".join("%02x" % ord(c) for c in str(v))
    if isinstance(v, (bool, np.bool_)):
        return "x:bool:" + repr(v)
    if isinstance(v, (int, float, np.integer, np.floating)):
        f = float(v)
        if f != f or f in (float("inf"), float("-inf")) or (f * 4) != int(f * 4):
            return "x:" + repr(v)
        return "n:%d" % int(f * 4)
    return "x:" + type(v).__name__ + ":" + repr(v)


def row_s(r):
    return ",".join(cell(v) for v in r)


def rows_s(rs):
    return ";".join(row_s(r) for r in rs)


def klit(v):
    if isinstance(v, str):
        return '"' + v.replace('"', '""') + '"'
    if isinstance(v, (list, tuple)):
        return "[" + " ".join(klit(x) for x in v) + "]"
    if isinstance(v, float):
        return repr(v)
    return str(v)


def tolist(v):
    """Klong result (ndarray, pandas array, list, scalar) -> flat python list"""
    if hasattr(v, "tolist"):
        v = v.tolist()
    if not isinstance(v, (list, tuple)):
        v = [v]
    return list(v)


# --------------------------------------------------------------------------- oracle: a list of rows

class Oracle:
    """every insert applied at once; no pandas, no buffer"""

    def __init__(self, cols, rows):
        self.cols = list(cols)
        self.rows = [list(r) for r in rows]
        self.idx = None

    def key(self, r, ks=None):
        ks = self.idx if ks is None else ks
        return tuple(r[self.cols.index(k)] for k in ks)

    def unique_on(self, ks):
        keys = [self.key(r, ks) for r in self.rows]
        return len(set(keys)) == len(keys)

    def insert_rows(self, rs):
        if self.idx is None:
            self.rows.extend(list(r) for r in rs)
            return
        # key -> row map, kept sorted by key: the last row of a key wins (keys are unique here)
        at = {self.key(q): i for i, q in enumerate(self.rows)}
        for r in rs:
            r = list(r)
            k = self.key(r)
            if k in at:
                self.rows[at[k]] = r
            else:
                at[k] = len(self.rows)
                self.rows.append(r)
        self.rows.sort(key=self.key)

    def apply(self, op):
        """expected reply in the model's notation (None: outside the modelled domain)"""
        kind = op[0]
        w = len(self.cols)
        if kind == "insert":
            if len(op[1]) != w:
                return "err"
            self.insert_rows([op[1]])
            return "table"
        if kind == "insertb":
            if len(op[1][0]) != w:
                return "err"
            self.insert_rows(op[1])
            return "table"
        if kind in ("read", "sqlcol"):
            if op[1] not in self.cols:
                return "undefined" if kind == "read" else None
            i = self.cols.index(op[1])
            return "col:" + row_s([r[i] for r in self.rows])
        if kind in ("count", "sqlcount"):
            return "n:%d" % len(self.rows)
        if kind in ("schema", "dbschema"):
            return "names:" + ",".join(self.cols)
        if kind == "index":
            if self.idx is not None:
                return "err"
            if any(k not in self.cols for k in op[1]):
                return "err"
            if not self.unique_on(op[1]):
                return None
            self.idx = list(op[1])
            self.rows.sort(key=self.key)
            return "names:" + ",".join(op[1])
        if kind == "rindex":
            if self.idx is None:
                return "n:0"
            self.idx = None
            return "n:1"
        if kind == "addcol":
            if op[1] in self.cols:
                return None
            if len(op[2]) != len(self.rows):
                # pandas lets a column define the rows of an empty frame: outside the property
                return "err" if self.rows else None
            self.cols.append(op[1])
            for r, v in zip(self.rows, op[2]):
                r.append(v)
            return "table"
        if kind == "select":
            return "rows:" + rows_s(self.rows)
        raise ValueError(kind)

    def digest(self):
        return "cols=%s idx=%s content=%s" % (",".join(self.cols), ",".join(self.idx) if self.idx else "-",
                                              rows_s(self.rows))


# --------------------------------------------------------------------------- the real table

class RealTable:
    """one table `T` and a database `db` over it inside a real interpreter, driven by Klong text"""

    def __init__(self, klong, cols, rows, early_db=True, dbname="T", twin=False):
        self.klong = klong
        self.dbname = dbname
        self.twin = twin
        klong("e::[]")
        for i, c in enumerate(cols):
            klong('e::e,,"%s",,%s' % (c, klit([r[i] for r in rows])))
        klong("T::.table(e)")
        if twin:
            klong("U::.table(e)")     # a second table built from the same column list
        # the database over T is built either now (as the repo's tests do) or right before the
        # first SQL request; opening a duckdb connection is the slowest step of a history
        self.has_db = False
        if early_db:
            self.ensure_db()
        self.trace = []

    def ensure_db(self):
        if not self.has_db:
            self.klong('db::.db(:{},"%s",,T)' % self.dbname)
            self.has_db = True

    def bystanders(self):
        """what must never change when T is worked on: the column list T was built from and a
        second table built from the same list"""
        out = []
        e = self.klong("e")
        out.append("e=" + ";".join("%s:%s" % (str(p[0]), row_s(tolist(p[1]))) for p in e))
        if self.twin:
            u = copy.deepcopy(self.klong["U"])
            df = u.get_dataframe()
            out.append("U=" + ";".join("%s:%s" % (c, row_s(df[c].tolist())) for c in [str(c) for c in tolist(u.schema())]))
        return " ".join(out)

    def program(self, op):
        kind = op[0]
        if kind == "insert":
            return ".insert(T;%s)" % klit(op[1])
        if kind == "insertb":
            return ".insert(T;%s)" % klit(op[1])
        if kind == "read":
            return 'T?"%s"' % op[1]
        if kind == "count":
            return "#T"
        if kind == "schema":
            return ".schema(T)"
        if kind == "dbschema":
            return '.schema(db)?"%s"' % self.dbname
        if kind == "index":
            return ".index(T;%s)" % klit(op[1])
        if kind == "rindex":
            return ".rindex(T)"
        if kind == "addcol":
            return 'T,"%s",,%s' % (op[1], klit(op[2]))
        if kind == "select":
            return 'db("select * from %s")' % self.dbname
        if kind == "sqlcount":
            return 'db("select count(*) from %s")' % self.dbname
        if kind == "sqlcol":
            return 'db("select %s from %s")' % (op[1], self.dbname)
        raise ValueError(kind)

    def ncols(self):
        return len(tolist(self.klong(".schema(T)")))

    def apply(self, op):
        """run the operation; reply in the model's notation, or `raises:<Type>`"""
        import klongpy.core as core
        from klongpy.db.sys_fn_db import Table, KlongDbException
        kind = op[0]
        text = self.program(op)
        self.trace.append(text)
        try:
            if kind in ("select", "sqlcount", "sqlcol", "dbschema"):
                self.ensure_db()
            r = self.klong(text)
        except KlongDbException as e:
            return "err" if kind not in SQL else "raises:KlongDbException:" + str(e)[:80]
        except Exception as e:
            if kind == "addcol" and isinstance(e, ValueError) and "does not match length" in str(e):
                return "err"
            return "raises:%s:%s" % (type(e).__name__, str(e)[:80])
        if kind in ("insert", "insertb", "addcol"):
            return "table" if isinstance(r, Table) else "x:" + repr(r)[:60]
        if kind == "read":
            if r is core.KLONG_UNDEFINED or type(r).__name__ == "KGUndefined":
                return "undefined"
            return "col:" + row_s(tolist(r))
        if kind == "sqlcol":
            return "col:" + row_s(tolist(np.asarray(r).reshape(-1)))
        if kind in ("count", "rindex", "sqlcount"):
            v = tolist(r)
            return "n:%d" % int(v[0]) if len(v) == 1 else "x:" + repr(r)[:60]
        if kind in ("schema", "dbschema", "index"):
            return "names:" + ",".join(str(x) for x in tolist(r))
        if kind == "select":
            a = np.asarray(r, dtype=object)
            n = self.ncols()
            if a.size % n:
                return "x:shape:" + repr(a.shape)
            return "rows:" + rows_s(a.reshape(-1, n).tolist())
        raise ValueError(kind)

    def digest(self):
        """content of the table as a reader would see it, taken from a copy so that the real
        table's insert buffer stays as it is"""
        t = copy.deepcopy(self.klong["T"])
        cols = [str(c) for c in tolist(t.schema())]
        try:
            df = t.get_dataframe()
            data = [df[c].tolist() for c in cols]
            n = len(df)
        except Exception as e:
            return "raises:%s:%s" % (type(e).__name__, str(e)[:80])
        rows = [[data[j][i] for j in range(len(cols))] for i in range(n)]
        idx = ",".join(t.idx_cols) if t.idx_cols else "-"
        return "cols=%s idx=%s content=%s" % (",".join(cols), idx, rows_s(rows))


def _first_diff(a, b):
    """`a`, cut around the first place where it differs from `b` (digests can be very long)"""
    if len(a) < 3000:
        return a
    i = next((i for i, (x, y) in enumerate(zip(a, b)) if x != y), min(len(a), len(b)))
    return "%s ...[%d chars]... %s" % (a[:200], i, a[max(0, i - 300):i + 300])


def model_line(op):
    kind = op[0]
    if kind == "insert":
        return "insert row=" + row_s(op[1])
    if kind == "insertb":
        return "insertb rows=" + rows_s(op[1])
    if kind in ("read", "sqlcol"):
        return "read col=" + op[1]
    if kind in ("count", "sqlcount"):
        return "count"
    if kind in ("schema", "dbschema"):
        return "schema"
    if kind == "index":
        return "index ks=" + ",".join(op[1])
    if kind == "rindex":
        return "rindex"
    if kind == "addcol":
        return "addcol col=%s vals=%s" % (op[1], row_s(op[2]))
    if kind == "select":
        return "select"
    raise ValueError(kind)


# --------------------------------------------------------------------------- one history

COMMITTING = ("read", "count", "select", "sqlcount", "sqlcol", "index", "rindex", "addcol")


SQL = ("select", "sqlcount", "sqlcol", "dbschema")


def classify(op, pending, orc_before, dbname="T", got=""):
    """stable class name of a failing step: which operation, in which situation"""
    kind = op[0]
    ins = [r for p in pending for r in (p[1] if p[0] == "insertb" else [p[1]]) if len(r) == len(orc_before["cols"])]
    if kind in SQL and dbname != "T" and got.startswith("raises"):
        return "table:sql:table-name-collides-with-local"
    for j in orc_before["intcols"]:
        if any(isinstance(r[j], float) and r[j] != int(r[j]) for r in ins):
            return "table:real-into-integer-column" + (":indexed" if orc_before["idx"] else "")
    if orc_before["idx"] and ins:
        pos = [orc_before["cols"].index(k) for k in orc_before["idx"]]
        keys = [tuple(r[i] for i in pos) for r in ins]
        if len(set(keys)) < len(keys):
            return "table:indexed:same-key-twice-before-read"
    if kind == "read" and pending:
        return "table:readcol:after-insert"
    if kind == "addcol" and pending:
        return "table:addcol:after-insert"
    return "table:" + kind


def _guard(f, *a):
    """run a piece of real code / of decoding what it produced; an exception is a reply"""
    try:
        return f(*a)
    except common.Infra:
        raise
    except Exception as e:
        return "raises:%s:%s" % (type(e).__name__, str(e)[:80])


def run_history(ctx, klong, drv, cols, rows, ops, label, early_db=True, dbname="T", twin=False):
    """one history on the real interpreter, the Lean machine and the list-of-rows oracle.
    Returns False when the history was cut short by a failure."""
    case_head = dict(kind="table", label=label, cols=cols, rows=rows, dbname=dbname, twin=twin)
    orc = Oracle(cols, rows)
    by0 = "e=" + ";".join("%s:%s" % (c, row_s([r[i] for r in rows])) for i, c in enumerate(cols))
    if twin:
        by0 += " U=" + by0[2:]
    try:
        real = RealTable(klong, cols, rows, early_db, dbname, twin)
    except Exception as e:
        ctx.oracle_fail("table:create:raises:" + type(e).__name__, dict(case_head, ops=[]), "table created", repr(e))
        return False
    if drv:
        m = drv.ask("new cols=%s rows=%s" % (",".join(cols), rows_s(rows)))
        if m != "ok " + orc.digest():
            ctx.mismatch("Klong.C19.create vs oracle", dict(case_head, ops=[]), m, "ok " + orc.digest())
            return False
    d = _guard(real.digest)
    if d != orc.digest():
        ctx.oracle_fail("table:create", dict(case_head, ops=[]), orc.digest(), d, "table does not hold its columns")
        return False
    pending = []        # inserts since the last operation that reads rows
    shared_reported = False
    intcols = []
    for i, op in enumerate(ops):
        case = dict(case_head, ops=[list(o) for o in ops[:i + 1]], program=None)
        if not pending:      # integer columns of the frame as it was when the buffer was last empty
            intcols = [j for j in range(len(orc.cols)) if orc.rows and all(isinstance(r[j], int) for r in orc.rows[:64])]
        before = dict(cols=list(orc.cols), idx=list(orc.idx) if orc.idx else None, intcols=intcols)
        exp = orc.apply(op)
        if exp is None:          # generator bug: outside the property's domain
            raise common.Infra("C19 generator produced an operation outside the modelled domain: %r" % (op,))
        if op[0] in ("insert", "insertb"):
            pending.append(op)
        got = _guard(real.apply, op)
        case["program"] = [t if len(t) < 400 else t[:200] + " ... " + t[-100:] for t in real.trace]
        key = classify(op, pending, before, dbname, got)
        last = case["program"][-1]
        if got != exp and key == "table:sql:table-name-collides-with-local":
            # the query failed on the table's name, the table itself was read (and flushed) as
            # usual: report, keep the model in step and go on with the history
            ctx.oracle_fail(key, case, exp[:4000], got[:4000], "reply of `%s`" % last)
            if drv:
                drv.ask(model_line(op))
            pending = []
            continue
        if got != exp:
            ctx.oracle_fail(key, case, exp[:4000], got[:4000], "reply of `%s`" % last)
            return False
        d = _guard(real.digest)
        if d != orc.digest():
            ctx.oracle_fail(key, case, _first_diff(orc.digest(), d), _first_diff(d, orc.digest()),
                            "content of the table after `%s`" % last)
            return False
        by = _guard(real.bystanders)
        if by != by0 and not shared_reported:
            ctx.oracle_fail("table:storage-shared-with-source", case, by0, by,
                            "the column list the table was built from / a second table built from it changed after `%s`" % last)
            shared_reported = True       # T itself is still right: the history goes on
        if drv:
            m = drv.ask(model_line(op))
            impl = got + " " + d
            if m != impl:
                ctx.mismatch("Klong.C19.step vs Table (%s)" % op[0], case, _first_diff(m, impl), _first_diff(impl, m))
                return False
        if op[0] in COMMITTING and not (op[0] == "index" and exp == "err") and not (op[0] == "rindex" and exp == "n:0"):
            pending = []
        ctx.bump("op:" + op[0])
        ctx.bump("reply:" + exp.split(":")[0])
        if orc.idx:
            ctx.bump("steps-indexed")
    return True


# --------------------------------------------------------------------------- generators

def gen_table(rng):
    ncols = rng.choice([1, 2, 2, 3, 3, 4])
    cols = NAMES[:ncols]
    flavour = rng.random()
    if flavour < 0.25:
        types = ["int"] * ncols
    elif flavour < 0.45:
        types = [rng.choice(["int", "real"]) for _ in cols]
    else:
        types = [rng.choice(["int", "real", "str"]) for _ in cols]
    n = rng.choice([0, 1, 2, 3, 3, 4, 6])
    rows = []
    firsts = rng.sample(UNIVERSE[types[0]], min(n, len(UNIVERSE[types[0]])))   # first column unique
    for i in range(n):
        rows.append([firsts[i]] + [rng.choice(UNIVERSE[t]) for t in types[1:]])
    return cols, types, rows


KINDCHANGE = [0.5, 2.25, -0.25]       # reals that no integer column can hold


def gen_row(rng, orc, types):
    r = [rng.choice(UNIVERSE[t]) for t in types]
    if rng.random() < 0.05:                     # a real written into an integer column
        ints = [j for j, t in enumerate(types) if t == "int"]
        if ints:
            j = rng.choice(ints)
            r[j] = rng.choice(KINDCHANGE)
            types[j] = "real"
            return r
    if orc.rows and rng.random() < 0.45:      # meet an existing row on its key (or on everything)
        q = rng.choice(orc.rows)
        ks = orc.idx or [rng.choice(orc.cols)]
        for k in ks:
            r[orc.cols.index(k)] = q[orc.cols.index(k)]
        if rng.random() < 0.2:
            r = list(q)
    return r


def gen_ops(rng, cols, types, rows, n):
    """ops generated against the oracle so that the property's preconditions are known"""
    orc = Oracle(cols, rows)
    types = list(types)
    ops = []
    extra = list(EXTRA)
    recent = []
    guard = 0
    if orc.rows and rng.random() < 0.35:          # a good share of histories is indexed from the start
        ks = rng.sample(orc.cols, 2 if len(orc.cols) >= 2 and rng.random() < 0.4 else 1)
        if orc.unique_on(ks) and orc.apply(("index", ks)) is not None:
            ops.append(("index", ks))
    while len(ops) < n and guard < 10 * n:
        guard += 1
        x = rng.random()
        if x < 0.30:
            r = gen_row(rng, orc, types)
            if recent and rng.random() < 0.35:     # the same key again, straight away
                r2 = gen_row(rng, orc, types)
                q = rng.choice(recent)
                for k in (orc.idx or orc.cols[:1]):
                    r2[orc.cols.index(k)] = q[orc.cols.index(k)]
                r = r2
            if len(recent) >= 2 and len(recent[0]) == len(types) and rng.random() < 0.3:
                r = list(rng.choice(recent[:-1]))      # value for value an earlier row again (A, B, A)
            op = ("insert", r)
            recent = (recent + [r])[-3:]
        elif x < 0.42:
            k = rng.choice([1, 2, 2, 3, 5])
            if rng.random() < 0.04:             # a large batch, around the sizes where code paths switch
                k = rng.choice(SIZES[:-1])
            rs = [gen_row(rng, orc, types) for _ in range(k)]
            if k >= 2 and rng.random() < 0.4:
                for c in (orc.idx or orc.cols[:1]):
                    rs[-1][orc.cols.index(c)] = rs[0][orc.cols.index(c)]
                if k >= 3 and rng.random() < 0.5:          # A, B, A inside one batch
                    for c in (orc.idx or orc.cols[:1]):
                        rs[1][orc.cols.index(c)] = rs[0][orc.cols.index(c)]
                    rs[-1] = list(rs[0])
            op = ("insertb", rs)
            recent = (recent + rs)[-3:]
        elif x < 0.54:
            op = ("read", rng.choice(orc.cols))
        elif x < 0.60:
            op = (rng.choice(["count", "count", "sqlcount"]),)
        elif x < 0.70:
            op = ("select",)
        elif x < 0.73:
            op = ("sqlcol", rng.choice(orc.cols))
        elif x < 0.77:
            op = (rng.choice(["schema", "dbschema"]),)
        elif x < 0.86:
            if orc.idx is not None:
                if rng.random() < 0.7:
                    op = ("rindex",)
                else:
                    op = ("index", [rng.choice(orc.cols)])        # already indexed: error
            else:
                k = 2 if len(orc.cols) >= 2 and rng.random() < 0.4 else 1
                ks = rng.sample(orc.cols, k)
                if not orc.unique_on(ks):
                    ks = orc.cols[:1]
                    if not orc.unique_on(ks):
                        continue
                op = ("index", ks)
        elif x < 0.89:
            op = ("rindex",)
        elif x < 0.94:
            if not extra:
                continue
            t = rng.choice(["int", "real", "str"])
            if rng.random() < 0.15:
                op = ("addcol", extra[0], [rng.choice(UNIVERSE[t]) for _ in range(len(orc.rows) + rng.choice([1, 2]))])
            else:
                op = ("addcol", extra.pop(0), [rng.choice(UNIVERSE[t]) for _ in orc.rows])
                types.append(t)
                recent = []
        else:
            y = rng.random()
            if y < 0.4:
                r = gen_row(rng, orc, types)
                op = ("insert", r + [1] if rng.random() < 0.5 or len(r) == 1 else r[:-1])
            elif y < 0.6:
                op = ("read", "zz")
            elif y < 0.8 and orc.idx is None:
                op = ("index", ["zz"])
            else:
                rs = [gen_row(rng, orc, types) + [2] for _ in range(2)]
                op = ("insertb", rs)
        if orc.apply(op) is None:
            continue
        ops.append(op)
    return ops


SIZES = [255, 256, 257, 511, 512, 513, 1023, 1024, 1025, 4096]
FLAVOURS = {
    "int": (["a", "b"], lambda i: [1000 + i, 7 * i]),
    "mixed": (["a", "b", "c"], lambda i: [1000 + i, i / 4, "s%d" % i]),
    "strkey": (["c", "a"], lambda i: ["s%d" % i, i]),
}


def threshold_history(rng, size, indexed, pending, read_between, tail, flavour):
    """a large batch around a size threshold: [index] [pending small insert(s)] [read] BATCH
    [one more insert] reads [index / drop index].  Batch rows mostly carry new keys, a few
    repeat a key of the table, of the pending rows or of the batch itself."""
    cols, mk = FLAVOURS[flavour]
    rows = [mk(i) for i in (-3, -1, -2)]
    orc = Oracle(cols, rows)
    ops = []

    def add(op):
        if orc.apply(op) is None:
            raise common.Infra("C19 threshold generator left the domain: %r" % (op[:1],))
        ops.append(op)

    if indexed:
        add(("index", [cols[0]]))
    if pending == "single":
        add(("insert", mk(-7)))
    elif pending == "batch":
        add(("insertb", [mk(-8), mk(-9)]))
    elif pending == "both":
        add(("insert", mk(-7)))
        add(("insertb", [mk(-8), mk(-9)]))
    if read_between:
        add(rng.choice([("count",), ("read", cols[0]), ("select",), ("sqlcount",)]))
    batch = []
    for i in range(size):
        r = mk(i)
        x = rng.random()
        if x < 0.02 and batch:
            r[0] = rng.choice(batch)[0]          # a key of this batch again
        elif x < 0.03:
            r[0] = mk(rng.choice([-3, -1, -7, -8]))[0]   # a key already there / pending
        batch.append(r)
    add(("insertb", batch))
    if tail:
        add(("insert", mk(size + 5)))
    for op in rng.sample([("read", cols[-1]), ("select",), ("count",), ("sqlcol", cols[0]), ("read", cols[0])], 3):
        add(op)
    if orc.idx is not None and rng.random() < 0.5:
        add(("rindex",))
        add(("select",))
    elif orc.idx is None and orc.unique_on([cols[0]]) and rng.random() < 0.5:
        add(("index", [cols[0]]))
        add(("read", cols[-1]))
        add(("rindex",))
        add(("select",))
    return cols, rows, ops


def threshold_histories(rng, quick):
    combos = []
    if quick:
        # every size once in the situation where order can break (unindexed, something pending,
        # no read in between), plus a seeded handful of the other situations
        for size in SIZES:
            combos.append((size, False, rng.choice(["single", "batch", "both"]), False, rng.random() < 0.7,
                           rng.choice(["int", "mixed", "mixed", "strkey"])))
        for _ in range(6):
            combos.append((rng.choice(SIZES[:-1]), rng.random() < 0.6, rng.choice(["none", "single", "batch", "both"]),
                           rng.random() < 0.5, rng.random() < 0.5, rng.choice(list(FLAVOURS))))
    else:
        for size in SIZES:
            for indexed in (False, True):
                for pending in ("none", "single", "batch", "both"):
                    for read_between in (False, True):
                        combos.append((size, indexed, pending, read_between, rng.random() < 0.5,
                                       rng.choice(list(FLAVOURS))))
    for c in combos:
        yield c, threshold_history(rng, *c)


def pattern_histories():
    """small fixed histories around one flush interval: the same key inserted several times
    before a read, with the last row equal to an earlier pending one (A, B, A), singly, in one
    batch and mixed; on one- and two-column keys of each kind, and on an unindexed table"""
    A, B, C = [2, 5, "p"], [2, 6, "q"], [3, 7, "r"]
    A2, B2 = [2, 5, "q"], [2, 6, "q"]
    base = [[1, 4, "o"], [2, 9, "z"], [4, 4, "o"]]
    cols = ["a", "b", "c"]
    reads = [("read", "b"), ("select",), ("count",), ("read", "c")]
    for ks in (["a"], ["c"], ["a", "c"], None):
        pre = [("index", ks)] if ks else []
        a, b = (A2, B2) if ks and "c" in ks else (A, B)
        if ks == ["c"]:
            rows = [[1, 4, "o"], [2, 9, "q"], [4, 4, "x"]]
        else:
            rows = base
        post = [("rindex",), ("select",)] if ks else []
        yield cols, rows, pre + [("insert", a), ("insert", b), ("insert", a)] + reads[:2] + post
        yield cols, rows, pre + [("insertb", [a, b, a])] + reads[1:3] + post
        yield cols, rows, pre + [("insert", a), ("insertb", [b, C, a])] + reads[2:] + post
        yield cols, rows, pre + [("insertb", [a, b]), ("insert", a), ("insert", b), ("insert", a)] + reads[:1] + post
        yield cols, rows, pre + [("insert", a), ("insert", b), ("count",), ("insert", a)] + reads[:2] + post
        yield cols, rows, pre + [("insert", list(rows[1])), ("insert", b), ("insert", list(rows[1]))] + reads[1:3] + post


def enumerated_histories(maxlen):
    """every history of length <= maxlen over a small alphabet on one fixed table: all
    interleavings of single inserts (new key, the same new key again, an existing key),
    a batch, the read paths, index and drop index"""
    cols = ["a", "b"]
    rows = [[1, 10], [3, 30]]
    alphabet = [
        ("insert", [2, 20]), ("insert", [2, 21]), ("insert", [3, 31]), ("insert", [0, 5]),
        ("insertb", [[4, 40], [2, 22]]),
        ("read", "b"), ("count",), ("select",),
        ("index", ["a"]), ("rindex",), ("addcol", "e", None),
    ]

    def rec(prefix):
        if prefix:
            yield list(prefix)
        if len(prefix) < maxlen:
            for a in alphabet:
                yield from rec(prefix + [a])

    for ops in rec([]):
        # make the history legal for the property: fill in the added column, keep keys unique at index time
        orc = Oracle(cols, rows)
        out = []
        ok = True
        for op in ops:
            if op[0] == "addcol":
                if "e" in orc.cols:
                    ok = False
                    break
                op = ("addcol", "e", [7 + i for i in range(len(orc.rows))])
            if op[0] in ("insert", "insertb") and len(orc.cols) == 3:
                op = (op[0], [r + [9] for r in op[1]]) if op[0] == "insertb" else ("insert", op[1] + [9])
            if orc.apply(op) is None:
                ok = False
                break
            out.append(op)
        if ok:
            yield cols, rows, out


# --------------------------------------------------------------------------- entry

def _interp():
    from klongpy import KlongInterpreter
    klong = KlongInterpreter()
    klong('.py("klongpy.db")')
    return klong


def _fix(o):
    """JSON history -> tuples"""
    return tuple(o)


def run_corpus(ctx, klong, drv):
    cdir = common.CORPUS / "C19"
    if cdir.exists():
        for p in sorted(cdir.glob("*.json")):
            c = json.loads(p.read_text())
            run_history(ctx, klong, drv, c["cols"], c["rows"], [_fix(o) for o in c["ops"]], "corpus:" + p.stem,
                        dbname=c.get("dbname", "T"), twin=c.get("twin", False))
            ctx.count(("corpus", p.stem))
            ctx.bump("corpus")


def run(ctx):
    quick = ctx.tier == "quick"
    drv = Driver("c19") if getattr(ctx, "driver_ok", True) else None
    ctx.rule = ("seeded histories of 2..14 (quick) / 2..40 (thorough) operations (insert, batch insert, t?col, #t, "
                ".schema, .index on 1-2 columns, re-insert of a key, .rindex, t,c,,v, select */count/column through "
                ".db, and rejected requests) on tables of 1-4 integer/real/string columns with 0-6 initial rows; "
"plus every history of length <= 2 (quick) / <= 3 (thorough) over an 11-operation alphabet on a fixed table; "
                "plus large batches of 255..4096 rows (sizes around 256/512/1024, and 4096) after pending inserts with and "
                "without a read in between, on indexed and unindexed tables (quick: every size unindexed+pending, 6 seeded "
                "others; thorough: sizes x indexed x pending kind x read-between = 160); a second table built from the same "
                "column list and the list itself must stay unchanged; the table is registered in .db under varying names "
                "(T, x, k, v, df, e, t); 5% of rows write a real into an integer column. "
                "distinct = distinct histories; non-trivial = at least two operations")
    ctx.assumptions += [
        "an index is created only on columns whose values are unique at that moment (the property's own precondition)",
        "numeric kind of a cell (integer vs real) is not compared: DataFrame.values makes integer columns real next to real ones",
        "an existing column is never overwritten by t,c,,v (only new columns are added)",
        "pandas and duckdb are trusted to implement concat / sort_index / drop_duplicates / .loc / frame scan as the list operations of the model",
    ]
    klong = _interp()
    try:
        run_corpus(ctx, klong, drv)
        nseq = 120 if quick else 1500
        for s in range(nseq):
            cols, types, rows = gen_table(ctx.rng)
            n = ctx.rng.randrange(2, 15 if quick else 41)
            ops = gen_ops(ctx.rng, cols, types, rows, n)
            ok = run_history(ctx, klong, drv, cols, rows, ops, "seeded", early_db=ctx.rng.random() < 0.3,
                             dbname=ctx.rng.choice(DBNAMES), twin=ctx.rng.random() < 0.3)
            ctx.count(("seeded", cols, repr(rows), repr(ops)), nontrivial=len(ops) >= 2)
            ctx.bump("types:" + "+".join(sorted(set(types))))
            if ok and s < 4:
                ctx.sample(dict(kind="table", cols=cols, rows=rows, ops=[list(o) for o in ops][:8]))
        for n, (cols, rows, ops) in enumerate(pattern_histories()):
            run_history(ctx, klong, drv, cols, rows, ops, "pattern", early_db=False)
            ctx.count(("pattern", n))
            ctx.bump("pattern")
        for combo, (cols, rows, ops) in threshold_histories(ctx.rng, quick):
            run_history(ctx, klong, drv, cols, rows, ops, "threshold", early_db=ctx.rng.random() < 0.3,
                        dbname=ctx.rng.choice(DBNAMES))
            ctx.count(("threshold", combo, len(ops)))
            ctx.bump("threshold:%s:%s" % ("indexed" if combo[1] else "unindexed",
                                          "pending" if combo[2] != "none" and not combo[3] else "flushed"))
            ctx.bump("batch-size:%d" % combo[0])
        for cols, rows, ops in enumerated_histories(2 if quick else 3):
            run_history(ctx, klong, drv, cols, rows, ops, "enumerated", early_db=False)
            ctx.count(("enum", repr(ops)), nontrivial=len(ops) >= 2)
            ctx.bump("enumerated")
    finally:
        if drv:
            drv.close()


def replay(ctx, case):
    drv = Driver("c19") if getattr(ctx, "driver_ok", True) else None
    c = case.get("case", case)
    try:
        klong = _interp()
        run_history(ctx, klong, drv, c["cols"], c["rows"], [_fix(o) for o in c["ops"]], "replay",
                    dbname=c.get("dbname", "T"), twin=c.get("twin", False))
        ctx.count(("replay", repr(c["ops"])))
    finally:
        if drv:
            drv.close()
    print("replay:", "oracle failures:", ctx.oracle_failures, "mismatches:", ctx.mismatches)
