"""proposed gen_cases additions for vlib/c01.py (extension 3)"""


def extra_cases(U, seqs):
    P = U.from_py
    cases = []
    # ---- Amend  a:=b, b = [value index…]
    amend_vals = [U.I(0), U.R(0.5), U.C("x"), U.S("xy"), U.S("d"), U.S(""), U.Y("s"), P([9, 9]), P([])]
    amend_idx = [[], [0], [1], [3], [0, 2], [2, 0], [1, 1], [-1], [9], [1, 4]]
    for a in seqs:
        for v in amend_vals:
            for ix in amend_idx:
                cases.append(("D", ":=", a, ('L', [v] + [U.I(i) for i in ix])))
        cases.append(("D", ":=", a, P([])))
    for a in [U.S("-----"), U.S("-------"), U.S("aa"), U.S("abcd"), U.S("abcdef")]:
        for v in [U.C("x"), U.S("xx"), U.S("bc"), U.S("xyz"), U.S("d"), U.S("defg")]:
            for ix in [[1, 3], [1, 4], [1], [2], [3], [4], [5], [6], [7], [0, 2, 4], [4, 0], [5, 2], [2, 5]]:
                cases.append(("D", ":=", a, ('L', [v] + [U.I(i) for i in ix])))
    for a in [U.S("abc"), U.S(""), U.S("abcdef")]:
        for v in [U.I(5), U.I(-12), U.Y("s"), U.C("x"), U.S("xy")]:
            for ix in [[0], [1], [3], [-1], [-3], [-4], [6], [7], [1, -1], [0, 3, 6]]:
                cases.append(("D", ":=", a, ('L', [v] + [U.I(i) for i in ix])))
    for a in [P([[1], [2], [3]]), P([[1, 2]]), P([0.5]), P([1.5, -2.5]), P([[0.5, 1.5]])]:
        for v in [U.I(7), P([9]), P([[9]]), P([9, 9]), U.S("x"), U.R(0.5)]:
            for ix in [[0], [1], [0, 0], [0, 1], [2, 0]]:
                cases.append(("D", ":=", a, ('L', [v] + [U.I(i) for i in ix])))
                cases.append(("D", ":-", a, ('L', [v] + [U.I(i) for i in ix])))
    # ---- Amend-in-Depth  a:-b  and Index-in-Depth  a:@b
    paths = [[], [0], [1], [2], [-1], [0, 0], [0, 1], [1, 0], [1, 2], [2, 0], [0, -1], [0, 0, 0], [1, 0, 1], [1, 1, 1], [0, 1, 0, 0]]
    for a in U.LISTS + [U.S("abc"), U.I(5), P([[[0]]])]:
        for p in paths:
            cases.append(("D", ":@", a, P(p)))
            for v in [U.I(42), U.C("x"), U.S("ab"), U.Y("s"), P([9]), U.R(0.5)]:
                cases.append(("D", ":-", a, ('L', [v] + [U.I(i) for i in p])))
        for b in [U.I(0), U.I(1), U.I(-1), U.I(7), U.R(0.5), U.S("")]:
            cases.append(("D", ":@", a, b))
    # ---- Divide / Power beyond the ATOMIC_DYADS loop: zero divisors, exact powers up to 2^53 and beyond
    extra_nums = [P([6, 8]), P([2, 0]), P([[6, 8], [1, 2]]), P([6, [8, 9]]), P([2, [4, 0]]), U.I(0), U.I(2), U.R(0.0)]
    for a in extra_nums + [U.C("a"), U.S("a"), U.Y("a")]:
        for b in extra_nums:
            cases.append(("D", "%", a, b))
            cases.append(("D", "^", a, b))
    for a in range(-12, 13):
        for b in list(range(0, 40)) + [53, 54, 62, 63, 64]:
            cases.append(("D", "^", U.I(a), U.I(b)))
    for a in [2, 3, 7, 10, 100, 94906265, 94906266, 94906267, 208063, 208064, 208065]:
        for b in [2, 3, 4, 17, 26, 27, 52, 53, 54]:
            cases.append(("D", "^", U.I(a), U.I(b)))
    # ---- monads Reciprocal, Char, Undefined, Format (also add "%", ":#", ":_", "$" to MONADS)
    for a in [U.I(64), U.I(10), U.I(1114111), U.I(1114112), U.I(100), U.I(4), P([97, 98]), P([97, [98, 99]]),
              P([[97, 98], [99, 100]]), P([97, []]), P([[]]), P([97, -1]), P([97, 0.5]), U.L(U.I(97), U.S("a")),
              U.L(U.I(1), U.S(""), U.I(2)), U.L(U.S("a"), P([1, 2])), U.L(U.I(1), U.C("x"), P([2])),
              U.L(U.I(1), U.L(U.S("a"), U.Y("b"))), U.L(U.L(U.S("a")), U.L(U.Y("b"), U.C("c"))), U.L(U.I(-12), U.S("a")),
              U.L(U.I(1), U.R(0.5), U.S("x")), U.I(-123), U.I(123), U.I(1000000), U.I(-1000000007),
              P([[], []]), P([[[]]]), U.L(U.I(1), P([[]]))]:
        for verb in (":#", "$", "%", ":_"):
            cases.append(("M", verb, a, None))
    # ---- Form  a:$b
    tmpl = [U.I(1), U.I(0), U.C("0"), U.S(""), U.S("abc"), U.Y("x"), U.R(1.0), P([1, 2]), U.L(U.I(1), U.C("x")), P([1, [2, 3]]),
            U.L(U.I(1), U.S("a")), P([]), U.L(U.S(""), U.S("")), U.L(U.Y("a"), U.Y("b")), U.L(U.C("a"), U.C("b"))]
    texts = [U.S(t) for t in ["-123", "123", "", "abc", "1.5", "1e5", " 12", "+5", "1_0", "--5", "-", "12a", "0x10", "1.", ".5", "a.b",
                              "x", "xy", "string", "symbol", ":symbol", ":", "a b", "1a", "a1.b", ".f", "-0", "007", "-1.25", "inf",
                              "nan", ".", " 12 ", "1__0", "_1", "1_", "+-5", "- 5", "12 3", "1_2_3", "-1_0", "٣"]]
    texts += [U.L(U.S("12"), U.S("34")), U.L(U.S("12"), U.S("y")), U.L(U.S("a"), U.S("b")), U.L(U.S("1"), U.L(U.S("2"), U.S("3"))),
              P([]), U.I(12), U.C("x"), U.Y("foo"), P([1, 2])]
    for a in tmpl:
        for b in texts:
            cases.append(("D", ":$", a, b))
    return cases
