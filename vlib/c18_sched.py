"""C18 — cooperative deterministic scheduler and the instrumentation of FileCache.

Every client operation sequence and every worker task runs in its own OS thread, but a
thread only ever runs between two *points*; at a point it blocks until the controller
(the harness thread) grants it the next step.  Exactly one managed thread runs at a time,
so the interleaving is the controller's choice, never the OS's.

Instrumented points (labels):
    exists, getsize            os.path.exists / os.path.getsize in get_file
    lock                       acquisition of FileCache.file_futures_lock (the whole
                               lock-protected block, including executor.submit, is one step)
    unlock                     right after the release of that lock (stutter step: not sent to
                               the Lean machine)
    wait                       Future.result() — enabled only when the future is done
    read                       worker: open(...,'rb') + file.read()
    trunc, write, fsync        worker: open(...,'wb'), f.write, os.fsync
    complete                   worker function returned / raised -> future becomes done

Nothing here can hang: every blocking wait has a timeout, the controller has a step budget,
and an aborted run unblocks all managed threads with `SchedAbort` (a BaseException).
"""
import threading

HARD_TIMEOUT = 30.0      # seconds the controller waits for one step / one spawn before giving up
THREAD_TIMEOUT = 300.0   # seconds a blocked managed thread waits for its turn (>> any run)
JOIN_TIMEOUT = 5.0


class HarnessGlitch(Exception):
    """the scheduler itself lost control of a run (a step did not come back within HARD_TIMEOUT
    of wall time, or a replayed choice was not enabled): an infrastructure problem, never a
    verdict about klongpy — deadlock and livelock of the real code are detected by the
    enabledness test and the step budget, not by wall time"""


class SchedAbort(BaseException):
    pass


def is_stutter(label):
    """points the Lean machine does not know: in the unchanged code the thread does nothing there
    that another thread of the cache could observe (lock release, no-op first step after a wrong
    first-label guess, file-system probes / directory creation of a worker, lock-registry access)"""
    return label in ("unlock", "start", "reg") or str(label).startswith("fs:")


class _Sem:
    """binary semaphore on a raw lock (C-level acquire with timeout; much faster than
    threading.Semaphore); at most one release is ever outstanding"""

    def __init__(self):
        self.l = threading.Lock()
        self.l.acquire()

    def acquire(self, timeout):
        return self.l.acquire(True, -1 if timeout is None else timeout)

    def release(self):
        try:
            self.l.release()
        except RuntimeError:
            pass


class _Worker:
    """pooled OS thread (thread creation costs ~0.6 ms here; a run needs 5-10 managed threads).
    A managed thread is a job on a pooled worker; workers are daemons and are reused only
    after their job's body has returned, so a stuck job merely costs one worker."""
    idle = []
    guard = threading.Lock()

    def __init__(self):
        self.go = _Sem()
        self.job = None
        self.thread = threading.Thread(target=self.loop, daemon=True, name="c18-worker")
        self.thread.start()

    def loop(self):
        while True:
            self.go.acquire(None)
            job, self.job = self.job, None
            try:
                job()
            except BaseException:
                pass
            with _Worker.guard:
                _Worker.idle.append(self)

    @staticmethod
    def run_job(job, mt):
        with _Worker.guard:
            w = _Worker.idle.pop() if _Worker.idle else None
        if w is None:
            w = _Worker()
        w.job = job
        w.go.release()


class _MT:
    """a managed thread"""

    def __init__(self, tid, kind, name=None):
        self.tid = tid
        self.kind = kind            # "client" | "task"
        self.name = name            # file name for tasks
        self.sem = _Sem()
        self.ready = threading.Event()
        self.state = "new"          # new | blocked | running | done
        self.label = None
        self.enabled = None
        self.first = True
        self.skip = None            # label of the first instrumented call, already waited for
        self.fin = _Sem()           # released when the body has returned (join)
        self.crash = None           # unexpected exception in the wrapper itself


class Sched:
    def __init__(self, step_budget=400):
        self.threads = {}           # tid -> _MT, insertion order = creation order
        self.ctl = _Sem()
        self.tls = threading.local()
        self.abort = False
        self.step_budget = step_budget
        self.trace = []             # dicts: tid, label, enabled (list of tids), plus per-step notes
        self.step = -1              # index of the step being executed
        self.status = None          # ok | deadlock | budget | hang | bad-choice
        self.diag = ""

    # ---- called from managed threads
    def me(self):
        return getattr(self.tls, "mt", None)

    def point(self, label, enabled=None):
        t = self.me()
        if t is None:               # not a managed thread (harness itself): run straight through
            return
        if t.skip is not None:
            sk, t.skip = t.skip, None
            if sk == label:
                return
            # the first instrumented call is not the one guessed when the thread was parked: the
            # step already granted under the guessed label did nothing -> it was a `start` step
            fs = getattr(t, "first_step", None)
            if fs is not None and 0 <= fs < len(self.trace) and self.trace[fs]["tid"] == t.tid:
                self.trace[fs]["label"] = "start"
        self._block(t, label, enabled)

    def first_point(self, label, enabled=None):
        """block before running anything; the matching first instrumented call is then skipped"""
        t = self.me()
        self._block(t, label, enabled)
        t.skip = label
        t.first_step = self.step

    def _block(self, t, label, enabled):
        t.label, t.enabled = label, enabled
        t.state = "blocked"
        if t.first:
            t.first = False
            t.ready.set()
        else:
            self.ctl.release()
        if not t.sem.acquire(timeout=THREAD_TIMEOUT) or self.abort:
            raise SchedAbort()
        t.state = "running"

    def note(self, **kw):
        """attach information to the step being executed"""
        if 0 <= self.step < len(self.trace):
            self.trace[self.step].update(kw)

    # ---- thread creation (from the controller or from a running managed thread)
    def spawn(self, tid, kind, body, name=None):
        mt = _MT(tid, kind, name)
        self.threads[tid] = mt

        def wrapper():
            self.tls.mt = mt
            mt.ident = threading.get_ident()
            try:
                body()
            except SchedAbort:
                pass
            except BaseException as e:     # a bug in the harness wrapper, not in klongpy
                mt.crash = e
            finally:
                was_first = mt.first
                mt.state = "done"
                mt.fin.release()
                if was_first:
                    mt.first = False
                    mt.ready.set()
                else:
                    self.ctl.release()

        _Worker.run_job(wrapper, mt)
        if not mt.ready.wait(HARD_TIMEOUT):
            self.status = "hang"
            self.diag = self.dump(f"spawned thread {tid} did not reach its first point")
            self.abort = True
        return mt

    def dump(self, what):
        import sys
        import traceback
        out = [what, "states: " + ", ".join(f"{t.tid}:{t.state}:{t.label}" for t in self.threads.values())]
        frames = sys._current_frames()
        for t in self.threads.values():
            fr = frames.get(getattr(t, "ident", None))
            if fr is not None:
                out.append(f"--- {t.tid}\n" + "".join(traceback.format_stack(fr)[-6:]))
        return "\n".join(out)[-4000:]

    # ---- controller
    def enabled_now(self):
        out = []
        for t in self.threads.values():
            if t.state == "blocked":
                try:
                    ok = t.enabled is None or bool(t.enabled())
                except Exception:
                    ok = False
                if ok:
                    out.append(t.tid)
        return out

    def live(self):
        return [t for t in self.threads.values() if t.state != "done"]

    def run(self, chooser, until=None):
        """grant steps until every thread is done (or `until()` holds). chooser(i, enabled, prev) -> tid"""
        prev = self.trace[-1]["tid"] if self.trace else None
        while True:
            if self.abort:
                self.status = self.status or "hang"
                return self.status
            if until is not None and until():
                return "ok"
            if not self.live():
                self.status = "ok"
                return "ok"
            en = self.enabled_now()
            if not en:
                self.status = "deadlock"
                return self.status
            if len(self.trace) >= self.step_budget:
                self.status = "budget"
                return self.status
            tid = chooser(len(self.trace), en, prev)
            if tid not in en:
                self.status = "bad-choice"
                self.diag = f"choice {tid} at step {len(self.trace)} not in enabled set {en}"
                return self.status
            t = self.threads[tid]
            self.trace.append(dict(tid=tid, label=t.label, enabled=list(en), prev=prev,
                                   parked=[x.tid for x in self.threads.values()
                                           if x.state == "blocked" and is_stutter(x.label)]))
            self.step = len(self.trace) - 1
            t.sem.release()
            if not self.ctl.acquire(timeout=HARD_TIMEOUT):
                self.status = "hang"
                self.diag = self.dump(f"step {len(self.trace) - 1} ({tid} {t.label}) did not come back")
                self.abort = True
                return self.status
            prev = tid

    def shutdown(self):
        """unblock and join everything; never hangs"""
        self.abort = True
        for t in self.threads.values():
            t.sem.release()
        leaked = 0
        for t in self.threads.values():
            if not t.fin.acquire(JOIN_TIMEOUT):
                leaked += 1
        return leaked


# --------------------------------------------------------------------------- fakes

class FakeFuture:
    def __init__(self, sched, fid, name, kind):
        self.sched = sched
        self.fid = fid
        self.name = name
        self.kind = kind            # "load" | "write"
        self._done = False
        self.value = None
        self.exc = None
        self.data = None            # for writes: the bytes being written

    def done(self):
        return self._done

    def result(self, timeout=None):
        self.sched.point("wait", enabled=lambda: self._done)
        if self.exc is not None:
            raise self.exc
        return self.value

    def exception(self, timeout=None):
        self.sched.point("wait", enabled=lambda: self._done)
        return self.exc

    def _set(self, value, exc):
        self.value, self.exc, self._done = value, exc, True


class FakeExecutor:
    """`executor.submit` creates a managed thread blocked before the task's first file-system call"""

    def __init__(self, sched):
        self.sched = sched
        self.futures = []

    def submit(self, fn, *args, **kw):
        s = self.sched
        fid = len(self.futures)
        fname = getattr(fn, "__name__", "")
        kind = "load" if fname == "_load_file" else "write" if fname == "_write_file" else fname
        name = args[0] if args else None
        fut = FakeFuture(s, fid, name, kind)
        if kind == "write" and len(args) > 1:
            fut.data = bytes(args[1])
        self.futures.append(fut)
        first = "read" if kind == "load" else "trunc"

        def body():
            s.first_point(first)
            try:
                v, exc = fn(*args, **kw), None
            except SchedAbort:
                raise
            except BaseException as e:
                v, exc = None, e
            me = s.me()
            me.skip = None
            s.point("complete")
            fut._set(v, exc)

        s.note(submitted=fid)
        s.spawn(f"K{fid}", "task", body, name=name)
        return fut

    def shutdown(self, wait=True, **kw):
        pass


class FakeLock:
    def __init__(self, sched, on_acquire=None, on_release=None, label="lock"):
        self.sched = sched
        self.label = label
        self.held = False
        self.on_acquire = on_acquire
        self.on_release = on_release

    def acquire(self, blocking=True, timeout=-1):
        self.sched.point(self.label, enabled=lambda: not self.held)
        while self.held and self.sched.me() is not None and not self.sched.abort:
            # granted through a first-label guess that carried no enabledness test: wait properly
            t = self.sched.me()
            fs = getattr(t, "first_step", None)
            if fs is not None and 0 <= fs < len(self.sched.trace) and self.sched.trace[fs]["tid"] == t.tid \
                    and self.sched.step == fs:
                self.sched.trace[fs]["label"] = "start"
            self.sched.point(self.label, enabled=lambda: not self.held)
        if self.held:               # only reachable from an unmanaged thread
            raise RuntimeError("FakeLock contended outside the scheduler")
        self.held = True
        if self.on_acquire:
            self.on_acquire()
        return True

    def release(self, exc_type=None):
        if self.on_release:
            self.on_release(exc_type)
        self.held = False
        # the release is a scheduling point: the thread can be parked right after leaving the
        # lock-protected block while other threads and worker tasks run (in the unchanged code
        # it only does thread-local work from here to its next point, so this is a stutter step
        # for the Lean machine; code that touches shared state in this window is exposed)
        if not self.sched.abort:
            self.sched.point("unlock")

    def locked(self):
        return self.held

    def __enter__(self):
        self.acquire()
        return self

    def __exit__(self, et, ev, tb):
        self.release(et)
        return False


class _ReadFile:
    def __init__(self, sched, f):
        self.sched, self.f = sched, f

    def read(self, *a):
        self.sched.point("read")
        return self.f.read(*a)

    def __enter__(self):
        return self

    def __exit__(self, *a):
        self.f.close()
        return False

    def close(self):
        self.f.close()

    def __getattr__(self, k):
        return getattr(self.f, k)


class _WriteFile:
    def __init__(self, sched, f):
        self.sched, self.f = sched, f

    def write(self, data):
        self.sched.point("write")
        n = self.f.write(data)
        self.f.flush()              # make the bytes visible at this step (trusted: write = one step)
        return n

    def __enter__(self):
        return self

    def __exit__(self, *a):
        self.f.close()
        return False

    def close(self):
        self.f.close()

    def __getattr__(self, k):
        return getattr(self.f, k)


def make_open(sched, real_open):
    def fake_open(path, mode="r", *a, **kw):
        if "w" in mode:
            sched.point("trunc")
            return _WriteFile(sched, real_open(path, mode, *a, **kw))
        if "r" in mode and "b" in mode:
            return _ReadFile(sched, real_open(path, mode, *a, **kw))
        return real_open(path, mode, *a, **kw)
    return fake_open


class _PathProxy:
    """os.path of klongpy.db.file_cache.  exists/getsize of a client thread are the two stat
    points of get_file.  Every other probe (and a worker's exists) is a scheduling point `fs:<call>`
    exactly when its path does not exist yet: files and directories are never removed by the
    cache, so a probe of something that exists has a stable answer and commutes with everything,
    while a probe of something missing races with whoever creates it."""

    def __init__(self, sched, real):
        self._s, self._r = sched, real

    def _probe(self, name, p):
        t = self._s.me()
        if t is not None and not self._r.exists(p):
            self._s.point("fs:" + name)

    def exists(self, p):
        t = self._s.me()
        if t is not None and t.kind == "client":
            self._s.point("exists")
        else:
            self._probe("exists", p)
        return self._r.exists(p)

    def getsize(self, p):
        t = self._s.me()
        if t is not None and t.kind == "client":
            self._s.point("getsize")
        return self._r.getsize(p)

    def isdir(self, p):
        self._probe("isdir", p)
        return self._r.isdir(p)

    def isfile(self, p):
        self._probe("isfile", p)
        return self._r.isfile(p)

    def lexists(self, p):
        self._probe("lexists", p)
        return self._r.lexists(p)

    def __getattr__(self, k):
        return getattr(self._r, k)


class OsProxy:
    def __init__(self, sched, real):
        self._s, self._r = sched, real
        self.path = _PathProxy(sched, real.path)

    def fsync(self, fd):
        # one scheduling point per write task: the fsync of the data file; later fsyncs of the
        # same task (directories) have no effect on what any thread can observe
        t = self._s.me()
        if t is not None and not getattr(t, "fsynced", False):
            t.fsynced = True
            self._s.point("fsync")
        return self._r.fsync(fd)

    # directory creation: a point when the directory is missing (see _PathProxy)
    def makedirs(self, p, *a, **kw):
        if self._s.me() is not None and not self._r.path.isdir(p):
            self._s.point("fs:makedirs")
        return self._r.makedirs(p, *a, **kw)

    def mkdir(self, p, *a, **kw):
        if self._s.me() is not None and not self._r.path.isdir(p):
            self._s.point("fs:mkdir")
        return self._r.mkdir(p, *a, **kw)

    # calls that change what other threads can see of a file are always points
    def _always(name):
        def f(self, *a, **kw):
            self._s.point("fs:" + name)
            return getattr(self._r, name)(*a, **kw)
        return f

    rename = _always("rename")
    replace = _always("replace")
    remove = _always("remove")
    unlink = _always("unlink")
    truncate = _always("truncate")
    stat = _always("stat")
    del _always

    def __getattr__(self, k):
        return getattr(self._r, k)


class RegistryDict(dict):
    """backing dict of PandasDataFrameCache.append_locks (a WeakValueDictionary): look-ups and
    stores of the per-file merge-lock registry are scheduling points (`reg`)"""

    def __init__(self, sched):
        super().__init__()
        self._s = sched

    def __getitem__(self, k):
        self._s.point("reg")
        return dict.__getitem__(self, k)

    def __setitem__(self, k, v):
        self._s.point("reg")
        dict.__setitem__(self, k, v)

    def get(self, k, d=None):
        self._s.point("reg")
        return dict.get(self, k, d)

    def __contains__(self, k):
        self._s.point("reg")
        return dict.__contains__(self, k)

    def setdefault(self, k, d=None):
        self._s.point("reg")
        return dict.setdefault(self, k, d)


class ThreadingProxy:
    """stands in for the `threading` module of klongpy.db.df_cache: per-file append locks become
    scheduler-controlled locks (label `flock`)"""

    def __init__(self, sched, real):
        self._s, self._r = sched, real

    def Lock(self):
        return FakeLock(self._s, label="flock")

    def __getattr__(self, k):
        return getattr(self._r, k)


class Clock:
    def __init__(self):
        self.t = 0

    def time_ns(self):
        self.t += 1
        return self.t

    def time(self):
        self.t += 1
        return float(self.t)
