/-
  C19 — klongpy/db/sys_fn_db.py `Table` as a list-of-rows machine with an insert buffer,
  and the abstract table (no buffer: every insert applied at once) it must be
  indistinguishable from.

  Mirrors (klongpy/db/sys_fn_db.py, after the `fix:` commits of branch fix-c19):
    Table.__init__ / eval_sys_fn_create_table  -> `create`
    Table.insert / insertb / eval_sys_fn_insert_table -> `step … (.insert r)`, `(.insertb rs)`
    Table.commit                               -> `commit`  (unindexed: concatenate;
                                                  indexed: `commitIdx` = last buffered row per
                                                  key, `_create_index_from_cols`, drop of the
                                                  stored rows of the buffered keys, concat with
                                                  the buffer frame, sort_index)
    Table._create_index_from_cols              -> `createIndex` (sort_index, drop_duplicates)
    Table.get_dataframe / __len__              -> `commit` first, then the read
    Table.get   (klongpy/dyads.py eval_dyad_find `t?col`)   -> `.readCol`  (commits: fix 1)
    Table.set   (klongpy/dyads.py eval_dyad_join `t,c,,v`)  -> `.addCol`   (commits: fix 3)
    Table.schema / eval_sys_fn_schema          -> `.schema`  (does not commit)
    Table.set_index / eval_sys_fn_index        -> `.index`
    Table.reset_index / eval_sys_fn_reset_index-> `.rindex`  (commits only when indexed)
    Database.__call__ "select * from T"        -> `.selectAll`
  The behaviour of the pinned tree before the fixes is kept as `Pinned.*` for the
  `decide`-checked witnesses in Props/C19.lean.

  Values: a cell is a number (integers and reals alike, held exactly as a multiple of 1/4:
  pandas' `DataFrame.values` turns an integer column into a real one as soon as a real
  column sits next to it, so the numeric *kind* of a cell is not part of the model) or a
  string (list of code points).  pandas / duckdb are trusted to implement the list
  operations written here.
-/
import Klong.Model.Wire
namespace Klong.C19
open Klong.Wire

inductive Cell
  | num (q : Int)          -- the number q/4
  | str (cs : List Nat)    -- a string, by code points
deriving DecidableEq, Repr

abbrev Row := List Cell
abbrev Key := List Cell
abbrev Col := String

/-! ### order of keys: lexicographic, numbers before strings -/

/-- lexicographic `≤` on lists of equal length (shorter list first otherwise) -/
def lexLe {α : Type} [DecidableEq α] (le : α → α → Bool) : List α → List α → Bool
  | [], _ => true
  | _ :: _, [] => false
  | a :: as, b :: bs => if a = b then lexLe le as bs else le a b

def natLe (a b : Nat) : Bool := decide (a ≤ b)

def Cell.le : Cell → Cell → Bool
  | .num a, .num b => decide (a ≤ b)
  | .num _, .str _ => true
  | .str _, .num _ => false
  | .str a, .str b => lexLe natLe a b

def Key.le (a b : Key) : Bool := lexLe Cell.le a b

/-! ### the pandas steps as list operations, for a key function `kf` -/

/-- insert in front of the first row whose key is not smaller (folding from the right with
    it is a stable sort) -/
def insertRow (kf : Row → Key) (r : Row) : List Row → List Row
  | [] => [r]
  | q :: qs => if Key.le (kf r) (kf q) then r :: q :: qs else q :: insertRow kf r qs

/-- `sort_index` -/
def sortRows (kf : Row → Key) : List Row → List Row
  | [] => []
  | r :: rs => insertRow kf r (sortRows kf rs)

/-- `drop_duplicates()` : fully identical rows, first one kept -/
def dropDupRows : List Row → List Row
  | [] => []
  | r :: rs => r :: (dropDupRows rs).filter (fun q => q != r)

/-- `drop_duplicates(subset=idx_cols, keep='last')` : the last row of every key, in place -/
def dedupLast (kf : Row → Key) : List Row → List Row
  | [] => []
  | r :: rs => if rs.any (fun q => kf q == kf r) then dedupLast kf rs else r :: dedupLast kf rs

/-- `_create_index_from_cols` : index on the key, `sort_index`, `drop_duplicates` -/
def createIndex (kf : Row → Key) (rs : List Row) : List Row := dropDupRows (sortRows kf rs)

/-- first row with key `k` -/
def findKey (kf : Row → Key) (k : Key) (rs : List Row) : Option Row := rs.find? (fun r => kf r == k)

/-- last row with key `k` -/
def findLast (kf : Row → Key) (k : Key) (rs : List Row) : Option Row := findKey kf k rs.reverse

def hasKey (kf : Row → Key) (rs : List Row) (k : Key) : Bool := rs.any (fun q => kf q == k)

/-- `commit()` of an indexed table: frame `C`, buffer `B` -/
def commitIdx (kf : Row → Key) (C B : List Row) : List Row :=
  let bdf := createIndex kf (dedupLast kf B)                     -- buffer_df
  let keep := C.filter (fun r => !hasKey kf bdf (kf r))          -- _df.drop(index=common_idx)
  sortRows kf (keep ++ bdf)                                      -- concat, sort_index

/-! ### the table -/

structure Table where
  cols : List Col
  committed : List Row
  buffer : List Row
  idx : Option (List Col)
deriving Repr, DecidableEq

def positions (cols : List Col) (ks : List Col) : List Nat := ks.map (fun k => cols.idxOf k)

def cellAt (r : Row) (i : Nat) : Cell := r.getD i (.num 0)

def keyOf (pos : List Nat) (r : Row) : Key := pos.map (cellAt r)

/-- key function of an index on the columns `ks` -/
def keyFn (cols : List Col) (ks : List Col) : Row → Key := keyOf (positions cols ks)

def create (cols : List Col) (rows : List Row) : Table :=
  { cols, committed := rows, buffer := [], idx := none }

def commit (t : Table) : Table :=
  if t.buffer.isEmpty then t
  else match t.idx with
    | none => { t with committed := t.committed ++ t.buffer, buffer := [] }
    | some ks => { t with committed := commitIdx (keyFn t.cols ks) t.committed t.buffer, buffer := [] }

inductive Op
  | insert (r : Row)
  | insertb (rs : List Row)
  | readCol (c : Col)
  | count
  | schema
  | index (ks : List Col)
  | rindex
  | addCol (c : Col) (vs : List Cell)
  | selectAll
deriving Repr, DecidableEq

inductive Out
  | table                          -- `.insert` / `t,c,,v` return the table
  | col (v : Option (List Cell))   -- `none` is :undefined
  | n (k : Nat)
  | names (cs : List Col)
  | rows (rs : List Row)
  | err                            -- the interpreter raises (wrong width, no such column, …)
  | outside                        -- request outside the modelled domain (never sent by the tie)
deriving Repr, DecidableEq

def column (cols : List Col) (rows : List Row) (c : Col) : Option (List Cell) :=
  if c ∈ cols then some (rows.map (fun r => cellAt r (cols.idxOf c))) else none

/-- is the batch a 2-d array (all rows as wide as the first) -/
def rect (rs : List Row) (w : Nat) : Bool := rs.all (fun r => r.length == w)

def addCells (rows : List Row) (vs : List Cell) : List Row := List.zipWith (fun r v => r ++ [v]) rows vs

def step (t : Table) : Op → Table × Out
  | .insert r =>
    if r.length = t.cols.length then ({ t with buffer := t.buffer ++ [r] }, .table) else (t, .err)
  | .insertb rs =>
    match rs with
    | [] => (t, .outside)
    | r0 :: _ =>
      if !rect rs r0.length then (t, .outside)
      else if r0.length = t.cols.length then ({ t with buffer := t.buffer ++ rs }, .table)
      else (t, .err)
  | .readCol c =>
    let t1 := commit t
    (t1, .col (column t1.cols t1.committed c))
  | .count =>
    let t1 := commit t
    (t1, .n t1.committed.length)
  | .schema => (t, .names t.cols)
  | .index ks =>
    if t.idx.isSome then (t, .err)
    else if ks = [] ∨ ¬ ks.Nodup then (t, .outside)
    else if ¬ ks ⊆ t.cols then (t, .err)
    else
      let t1 := commit t
      let kf := keyFn t1.cols ks
      -- the property speaks about indexes on columns whose values are unique
      if ¬ (t1.committed.map kf).Nodup then (t1, .outside)
      else ({ t1 with committed := createIndex kf t1.committed, idx := some ks }, .names ks)
  | .rindex =>
    if t.idx.isSome then
      let t1 := commit t
      ({ t1 with idx := none }, .n 1)
    else (t, .n 0)
  | .addCol c vs =>
    let t1 := commit t
    if c ∈ t1.cols then (t1, .outside)          -- overwriting a column is not modelled
    else if vs.length = t1.committed.length then
      ({ t1 with cols := t1.cols ++ [c], committed := addCells t1.committed vs }, .table)
    else if t1.committed.isEmpty then (t1, .outside)   -- pandas lets a column define the rows of an empty frame
    else (t1, .err)
  | .selectAll =>
    let t1 := commit t
    (t1, .rows t1.committed)

def run (t : Table) : List Op → Table × List Out
  | [] => (t, [])
  | op :: ops =>
    let (t1, o) := step t op
    let (t2, os) := run t1 ops
    (t2, o :: os)

/-- what the table holds: the frame after flushing the buffer -/
def content (t : Table) : List Row := (commit t).committed

/-! ### abstract table: no buffer, every insert applied at once -/

structure Spec where
  cols : List Col
  rows : List Row
  idx : Option (List Col)
deriving Repr, DecidableEq

/-- key ↦ row map kept sorted by key: replace the row of the key or put it in its place -/
def upsert (kf : Row → Key) (r : Row) : List Row → List Row
  | [] => [r]
  | q :: qs =>
    if kf q = kf r then r :: qs
    else if Key.le (kf r) (kf q) then r :: q :: qs
    else q :: upsert kf r qs

def Spec.ins (s : Spec) (rs : List Row) : List Row :=
  match s.idx with
  | none => s.rows ++ rs
  | some ks => rs.foldl (fun acc r => upsert (keyFn s.cols ks) r acc) s.rows

def specStep (s : Spec) : Op → Spec × Out
  | .insert r =>
    if r.length = s.cols.length then ({ s with rows := s.ins [r] }, .table) else (s, .err)
  | .insertb rs =>
    match rs with
    | [] => (s, .outside)
    | r0 :: _ =>
      if !rect rs r0.length then (s, .outside)
      else if r0.length = s.cols.length then ({ s with rows := s.ins rs }, .table)
      else (s, .err)
  | .readCol c => (s, .col (column s.cols s.rows c))
  | .count => (s, .n s.rows.length)
  | .schema => (s, .names s.cols)
  | .index ks =>
    if s.idx.isSome then (s, .err)
    else if ks = [] ∨ ¬ ks.Nodup then (s, .outside)
    else if ¬ ks ⊆ s.cols then (s, .err)
    else if ¬ (s.rows.map (keyFn s.cols ks)).Nodup then (s, .outside)
    else ({ s with rows := sortRows (keyFn s.cols ks) s.rows, idx := some ks }, .names ks)
  | .rindex => if s.idx.isSome then ({ s with idx := none }, .n 1) else (s, .n 0)
  | .addCol c vs =>
    if c ∈ s.cols then (s, .outside)
    else if vs.length = s.rows.length then
      ({ s with cols := s.cols ++ [c], rows := addCells s.rows vs }, .table)
    else if s.rows.isEmpty then (s, .outside)
    else (s, .err)
  | .selectAll => (s, .rows s.rows)

def specRun (s : Spec) : List Op → Spec × List Out
  | [] => (s, [])
  | op :: ops =>
    let (s1, o) := specStep s op
    let (s2, os) := specRun s1 ops
    (s2, o :: os)

def abs (t : Table) : Spec := { cols := t.cols, rows := content t, idx := t.idx }

/-- rows handed to the table by a history (those of the right width) -/
def inserted (w : Nat) : List Op → List Row
  | [] => []
  | .insert r :: ops => (if r.length = w then [r] else []) ++ inserted w ops
  | .insertb rs :: ops =>
    (match rs with
     | [] => []
     | r0 :: _ => if rect rs r0.length && r0.length == w then rs else []) ++ inserted w ops
  | _ :: ops => inserted w ops

/-- operations that insert or read but change neither index nor columns -/
def Op.isData : Op → Bool
  | .insert _ | .insertb _ | .readCol _ | .count | .schema | .selectAll => true
  | _ => false

/-! ### the pinned tree (before fix-c19), for the recorded witnesses -/

namespace Pinned

/-- `commit()` without the last-row-per-key step -/
def commitIdx (kf : Row → Key) (C B : List Row) : List Row :=
  let bdf := createIndex kf B
  let C' := C.map (fun r => (findKey kf (kf r) bdf).getD r)
  let new := bdf.filter (fun r => !hasKey kf C (kf r))
  sortRows kf (C' ++ new)

def commit (t : Table) : Table :=
  if t.buffer.isEmpty then t
  else match t.idx with
    | none => { t with committed := t.committed ++ t.buffer, buffer := [] }
    | some ks => { t with committed := commitIdx (keyFn t.cols ks) t.committed t.buffer, buffer := [] }

/-- `Table.get` read `_df` without flushing the buffer -/
def readCol (t : Table) (c : Col) : Table × Out := (t, .col (column t.cols t.committed c))

def count (t : Table) : Table × Out := let t1 := commit t; (t1, .n t1.committed.length)

end Pinned

/-! ### driver -/

def parseCell (s : String) : Option Cell :=
  match s.splitOn ":" with
  | ["n", v] => v.toInt?.map Cell.num
  | ["s", v] => (parseHex v).map Cell.str
  | _ => none

def showCell : Cell → String
  | .num q => s!"n:{q}"
  | .str cs => s!"s:{toHex cs}"

def parseRow (s : String) : Option Row := (splitOnChar s ',').mapM parseCell

def parseRows (s : String) : Option (List Row) := (splitOnChar s ';').mapM parseRow

def showRow (r : Row) : String := ",".intercalate (r.map showCell)

def showRows (rs : List Row) : String := ";".intercalate (rs.map showRow)

def showOut : Out → String
  | .table => "table"
  | .col none => "undefined"
  | .col (some v) => s!"col:{showRow v}"
  | .n k => s!"n:{k}"
  | .names cs => s!"names:{",".intercalate cs}"
  | .rows rs => s!"rows:{showRows rs}"
  | .err => "err"
  | .outside => "outside"

def digest (t : Table) : String :=
  let i := match t.idx with
    | none => "-"
    | some ks => ",".intercalate ks
  s!"cols={",".intercalate t.cols} idx={i} content={showRows (content t)}"

def parseOp (ws : List String) : Option Op :=
  match ws with
  | "insert" :: rest => (parseRow (fieldD (fields rest) "row")).map Op.insert
  | "insertb" :: rest => (parseRows (fieldD (fields rest) "rows")).map Op.insertb
  | "read" :: rest => some (.readCol (fieldD (fields rest) "col"))
  | ["count"] => some .count
  | ["schema"] => some .schema
  | "index" :: rest => some (.index (listField (fields rest) "ks"))
  | ["rindex"] => some .rindex
  | "addcol" :: rest =>
    (parseRow (fieldD (fields rest) "vals")).map (Op.addCol (fieldD (fields rest) "col"))
  | ["select"] => some .selectAll
  | _ => none

def init : Table := create [] []

def handle (t : Table) (ws : List String) : Table × String :=
  match ws with
  | "new" :: rest =>
    let fs := fields rest
    let cols := listField fs "cols"
    match parseRows (fieldD fs "rows") with
    | some rows =>
      if rect rows cols.length then
        let t' := create cols rows
        (t', "ok " ++ digest t')
      else (t, "bad-op")
    | none => (t, "bad-op")
  | _ =>
    match parseOp ws with
    | some op =>
      let (t', o) := step t op
      (t', showOut o ++ " " ++ digest t')
    | none => (t, "bad-op")

end Klong.C19
