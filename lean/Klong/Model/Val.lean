/-
  Klong data values and their wire format (shared by C01, C02, C03, C05, C08).

  Wire format (S-expressions, one value):
    (i -3)  (r 3ff8000000000000)  (c 97)  (y 102 111 111)  (s 97 98)  (L v …)  (D (k v) …)  U
  integers are decimal, reals are the 16-hex-digit IEEE-754 bit pattern, characters / symbol
  and string contents are decimal code points.
-/
import Klong.Model.Wire
namespace Klong

inductive Val where
  | int (n : Int)
  | real (bits : UInt64)
  | chr (c : Nat)
  | sym (cs : List Nat)
  | str (cs : List Nat)
  | list (xs : List Val)
  | dict (kvs : List (Val × Val))
  | undef
deriving Repr, Inhabited

namespace Val

mutual
def beq : Val → Val → Bool
  | .int a, .int b => a == b
  | .real a, .real b => a == b
  | .chr a, .chr b => a == b
  | .sym a, .sym b => a == b
  | .str a, .str b => a == b
  | .list a, .list b => beqList a b
  | .dict a, .dict b => beqPairs a b
  | .undef, .undef => true
  | _, _ => false
def beqList : List Val → List Val → Bool
  | [], [] => true
  | a :: as, b :: bs => beq a b && beqList as bs
  | _, _ => false
def beqPairs : List (Val × Val) → List (Val × Val) → Bool
  | [], [] => true
  | (a, b) :: as, (c, d) :: bs => beq a c && beq b d && beqPairs as bs
  | _, _ => false
end

instance : BEq Val := ⟨beq⟩

def isAtom : Val → Bool
  | .list [] => true
  | .list _ => false
  | .str (_ :: _) => false
  | _ => true

def isNum : Val → Bool
  | .int _ => true
  | .real _ => true
  | _ => false

/-! ### printing -/

def hex16 (n : UInt64) : String :=
  let rec go (k : Nat) (v : Nat) (acc : List Char) : List Char :=
    match k with
    | 0 => acc
    | k + 1 => go k (v / 16) (Wire.hexChar (v % 16) :: acc)
  String.ofList (go 16 n.toNat [])

def natsToString (cs : List Nat) : String := " ".intercalate (cs.map toString)

mutual
def toWire : Val → String
  | .int n => s!"(i {n})"
  | .real b => s!"(r {hex16 b})"
  | .chr c => s!"(c {c})"
  | .sym cs => if cs.isEmpty then "(y)" else s!"(y {natsToString cs})"
  | .str cs => if cs.isEmpty then "(s)" else s!"(s {natsToString cs})"
  | .list xs => if xs.isEmpty then "(L)" else "(L" ++ toWireList xs ++ ")"
  | .dict kvs => if kvs.isEmpty then "(D)" else "(D" ++ toWirePairs kvs ++ ")"
  | .undef => "U"
def toWireList : List Val → String
  | [] => ""
  | x :: xs => " " ++ toWire x ++ toWireList xs
def toWirePairs : List (Val × Val) → String
  | [] => ""
  | (k, v) :: r => " (" ++ toWire k ++ " " ++ toWire v ++ ")" ++ toWirePairs r
end

/-! ### parsing (driver only) -/

inductive Tok where
  | lp | rp | atom (s : String)
deriving Repr, BEq

def tokenize (s : String) : List Tok :=
  let flush (cur : List Char) (acc : List Tok) : List Tok :=
    if cur.isEmpty then acc else .atom (String.ofList cur.reverse) :: acc
  let rec go (cs : List Char) (cur : List Char) (acc : List Tok) : List Tok :=
    match cs with
    | [] => (flush cur acc).reverse
    | c :: rest =>
      if c == '(' then go rest [] (.lp :: flush cur acc)
      else if c == ')' then go rest [] (.rp :: flush cur acc)
      else if c == ' ' then go rest [] (flush cur acc)
      else go rest (c :: cur) acc
  go s.toList [] []

def parseHex64 (s : String) : Option UInt64 :=
  s.toList.foldlM (fun (acc : Nat) c => (Wire.hexDigit c).map (fun d => acc * 16 + d)) 0
    |>.map UInt64.ofNat

/-- read decimal atoms up to the closing parenthesis -/
def parseNats : List Tok → List Nat → Option (List Nat × List Tok)
  | .rp :: r, acc => some (acc.reverse, r)
  | .atom a :: r, acc => match a.toNat? with
    | some n => parseNats r (n :: acc)
    | none => none
  | _, _ => none

mutual
partial def parse : List Tok → Option (Val × List Tok)
  | .atom "U" :: r => some (.undef, r)
  | .lp :: .atom "i" :: .atom n :: .rp :: r => n.toInt?.map fun k => (.int k, r)
  | .lp :: .atom "r" :: .atom h :: .rp :: r => (parseHex64 h).map fun b => (.real b, r)
  | .lp :: .atom "c" :: .atom n :: .rp :: r => n.toNat?.map fun k => (.chr k, r)
  | .lp :: .atom "y" :: r => (parseNats r []).map fun (cs, r') => (.sym cs, r')
  | .lp :: .atom "s" :: r => (parseNats r []).map fun (cs, r') => (.str cs, r')
  | .lp :: .atom "L" :: r => (parseList r []).map fun (xs, r') => (.list xs, r')
  | .lp :: .atom "D" :: r => (parsePairs r []).map fun (xs, r') => (.dict xs, r')
  | _ => none
partial def parseList : List Tok → List Val → Option (List Val × List Tok)
  | .rp :: r, acc => some (acc.reverse, r)
  | ts, acc => match parse ts with
    | some (v, r) => parseList r (v :: acc)
    | none => none
partial def parsePairs : List Tok → List (Val × Val) → Option (List (Val × Val) × List Tok)
  | .rp :: r, acc => some (acc.reverse, r)
  | .lp :: ts, acc => match parse ts with
    | some (k, r) => match parse r with
      | some (v, .rp :: r') => parsePairs r' ((k, v) :: acc)
      | _ => none
    | none => none
  | _, _ => none
end

/-- parse a sequence of values from one request line tail -/
partial def parseMany (ts : List Tok) (acc : List Val := []) : Option (List Val) :=
  match ts with
  | [] => some acc.reverse
  | _ => match parse ts with
    | some (v, r) => parseMany r (v :: acc)
    | none => none

def ofWire (s : String) : Option Val :=
  match parse (tokenize s) with
  | some (v, []) => some v
  | _ => none

end Val
end Klong
