/-
  C09 — `Interop`: the interpreter as a dictionary of Python values and functions.

  Mirrors (klongpy, tree with the `fix-c09` commits applied):
    klongpy/types.py  KGLambda.__init__            -> `lambdaArgs`, `arity`, `providesKlong`
                      (pinned tree: by NAME        -> `lambdaArgsByName`, kept for the witness)
    klongpy/types.py  KGLambda._get_pos_args/__call__ -> `fetch`, `applyPyWith`
    klongpy/interpreter.py _eval_fn                -> `bindArgs` (zip of x,y,z with the evaluated
                                                      arguments, push, call, pop), `fill`
                                                      (merge_projections, one level)
    klongpy/adverbs.py eval_adverb_each / _over, dyads.py eval_dyad_at_index (function case)
                                                   -> `eachPy`, `overPy`, `atPy`
    klongpy/interpreter.py set_context_var, KlongContext.__setitem__/__getitem__/__delitem__,
                      KlongInterpreter.__setitem__/__getitem__/__delitem__
                                                   -> `wrap`, `setItem`, `lookupCtx`, `getItem`, `delItem`
    klongpy/types.py  KGFnWrapper.__call__/_apply   -> `wrapperTarget`, `entryArity`, `wrapperCall`
    klong('name(a;b;c)')                            -> `klongCall`

  Values are opaque (`α`): the interop layer never inspects a data value.  A Python callable
  is an arbitrary function of (how many calls were logged before, its arguments); every
  invocation is appended to a log (writer structure), which is what "called exactly once
  with exactly these arguments" is stated about.  The body of a Klong function is
  uninterpreted: applying body `b` to `args` is the symbolic result `kres b args`.
-/
import Klong.Model.Wire
namespace Klong.C09
open Klong.Wire

/-! ### signatures -/

inductive Param
  | klong | x | y | z | other
deriving DecidableEq, Repr

abbrev Sig := List Param
abbrev Name := String

def reserved : List Param := [.x, .y, .z]

def Param.name : Param → Name
  | .klong => "klong" | .x => "x" | .y => "y" | .z => "z" | .other => "other"

/-- pinned tree: `[sym(n) for n in ('x','y','z') if n in params]` — by NAME, in x,y,z order -/
def lambdaArgsByName (sig : Sig) : List Param := reserved.filter (fun p => sig.contains p)

/-- repaired tree: the first n of x,y,z where n = number of parameters named x, y or z -/
def lambdaArgs (sig : Sig) : List Param := reserved.take (lambdaArgsByName sig).length

/-- `KGLambda.get_arity` -/
def arity (sig : Sig) : Nat := (lambdaArgs sig).length

/-- `'klong' in params` -/
def providesKlong (sig : Sig) : Bool := sig.contains .klong

/-! ### context stack -/

inductive Entry (α : Type)
  | data (v : α)                                     -- any non-callable Python / Klong value
  | pyfn (id : Nat) (sig : Sig)                      -- KGCall(KGLambda(fn), None, arity): a wrapped callable
  | kfn (arity : Nat) (body : Nat)                   -- KGFn made by name::{…}
  | proj (base : Name) (slots : List (Option α))     -- KGFn made by name::base(a;;c)
deriving Repr, DecidableEq

abbrev Frame (α : Type) := List (Name × Entry α)
/-- innermost frame first, the global frame last -/
abbrev Ctx (α : Type) := List (Frame α)

/-- `KlongContext.__getitem__` (modules not modelled) -/
def lookupCtx {α} : Ctx α → Name → Option (Entry α)
  | [], _ => none
  | f :: fs, n => match f.lookup n with
    | some e => some e
    | none => lookupCtx fs n

def isReserved (n : Name) : Bool := n == "x" || n == "y" || n == "z"

def Frame.set {α} (f : Frame α) (n : Name) (e : Entry α) : Frame α :=
  (n, e) :: f.filter (fun p => p.1 != n)

def Frame.has {α} (f : Frame α) (n : Name) : Bool := (f.lookup n).isSome

/-- a value handed over from Python -/
inductive PyVal (α : Type)
  | data (v : α)
  | callable (id : Nat) (sig : Sig)
deriving Repr, DecidableEq

/-- `set_context_var`: callables are wrapped, everything else is stored as is -/
def wrap {α} : PyVal α → Entry α
  | .data v => .data v
  | .callable id sig => .pyfn id sig

/-- overwrite in the first frame that has the name -/
def setExisting {α} : Ctx α → Name → Entry α → Option (Ctx α)
  | [], _, _ => none
  | f :: fs, n, e =>
    if f.has n then some (f.set n e :: fs)
    else (setExisting fs n e).map (f :: ·)

/-- `KlongContext.__setitem__` (strict mode 0): an existing, non-reserved name is overwritten
    where it lives, otherwise the variable is created in the innermost frame -/
def setEntry {α} (c : Ctx α) (n : Name) (e : Entry α) : Ctx α :=
  match (if isReserved n then none else setExisting c n e) with
  | some c' => c'
  | none => match c with
    | [] => [[(n, e)]]
    | f :: fs => f.set n e :: fs

/-- `klong[name] = v` -/
def setItem {α} (c : Ctx α) (n : Name) (v : PyVal α) : Ctx α := setEntry c n (wrap v)

/-- `del klong[name]`: removes the first binding; `none` = KeyError -/
def delItem {α} : Ctx α → Name → Option (Ctx α)
  | [], _ => none
  | f :: fs, n =>
    if f.has n then some (f.filter (fun p => p.1 != n) :: fs)
    else (delItem fs n).map (f :: ·)

/-- `KGFnWrapper(klong, fn, sym)` -/
structure Wrapper (α : Type) where
  sym : Option Name
  fn : Entry α
deriving Repr, DecidableEq

inductive Got (α : Type)
  | data (v : α)
  | wrapper (w : Wrapper α)
  | keyError
deriving Repr, DecidableEq

/-- `klong[name]`: functions come back wrapped, data as is -/
def getItem {α} (c : Ctx α) (n : Name) : Got α :=
  match lookupCtx c n with
  | none => .keyError
  | some (.data v) => .data v
  | some e => .wrapper ⟨some n, e⟩

/-! ### calling -/

structure World (α : Type) where
  /-- callable id, number of calls logged before this one, arguments -/
  ret : Nat → Nat → List α → α

/-- one invocation of a Python callable: id, whether it was handed the interpreter, arguments -/
structure Call (α : Type) where
  id : Nat
  klong : Bool
  args : List α
deriving Repr, DecidableEq

abbrev Log (α : Type) := List (Call α)

inductive Err
  | keyError | arityError | undefined | unsupported
deriving Repr, DecidableEq

inductive Out (α : Type)
  | val (v : α)                          -- a value (the return value of a Python callable, or data)
  | list (vs : List α)                   -- result of Each
  | kres (body : Nat) (args : List α)    -- a Klong body run on these arguments
  | unapplied                            -- too few arguments: a projection comes back, nothing is called
  | err (e : Err)
deriving Repr, DecidableEq

/-- `_eval_fn`: `{sym(p): eval(q) for p, q in zip(('x','y','z'), f_args)}` -/
def bindArgs {α} (args : List α) : Frame α :=
  (List.zip ["x", "y", "z"] args).map fun p => (p.1, Entry.data p.2)

/-- `ctx[sym]` as an argument value (a function-valued x/y/z is outside the model) -/
def fetch {α} (c : Ctx α) (p : Param) : Option α :=
  match lookupCtx c p.name with
  | some (.data v) => some v
  | _ => none

/-- `[ctx[x] for x in self.args]`; `none` = KeyError -/
def fetchAll {α} (c : Ctx α) : List Param → Option (List α)
  | [] => some []
  | p :: ps =>
    match fetch c p, fetchAll c ps with
    | some v, some vs => some (v :: vs)
    | _, _ => none

/-- `_eval_fn` on a wrapped Python callable + `KGLambda.__call__`, for a given way of
    deriving the declared arguments from the signature -/
def applyPyWith {α} (argsOf : Sig → List Param) (w : World α) (c : Ctx α) (id : Nat) (sig : Sig)
    (args : List α) (log : Log α) : Out α × Log α :=
  if args.length < (argsOf sig).length then (.unapplied, log)
  else
    match fetchAll (bindArgs args :: c) (argsOf sig) with
    | none => (.err .keyError, log)
    | some pos => (.val (w.ret id log.length pos), log ++ [⟨id, providesKlong sig, pos⟩])

/-- the repaired code -/
def applyPy {α} (w : World α) (c : Ctx α) (id : Nat) (sig : Sig) (args : List α) (log : Log α) :=
  applyPyWith lambdaArgs w c id sig args log

/-- the pinned tree -/
def applyPyByName {α} (w : World α) (c : Ctx α) (id : Nat) (sig : Sig) (args : List α) (log : Log α) :=
  applyPyWith lambdaArgsByName w c id sig args log

/-- `merge_projections`, one level: open slots are filled left to right -/
def fill {α} : List (Option α) → List α → List (Option α)
  | [], _ => []
  | some v :: s, as => some v :: fill s as
  | none :: s, a :: as => some a :: fill s as
  | none :: s, [] => none :: fill s []

def allSome {α} : List (Option α) → Option (List α)
  | [] => some []
  | none :: _ => none
  | some v :: r => (allSome r).map (v :: ·)

/-- `g::f(a;;c)` then `g(b)` -/
def projPyWith {α} (argsOf : Sig → List Param) (w : World α) (c : Ctx α) (id : Nat) (sig : Sig)
    (slots : List (Option α)) (args : List α) (log : Log α) : Out α × Log α :=
  match allSome (fill slots args) with
  | none => (.unapplied, log)
  | some full => applyPyWith argsOf w c id sig full log

/-- `f'a` for a list `a` -/
def eachPyWith {α} (argsOf : Sig → List Param) (w : World α) (c : Ctx α) (id : Nat) (sig : Sig) :
    List α → Log α → Out α × Log α
  | [], log => (.list [], log)
  | e :: es, log =>
    match applyPyWith argsOf w c id sig [e] log with
    | (.val r, log1) =>
      match eachPyWith argsOf w c id sig es log1 with
      | (.list rs, log2) => (.list (r :: rs), log2)
      | other => other
    | other => other

/-- the fold of `f/a` once the first element has been taken -/
def overFromWith {α} (argsOf : Sig → List Param) (w : World α) (c : Ctx α) (id : Nat) (sig : Sig) :
    α → List α → Log α → Out α × Log α
  | acc, [], log => (.val acc, log)
  | acc, e :: es, log =>
    match applyPyWith argsOf w c id sig [acc, e] log with
    | (.val r, log1) => overFromWith argsOf w c id sig r es log1
    | other => other

/-- `f/a` for a list `a`: [] and one-element lists never call f -/
def overPyWith {α} (argsOf : Sig → List Param) (w : World α) (c : Ctx α) (id : Nat) (sig : Sig) :
    List α → Log α → Out α × Log α
  | [], log => (.list [], log)
  | a :: es, log => overFromWith argsOf w c id sig a es log

/-- `f@a` for a list `a`: the members are the arguments -/
def atPyWith {α} (argsOf : Sig → List Param) (w : World α) (c : Ctx α) (id : Nat) (sig : Sig)
    (elems : List α) (log : Log α) : Out α × Log α :=
  applyPyWith argsOf w c id sig elems log

def eachPy {α} (w : World α) (c : Ctx α) (id : Nat) (sig : Sig) := eachPyWith (α := α) lambdaArgs w c id sig
def overPy {α} (w : World α) (c : Ctx α) (id : Nat) (sig : Sig) := overPyWith (α := α) lambdaArgs w c id sig
def atPy {α} (w : World α) (c : Ctx α) (id : Nat) (sig : Sig) := atPyWith (α := α) lambdaArgs w c id sig
def projPy {α} (w : World α) (c : Ctx α) (id : Nat) (sig : Sig) := projPyWith (α := α) lambdaArgs w c id sig

/-! ### the other adverbs (klongpy/adverbs.py eval_adverb_each2 / _each_left / _each_right /
    _each_pair / _scan_over / _over_neutral / _scan_over_neutral).  The members of a string operand
    are its characters, one member per position (repeats included). -/

/-- a sequence of independent applications: one call per argument tuple, in order -/
def seqPyWith {α} (argsOf : Sig → List Param) (w : World α) (c : Ctx α) (id : Nat) (sig : Sig) :
    List (List α) → Log α → Out α × Log α
  | [], log => (.list [], log)
  | t :: ts, log =>
    match applyPyWith argsOf w c id sig t log with
    | (.val r, log1) =>
      match seqPyWith argsOf w c id sig ts log1 with
      | (.list rs, log2) => (.list (r :: rs), log2)
      | other => other
    | other => other

def pairsOf {α} : List α → List (List α)
  | a :: b :: rest => [a, b] :: pairsOf (b :: rest)
  | _ => []

/-- `f:'a`: an atom-like operand (no or one member) comes back untouched -/
def eachPairPyWith {α} (argsOf : Sig → List Param) (w : World α) (c : Ctx α) (id : Nat) (sig : Sig)
    (elems : List α) (log : Log α) : Out α × Log α :=
  match elems with
  | [] => (.list [], log)
  | [a] => (.list [a], log)
  | _ => seqPyWith argsOf w c id sig (pairsOf elems) log

/-- `a f:\b` -/
def eachLeftPyWith {α} (argsOf : Sig → List Param) (w : World α) (c : Ctx α) (id : Nat) (sig : Sig)
    (a : α) (bs : List α) (log : Log α) : Out α × Log α :=
  seqPyWith argsOf w c id sig (bs.map fun b => [a, b]) log

/-- `a f:/b` -/
def eachRightPyWith {α} (argsOf : Sig → List Param) (w : World α) (c : Ctx α) (id : Nat) (sig : Sig)
    (a : α) (bs : List α) (log : Log α) : Out α × Log α :=
  seqPyWith argsOf w c id sig (bs.map fun b => [b, a]) log

/-- `a f'b` for two lists -/
def each2PyWith {α} (argsOf : Sig → List Param) (w : World α) (c : Ctx α) (id : Nat) (sig : Sig)
    (as bs : List α) (log : Log α) : Out α × Log α :=
  seqPyWith argsOf w c id sig (List.zipWith (fun a b => [a, b]) as bs) log

/-- the intermediate results of a fold after `acc` -/
def scanFromWith {α} (argsOf : Sig → List Param) (w : World α) (c : Ctx α) (id : Nat) (sig : Sig) :
    α → List α → Log α → Out α × Log α
  | _, [], log => (.list [], log)
  | acc, e :: es, log =>
    match applyPyWith argsOf w c id sig [acc, e] log with
    | (.val r, log1) =>
      match scanFromWith argsOf w c id sig r es log1 with
      | (.list rs, log2) => (.list (r :: rs), log2)
      | other => other
    | other => other

/-- `f\a` -/
def scanPyWith {α} (argsOf : Sig → List Param) (w : World α) (c : Ctx α) (id : Nat) (sig : Sig) :
    List α → Log α → Out α × Log α
  | [], log => (.list [], log)
  | a :: es, log =>
    match scanFromWith argsOf w c id sig a es log with
    | (.list rs, log1) => (.list (a :: rs), log1)
    | other => other

/-- `a f/b`: b = [] gives a -/
def overNeutralPyWith {α} (argsOf : Sig → List Param) (w : World α) (c : Ctx α) (id : Nat) (sig : Sig)
    (a : α) (bs : List α) (log : Log α) : Out α × Log α :=
  overFromWith argsOf w c id sig a bs log

/-- `a f\b`: b = [] gives a -/
def scanNeutralPyWith {α} (argsOf : Sig → List Param) (w : World α) (c : Ctx α) (id : Nat) (sig : Sig)
    (a : α) (bs : List α) (log : Log α) : Out α × Log α :=
  match bs with
  | [] => (.val a, log)
  | _ => scanPyWith argsOf w c id sig (a :: bs) log

def seqPy {α} (w : World α) (c : Ctx α) (id : Nat) (sig : Sig) := seqPyWith (α := α) lambdaArgs w c id sig
def scanPy {α} (w : World α) (c : Ctx α) (id : Nat) (sig : Sig) := scanPyWith (α := α) lambdaArgs w c id sig

/-- reference for a sequence of applications -/
def seqSpec {α} (w : World α) (id : Nat) (k : Bool) : List (List α) → Log α → List α × Log α
  | [], log => ([], log)
  | t :: ts, log =>
    let r := w.ret id log.length t
    let (rs, log') := seqSpec w id k ts (log ++ [⟨id, k, t⟩])
    (r :: rs, log')

/-- reference for Scan: the intermediate results and the log of a left fold of single calls -/
def scanSpec {α} (w : World α) (id : Nat) (k : Bool) : α → List α → Log α → List α × Log α
  | _, [], log => ([], log)
  | acc, e :: es, log =>
    let r := w.ret id log.length [acc, e]
    let (rs, log') := scanSpec w id k r es (log ++ [⟨id, k, [acc, e]⟩])
    (r :: rs, log')

/-- reference for Over: what a left fold of single logged calls produces -/
def overSpec {α} (w : World α) (id : Nat) (k : Bool) : α → List α → Log α → α × Log α
  | acc, [], log => (acc, log)
  | acc, e :: es, log =>
    overSpec w id k (w.ret id log.length [acc, e]) es (log ++ [⟨id, k, [acc, e]⟩])

/-- reference for Each -/
def eachSpec {α} (w : World α) (id : Nat) (k : Bool) : List α → Log α → List α × Log α
  | [], log => ([], log)
  | e :: es, log =>
    let r := w.ret id log.length [e]
    let (rs, log') := eachSpec w id k es (log ++ [⟨id, k, [e]⟩])
    (r :: rs, log')

/-! ### applying what a name is bound to -/

/-- a function without open slots (not a projection): run it -/
def applyBase {α} (w : World α) (c : Ctx α) (e : Entry α) (args : List α) (log : Log α) : Out α × Log α :=
  match e with
  | .data _ => (.err .unsupported, log)          -- "calling" a data value is not an application: not modelled
  | .pyfn id sig => applyPy w c id sig args log
  | .kfn ar body => if args.length < ar then (.unapplied, log) else (.kres body (args.take ar), log)
  | .proj _ _ => (.err .unsupported, log)        -- projection of a projection: C03, not modelled here

def countOpen {α} (slots : List (Option α)) : Nat := (slots.filter Option.isNone).length

/-- `_eval_fn` of a call whose function is `e`: a projection first resolves its base name
    (`_resolve_fn` raises "undefined" for an unbound one), then merges the arguments into the
    open slots -/
def applyEntry {α} (w : World α) (c : Ctx α) (e : Entry α) (args : List α) (log : Log α) : Out α × Log α :=
  match e with
  | .proj base slots =>
    match lookupCtx c base with
    | none => (.err .undefined, log)
    | some (.proj _ _) => (.err .unsupported, log)   -- projection of a projection: C03, not modelled here
    | some b =>
      match allSome (fill slots args) with
      | none => (.unapplied, log)
      | some full => applyBase w c b full log
  | e => applyBase w c e args log

/-- `klong('name(a;b;c)')` with the arguments already evaluated -/
def klongCall {α} (w : World α) (c : Ctx α) (n : Name) (args : List α) (log : Log α) : Out α × Log α :=
  match lookupCtx c n with
  | none => (.err .undefined, log)
  | some e => applyEntry w c e args log

/-- the number of arguments `KGFnWrapper._apply` insists on -/
def entryArity {α} : Entry α → Nat
  | .data _ => 0
  | .pyfn _ sig => arity sig
  | .kfn ar _ => ar
  | .proj _ slots => countOpen slots

/-- dynamic re-resolution: the current binding if it is a Klong function (KGFn, not KGCall),
    otherwise — deleted, data, or a wrapped Python callable — the captured function -/
def wrapperTarget {α} (c : Ctx α) (wr : Wrapper α) : Entry α :=
  match wr.sym with
  | none => wr.fn
  | some s =>
    match lookupCtx c s with
    | some (.kfn ar b) => .kfn ar b
    | some (.proj base slots) => .proj base slots
    | _ => wr.fn

/-- `KGFnWrapper.__call__` -/
def wrapperCall {α} (w : World α) (c : Ctx α) (wr : Wrapper α) (args : List α) (log : Log α) :
    Out α × Log α :=
  let f := wrapperTarget c wr
  if args.length ≠ entryArity f then (.err .arityError, log)
  else applyEntry w c f args log

/-! ### histories -/

inductive Op (α : Type)
  | set (n : Name) (v : PyVal α)                       -- klong[n] = v
  | defk (n : Name) (arity : Nat) (body : Nat)         -- n::{…}
  | defp (n : Name) (base : Name) (slots : List (Option α))   -- n::base(a;;c)
  | del (n : Name)                                     -- del klong[n] (KeyError leaves the state alone)
deriving Repr, DecidableEq

def Op.name {α} : Op α → Name
  | .set n _ => n | .defk n _ _ => n | .defp n _ _ => n | .del n => n

def step {α} (c : Ctx α) : Op α → Ctx α
  | .set n v => setItem c n v
  | .defk n ar b => setEntry c n (.kfn ar b)
  | .defp n base slots => setEntry c n (.proj base slots)
  | .del n => (delItem c n).getD c

def runOps {α} (c : Ctx α) (ops : List (Op α)) : Ctx α := ops.foldl step c

/-! ### driver (values are interned tokens) -/

structure State where
  byName : Bool := false
  ctx : Ctx Nat := [[]]
  wrappers : List (Nat × Wrapper Nat) := []
  rets : List Nat := []
  log : Log Nat := []

def init : State := {}

def State.world (s : State) : World Nat := ⟨fun _ i _ => s.rets.getD i 0⟩
def State.argsOf (s : State) : Sig → List Param := if s.byName then lambdaArgsByName else lambdaArgs

def parseParam : String → Option Param
  | "k" => some .klong | "x" => some .x | "y" => some .y | "z" => some .z | "o" => some .other
  | _ => none

def parseSig (s : String) : Option Sig := (splitOnChar s ',').mapM parseParam

def parseNats (s : String) : Option (List Nat) := (splitOnChar s ',').mapM String.toNat?

def parseSlots (s : String) : Option (List (Option Nat)) :=
  (splitOnChar s ',').mapM fun t => if t = "_" then some none else t.toNat?.map some

def showNats (l : List Nat) : String := ",".intercalate (l.map toString)

def showErr : Err → String
  | .keyError => "keyerror" | .arityError => "arity" | .undefined => "undefined" | .unsupported => "unsupported"

def showOut : Out Nat → String
  | .val v => s!"val:{v}"
  | .list vs => s!"list:{showNats vs}"
  | .kres b as => s!"kres:{b}:{showNats as}"
  | .unapplied => "unapplied"
  | .err e => s!"err:{showErr e}"

def showCall (c : Call Nat) : String :=
  s!"{c.id}/{if c.klong then 1 else 0}/{".".intercalate (c.args.map toString)}"

def showLog (l : Log Nat) : String := ";".intercalate (l.map showCall)

/-- reply with the outcome and the calls this operation added to the log -/
def finish (s : State) (r : Out Nat × Log Nat) : State × String :=
  ({ s with log := r.2 }, showOut r.1 ++ " log=" ++ showLog (r.2.drop s.log.length))

def handle (s : State) (ws : List String) : State × String :=
  match ws with
  | "new" :: rest =>
    let fs := fields rest
    match parseNats (fieldD fs "rets") with
    | some rets => ({ byName := fieldD fs "mode" == "byname", rets := rets }, "ok")
    | none => (s, "bad-op")
  | "set" :: rest =>
    let fs := fields rest
    let n := fieldD fs "name"
    if n == "" then (s, "bad-op") else
    match fieldD fs "kind" with
    | "data" =>
      match natField fs "v" with
      | some v => ({ s with ctx := setItem s.ctx n (.data v) }, "ok")
      | none => (s, "bad-op")
    | "py" =>
      match natField fs "id", parseSig (fieldD fs "sig") with
      | some id, some sig => ({ s with ctx := setItem s.ctx n (.callable id sig) }, "ok")
      | _, _ => (s, "bad-op")
    | _ => (s, "bad-op")
  | "defk" :: rest =>
    let fs := fields rest
    match natField fs "arity", natField fs "body" with
    | some ar, some b =>
      if fieldD fs "name" == "" then (s, "bad-op")
      else ({ s with ctx := step s.ctx (.defk (fieldD fs "name") ar b) }, "ok")
    | _, _ => (s, "bad-op")
  | "defp" :: rest =>
    let fs := fields rest
    match parseSlots (fieldD fs "slots") with
    | some slots =>
      if fieldD fs "name" == "" || fieldD fs "base" == "" then (s, "bad-op")
      else ({ s with ctx := step s.ctx (.defp (fieldD fs "name") (fieldD fs "base") slots) }, "ok")
    | none => (s, "bad-op")
  | "del" :: rest =>
    let fs := fields rest
    match delItem s.ctx (fieldD fs "name") with
    | some c => ({ s with ctx := c }, "ok")
    | none => (s, "keyerror")
  | "get" :: rest =>
    let fs := fields rest
    match getItem s.ctx (fieldD fs "name") with
    | .data v => (s, s!"data:{v}")
    | .keyError => (s, "keyerror")
    | .wrapper w =>
      match natField fs "wid" with
      | some wid => ({ s with wrappers := (wid, w) :: s.wrappers }, "wrapper")
      | none => (s, "wrapper")
  | "see" :: rest =>
    let fs := fields rest
    match lookupCtx s.ctx (fieldD fs "name") with
    | some (.data v) => (s, s!"data:{v}")
    | some _ => (s, "fn")
    | none => (s, "undefined")
  | "wcall" :: rest =>
    let fs := fields rest
    match natField fs "wid", parseNats (fieldD fs "args") with
    | some wid, some args =>
      match s.wrappers.lookup wid with
      | some w => finish s (wrapperCall s.world s.ctx w args s.log)
      | none => (s, "bad-op")
    | _, _ => (s, "bad-op")
  | "kcall" :: rest =>
    let fs := fields rest
    match parseNats (fieldD fs "args") with
    | some args => finish s (klongCall s.world s.ctx (fieldD fs "name") args s.log)
    | none => (s, "bad-op")
  | "pycall" :: rest =>
    let fs := fields rest
    match parseNats (fieldD fs "args"), parseNats (fieldD fs "frame"), parseSlots (fieldD fs "slots") with
    | some args, some frame, some slots =>
      -- the call happens inside a Klong function whose x,y,z are `frame` (empty: top level)
      let c := if frame.isEmpty then s.ctx else bindArgs frame :: s.ctx
      match lookupCtx s.ctx (fieldD fs "name") with
      | some (.pyfn id sig) =>
        match fieldD fs "form" with
        | "direct" => finish s (applyPyWith s.argsOf s.world c id sig args s.log)
        | "proj" => finish s (projPyWith s.argsOf s.world c id sig slots args s.log)
        | "each" => finish s (eachPyWith s.argsOf s.world c id sig args s.log)
        | "over" => finish s (overPyWith s.argsOf s.world c id sig args s.log)
        | "at" => finish s (atPyWith s.argsOf s.world c id sig args s.log)
        | "scan" => finish s (scanPyWith s.argsOf s.world c id sig args s.log)
        | "eachpair" => finish s (eachPairPyWith s.argsOf s.world c id sig args s.log)
        | "each2" =>
          match parseNats (fieldD fs "left") with
          | some l => finish s (each2PyWith s.argsOf s.world c id sig l args s.log)
          | none => (s, "bad-op")
        | "eachleft" | "eachright" | "overn" | "scann" =>
          match natField fs "left" with
          | some a =>
            match fieldD fs "form" with
            | "eachleft" => finish s (eachLeftPyWith s.argsOf s.world c id sig a args s.log)
            | "eachright" => finish s (eachRightPyWith s.argsOf s.world c id sig a args s.log)
            | "overn" => finish s (overNeutralPyWith s.argsOf s.world c id sig a args s.log)
            | _ => finish s (scanNeutralPyWith s.argsOf s.world c id sig a args s.log)
          | none => (s, "bad-op")
        | _ => (s, "bad-op")
      | _ => (s, "not-a-callable")
    | _, _, _ => (s, "bad-op")
  | _ => (s, "bad-op")

end Klong.C09
