/-
  C15 — the periodic timer runner of klongpy/sys_fn_timer.py over exact integer time
  (one unit = 2^-10 s; every float operation of the runner is exact on such values).

  Mirrors:
    asyncio BaseEventLoop._run_once     -> the dispatch rule of `dispatch`: a pending handle may
                                           run when it was queued by `call_soon` or
                                           `when < now + resolution`; WHICH legal handle runs, and
                                           how late, is an input (relational: the real run's
                                           choice is replayed, every theorem holds for all choices)
    _call_periodic (first scheduling)   -> `create`   (call_at(start+interval) / call_soon)
    _call_periodic.run                  -> `dispatch` (callback, then delegate check [fix1],
                                           reschedule `interval - ((now-start) % interval)` via
                                           call_later = second clock read `drift` later,
                                           or `handle.cancel()`; except-branch [fix2])
    KGTimerHandler.cancel               -> `cancel`   (0 when delegate is None; else cancel the
                                           loop handle, clear delegate, 1)
    eval_sys_fn_cancel_timer (.timerc)  -> `timerc`
    KGFnWrapper.__call__ (re-resolution)-> `Timer.ver`: the binding of the name the timer was
                                           created on, read at every tick, changed by `redefine`
    KGFnWrapper._apply (arity check)    -> `Timer.arity`: the tick calls the callback with NO
                                           arguments; a binding that takes parameters raises
                                           RuntimeError before its body runs: no tick, the runner's
                                           except-branch stops the timer (first branch of `dispatch`)

  `Cfg.fix1/fix2 = true` is the repaired code (branch fix-c15); `false` is the pinned tree,
  kept so that the two defects can be stated and decided on concrete witnesses.
  `Cfg.minAdv` is the explicit clock convention of DESIGN §7/C15: at least `minAdv` time
  units pass between the loop's dispatch decision and the callback's start.
-/
import Klong.Model.Wire
namespace Klong.C15
open Klong.Wire

/-- what a callback invocation does besides taking time and returning a value -/
inductive Act
  | none
  | cancelSelf               -- `.timerc` on its own timer
  | cancelOther (j : Nat)    -- `.timerc` on timer `j`
  | redefine (v a : Nat)     -- rebinds its own callback symbol to function `v` of arity `a`
  | raise                    -- raises instead of returning
deriving Repr, DecidableEq

/-- a pending asyncio handle of a timer's `run` closure -/
structure LH where
  id : Nat
  timer : Nat
  soon : Bool      -- queued by `call_soon` (interval 0); otherwise a TimerHandle with `when`
  when : Int
  n : Int          -- ghost: the boundary index this handle is charged to
deriving Repr, DecidableEq

structure Timer where
  interval : Nat := 0
  start : Int := 0
  delegate : Option Nat := none    -- KGTimerHandler.delegate (id of a loop handle)
  ver : Nat := 0                   -- current binding of the callback symbol
  arity : Nat := 0                 -- number of parameters of that binding

structure Cfg where
  res : Nat        -- loop._clock_resolution
  minAdv : Nat     -- time between dispatch decision and the callback's start (lower bound)
  fix1 : Bool
  fix2 : Bool
deriving Repr, DecidableEq

inductive Ev
  | created (k : Nat) (start : Int) (interval : Nat)
  | tick (k : Nat) (start : Int) (interval : Nat) (t : Int) (n : Int) (dur : Nat) (ver : Nat)
  | ret (k : Nat) (r : Bool)
  | raised (k : Nat)
  | timerc (k : Nat) (r : Nat)
  | redefined (k : Nat) (v : Nat)
deriving Repr, DecidableEq

structure St where
  now : Int := 0
  nextId : Nat := 0
  ntimers : Nat := 0
  handles : List LH := []            -- scheduled or ready, not cancelled, not yet run
  tm : Nat → Timer := fun _ => {}
  log : List Ev := []                -- newest first

inductive Inp
  | create (interval : Nat)
  | advance (d : Nat)
  | timerc (k : Nat)
  | redefine (k v a : Nat)
  | dispatch (hid adv dur : Nat) (ret : Bool) (act : Act) (drift : Nat)
deriving Repr, DecidableEq

def updTm (tm : Nat → Timer) (k : Nat) (t : Timer) : Nat → Timer :=
  fun j => if j = k then t else tm j

/-- `KGTimerHandler.cancel` -/
def cancel (s : St) (k : Nat) : St × Nat :=
  match (s.tm k).delegate with
  | none => (s, 0)
  | some d =>
    ({ s with handles := s.handles.filter (fun h => h.id != d)
            , tm := updTm s.tm k { s.tm k with delegate := none } }, 1)

/-- `.timerc(th_k)`: the result is observable -/
def timerc (s : St) (k : Nat) : St :=
  let p := cancel s k
  { p.1 with log := .timerc k p.2 :: p.1.log }

def redefine (s : St) (k v a : Nat) : St :=
  { s with tm := updTm s.tm k { s.tm k with ver := v, arity := a }, log := .redefined k v :: s.log }

/-- the handle `run` is (re)scheduled with, computed from the clock value `f` the runner read;
    `call_later` reads the clock again `drift` later -/
def nextHandle (t : Timer) (id k : Nat) (f : Int) (drift : Nat) (prevN : Int) : LH :=
  if t.interval = 0 then
    { id := id, timer := k, soon := true, when := f + drift, n := prevN + 1 }
  else
    { id := id, timer := k, soon := false
    , when := f + drift + (t.interval - (f - t.start) % t.interval)
    , n := (f - t.start) / t.interval + 1 }

def schedule (s : St) (k : Nat) (drift : Nat) (prevN : Int) : St :=
  let h := nextHandle (s.tm k) s.nextId k s.now drift prevN
  { s with nextId := s.nextId + 1, handles := s.handles ++ [h], now := s.now + drift
         , tm := updTm s.tm k { s.tm k with delegate := some s.nextId } }

/-- `eval_sys_fn_timer` / `_call_periodic`: `start = loop.time()`, first run at `start+interval` -/
def create (s : St) (interval : Nat) : St :=
  let k := s.ntimers
  let s1 := { s with ntimers := k + 1
                   , tm := updTm s.tm k { interval := interval, start := s.now, delegate := none, ver := 0 }
                   , log := .created k s.now interval :: s.log }
  schedule s1 k 0 0

/-- side effect of the callback body -/
def doAct (s : St) (k : Nat) : Act → St
  | .none => s
  | .cancelSelf => timerc s k
  | .cancelOther j => timerc s j
  | .redefine v a => redefine s k v a
  | .raise => s

/-- the loop runs pending handle `hid`; `none` = not a legal move of the loop -/
def dispatch (c : Cfg) (s : St) (hid adv dur : Nat) (ret : Bool) (act : Act) (drift : Nat) :
    Option St :=
  match s.handles.find? (fun h => h.id == hid) with
  | none => none
  | some h =>
    if (s.tm h.timer).arity ≠ 0 then
      -- KGFnWrapper._apply: called with 0 arguments, expected `arity`: RuntimeError before the
      -- body runs (no tick, the clock is not read: `minAdv` does not apply)
      if h.soon || decide (h.when < s.now + c.res) then
        let s1 : St := { s with handles := s.handles.filter (fun x => x.id != hid)
                              , now := s.now + adv
                              , log := .raised h.timer :: s.log }
        some (if c.fix2 then (cancel s1 h.timer).1 else s1)
      else none
    else if (h.soon || decide (h.when < s.now + c.res)) && decide (c.minAdv ≤ adv) then
      let k := h.timer
      let t := s.tm k
      let s1 : St := { s with handles := s.handles.filter (fun x => x.id != hid)
                            , now := s.now + adv + dur
                            , log := .tick k t.start t.interval (s.now + adv) h.n dur t.ver :: s.log }
      if act = .raise then
        let s2 : St := { s1 with log := .raised k :: s1.log }
        some (if c.fix2 then (cancel s2 k).1 else s2)
      else
        let s2 := doAct s1 k act
        let s3 : St := { s2 with log := .ret k ret :: s2.log }
        if c.fix1 && (s3.tm k).delegate.isNone then some s3
        else if ret then some (schedule s3 k drift h.n)
        else some (cancel s3 k).1
    else none

/-- one input; illegal inputs leave the state unchanged (second component `false`) -/
def step (c : Cfg) (s : St) : Inp → St × Bool
  | .create i => (create s i, true)
  | .advance d => ({ s with now := s.now + d }, true)
  | .timerc k => (timerc s k, true)
  | .redefine k v a => if k < s.ntimers then (redefine s k v a, true) else (s, false)
  | .dispatch hid adv dur ret act drift =>
    match dispatch c s hid adv dur ret act drift with
    | some s' => (s', true)
    | none => (s, false)

def run (c : Cfg) (s : St) : List Inp → St
  | [] => s
  | i :: is => run c (step c s i).1 is

def init : St := {}

/-- the repaired code under the physically meaningful clock convention -/
def Cfg.good (c : Cfg) : Prop := c.fix1 = true ∧ c.fix2 = true ∧ c.res ≤ c.minAdv

/-! ### observations on logs (newest first) -/

def isStop (k : Nat) : Ev → Bool
  | .ret j r => j == k && !r
  | .raised j => j == k
  | .timerc j r => j == k && r == 1
  | _ => false

def isTick (k : Nat) : Ev → Bool
  | .tick j .. => j == k
  | _ => false

def stopped (k : Nat) (log : List Ev) : Bool := log.any (isStop k)

/-- the latest tick of timer `k`: (time, boundary, duration) -/
def lastTick (k : Nat) : List Ev → Option (Int × Int × Nat)
  | [] => none
  | .tick j _ _ t n d _ :: rest => if j = k then some (t, n, d) else lastTick k rest
  | _ :: rest => lastTick k rest

/-- the latest tick of any timer: (time, duration) -/
def lastAny : List Ev → Option (Int × Nat)
  | [] => none
  | .tick _ _ _ t _ d _ :: _ => some (t, d)
  | _ :: rest => lastAny rest

/-- current binding of timer `k`'s callback symbol according to the log -/
def lastVer (k : Nat) : List Ev → Nat
  | [] => 0
  | .redefined j v :: rest => if j = k then v else lastVer k rest
  | .created j _ _ :: rest => if j = k then 0 else lastVer k rest
  | _ :: rest => lastVer k rest

/-! ### driver -/

def showEv : Ev → String
  | .created k s i => s!"created:{k}:{s}:{i}"
  | .tick k _ _ t n d v => s!"tick:{k}:{t}:{n}:{d}:{v}"
  | .ret k r => s!"ret:{k}:{if r then 1 else 0}"
  | .raised k => s!"raised:{k}"
  | .timerc k r => s!"timerc:{k}:{r}"
  | .redefined k v => s!"redefined:{k}:{v}"

def showHandle (h : LH) : String :=
  if h.soon then s!"{h.id}:{h.timer}:soon" else s!"{h.id}:{h.timer}:{h.when}"

def insertById (h : LH) : List LH → List LH
  | [] => [h]
  | x :: xs => if h.id ≤ x.id then h :: x :: xs else x :: insertById h xs

def sortById (hs : List LH) : List LH := hs.foldr insertById []

def showDelegates (s : St) : String :=
  ",".intercalate ((List.range s.ntimers).map fun k =>
    match (s.tm k).delegate with
    | none => s!"{k}:-"
    | some d => s!"{k}:{d}")

def digest (s : St) : String :=
  s!"now={s.now} pending={",".intercalate ((sortById s.handles).map showHandle)} delegates={showDelegates s}"

/-- events logged between the old and the new state, oldest first -/
def newEvents (old new : St) : String :=
  ";".intercalate (((new.log.take (new.log.length - old.log.length)).reverse).map showEv)

def parseAct (s : String) : Option Act :=
  match s.splitOn ":" with
  | ["none"] => some .none
  | ["self"] => some .cancelSelf
  | ["raise"] => some .raise
  | ["other", j] => j.toNat?.map .cancelOther
  | ["redef", v] => v.toNat?.map (Act.redefine · 0)
  | ["redef", v, a] => match v.toNat?, a.toNat? with
    | some v, some a => some (.redefine v a)
    | _, _ => none
  | _ => none

def boolField (fs : List (String × String)) (k : String) : Option Bool :=
  match fs.lookup k with
  | some "1" => some true
  | some "0" => some false
  | _ => none

structure DState where
  cfg : Cfg := ⟨1, 1, true, true⟩
  st : St := {}

def dinit : DState := {}

def reply (d : DState) (p : St × Bool) : DState × String :=
  if p.2 then ({ d with st := p.1 }, s!"ok ev={newEvents d.st p.1} {digest p.1}")
  else (d, "illegal " ++ digest d.st)

def handle (d : DState) (ws : List String) : DState × String :=
  match ws with
  | "new" :: rest =>
    let fs := fields rest
    match natField fs "res", natField fs "minadv", boolField fs "fix1", boolField fs "fix2",
          intField fs "now" with
    | some r, some m, some f1, some f2, some t =>
      let d' : DState := { cfg := ⟨r, m, f1, f2⟩, st := { now := t } }
      (d', "ok ev= " ++ digest d'.st)
    | _, _, _, _, _ => (d, "bad-op")
  | "create" :: rest =>
    match natField (fields rest) "interval" with
    | some i => reply d (step d.cfg d.st (.create i))
    | none => (d, "bad-op")
  | "advance" :: rest =>
    match natField (fields rest) "d" with
    | some n => reply d (step d.cfg d.st (.advance n))
    | none => (d, "bad-op")
  | "timerc" :: rest =>
    match natField (fields rest) "k" with
    | some k => reply d (step d.cfg d.st (.timerc k))
    | none => (d, "bad-op")
  | "redefine" :: rest =>
    let fs := fields rest
    match natField fs "k", natField fs "v" with
    | some k, some v =>
      match fs.lookup "a" with
      | none => reply d (step d.cfg d.st (.redefine k v 0))
      | some t => match t.toNat? with
        | some a => reply d (step d.cfg d.st (.redefine k v a))
        | none => (d, "bad-op")
    | _, _ => (d, "bad-op")
  | "dispatch" :: rest =>
    let fs := fields rest
    match natField fs "h", natField fs "adv", natField fs "dur", boolField fs "ret",
          (fs.lookup "act").bind parseAct, natField fs "drift" with
    | some h, some a, some du, some r, some act, some dr =>
      reply d (step d.cfg d.st (.dispatch h a du r act dr))
    | _, _, _, _, _, _ => (d, "bad-op")
  | _ => (d, "bad-op")

end Klong.C15
