/-
  C02 (extension) — the remaining adverbs of klongpy/adverbs.py and `chain_adverbs` of
  klongpy/interpreter.py:

    Each-Index  f@'a     eval_adverb_each_index
    Each-2      a f'b    eval_adverb_each2              (empty / atom-atom / zip / '<U1' join)
    Each        f'a      eval_adverb_each               (string and dictionary clauses)
    Converge    f:~a     eval_adverb_converge           (with its `_e` equality)
    Scan-Conv.  f\~a     eval_adverb_scan_converging
    While       p f:~b   eval_adverb_while
    Scan-While  p f\~b   eval_adverb_scan_while
    chains      v a₁…aₖ  interpreter.chain_adverbs

  As in `Klong.Model.C02`: `ref*` = the manual's expansion, `impl*` = the Python code, both over
  an arbitrary monad `m`.  The Python `while` loops are transcribed with the combinator `pyWhile`
  (explicit fuel = number of loop-body executions allowed; `none` = fuel exhausted), the manual's
  definitions are plain recursions.
-/
import Klong.Model.C02
namespace Klong.C02
open Klong Klong.C01

section generic
variable {m : Type → Type} [Monad m]

/-! ### how a string's members reach the verb -/

/-- `backend.str_to_chr_arr(s)`: the members of a string are characters (the manual) -/
def strToChrArr (cs : List Nat) : List Val := cs.map .chr

/-- Python's own iteration over a `str` (`enumerate(a)`, `zip(a, b)`): one-character *strings* -/
def pyStrIter (cs : List Nat) : List Val := cs.map fun c => .str [c]

/-- `for x in a` for the iterables of klongpy (`is_iterable`), `chars` = how a string iterates -/
def pyIter (chars : List Nat → List Val) : Val → Option (List Val)
  | .list xs => some xs
  | .str cs => some (chars cs)
  | _ => none

/-- `is_empty(a)` -/
def isEmptySeq : Val → Bool
  | .list [] => true
  | .str [] => true
  | _ => false

/-- `is_list(a)` -/
def isListV : Val → Bool
  | .list _ => true
  | _ => false

/-! ### how a list of results is presented -/

def allChrs : List Val → Option (List Nat)
  | [] => some []
  | .chr c :: r => (allChrs r).map (c :: ·)
  | _ => none

/-- Klong's identity "a (non-empty) list of characters is a string":
    `''.join(r) if all(is_char(u) for u in r) else kg_asarray(r)` -/
def mkSeq (r : List Val) : Val :=
  match r, allChrs r with
  | _ :: _, some cs => .str cs
  | _, _ => .list r

/-- members that numpy stores with dtype `<U1`: any Python `str` of length ≤ 1 -/
def u1Chars : Val → Option (List Nat)
  | .chr c => some [c]
  | .str [] => some []
  | .str [c] => some [c]
  | .sym [] => some []
  | .sym [c] => some [c]
  | _ => none

def allU1 : List Val → Option (List Nat)
  | [] => some []
  | v :: r => match u1Chars v, allU1 r with
    | some a, some b => some (a ++ b)
    | _, _ => none

/-- `eval_adverb_each2` before /repo 5fd71c0: `r = np.asarray(r); ''.join(r) if r.dtype == '<U1' else r`
    (since then: `''.join(r) if all(is_char(u) for u in r)`, which is `mkSeq`) -/
def u1Join (r : List Val) : Val :=
  match r, allU1 r with
  | _ :: _, some cs => .str cs
  | _, _ => .list r

/-! ### Each-Index -/

/-- f([i;a_i]), f([i+1;a_i+1]), … -/
def refMapIdx (f : V1 m) : Nat → List Val → m (List Val)
  | _, [] => pure []
  | i, x :: xs => do
    let r ← f (.list [.int i, x])
    let rs ← refMapIdx f (i + 1) xs
    pure (r :: rs)

/-- the results over the members of `a`: for a string operand a list of characters is a string
    (`''.join(r) if j and all(is_char(u) for u in r) else kg_asarray(r)`, as for Each) -/
def seqOf (a : Val) (r : List Val) : Val :=
  match a with
  | .str _ => mkSeq r
  | _ => .list r

/-- f@'a  -->  f([0;a1]),f([1;a2]),…,f([N-1;aN]); atom and empty clauses as for Each -/
def refEachIndex (f : V1 m) (a : Val) : m Val :=
  match elems a with
  | some [] => pure a
  | some xs => do let r ← refMapIdx f 0 xs; pure (seqOf a r)
  | none => f (.list [.int 0, a])

/-- `eval_adverb_each_index` (after /repo f73dcd7, `chars = strToChrArr`; before it Python's own
    `enumerate(a)` over the `str`, `chars = pyStrIter`):
    `[f(kg_asarray([i, x])) for i, x in enumerate(a)]` -/
def implEachIndex (chars : List Nat → List Val) (f : V1 m) (a : Val) : m Val :=
  if isEmptySeq a then pure a
  else match pyIter chars a with
    | some xs => do
      let r ← xs.zipIdx.mapM (fun p => f (.list [.int (p.2 : Nat), p.1]))
      pure (seqOf a r)
    | none => f (.list [.int 0, a])

/-! ### Each-2 -/

/-- the result when either operand is empty: `[] if is_list(a) or is_list(b) else ""` -/
def emptyOf (a b : Val) : Val := if isListV a || isListV b then .list [] else .str []

/-- a f'b  -->  f(a1;b1),…,f(aN;bN); both atoms: f(a;b); either empty: the empty result;
    excess elements of the longer list ignored.  `seq` presents the result list; `undef`
    stands for the combinations the manual does not define (an atom with a non-empty list). -/
def refEach2 (seq : List Val → Val) (undef : m Val) (f : V2 m) (a b : Val) : m Val :=
  match elems a, elems b with
  | some [], _ => pure (emptyOf a b)
  | _, some [] => pure (emptyOf a b)
  | none, none => f a b
  | some xs, some ys => do let r ← refZipWith f xs ys; pure (seq r)
  | _, _ => undef

/-- `eval_adverb_each2` (after /repo f73dcd7 string operands are converted to character lists
    before `zip`: `chars = strToChrArr`; after 5fd71c0 the result list is presented by `seq = mkSeq`) -/
def implEach2 (chars : List Nat → List Val) (seq : List Val → Val) (undef : m Val)
    (f : V2 m) (a b : Val) : m Val :=
  if isEmptySeq a || isEmptySeq b then pure (emptyOf a b)
  else match pyIter chars a, pyIter chars b with
    | none, none => f a b
    | some xs, some ys => do let r ← pyZipComp f xs ys; pure (seq r)
    | _, _ => undef

/-! ### Each, with the string and dictionary clauses -/

/-- the tuples stored in a dictionary, `[k v]` each, in storage order (`a.items()`) -/
def dictItems (kvs : List (Val × Val)) : List Val := kvs.map fun p => .list [p.1, p.2]

/-- f'a for every kind of operand: list members, the characters of a string, the tuples of a
    dictionary, f(a) for an atom, a itself when empty -/
def refEachX (f : V1 m) (a : Val) : m Val :=
  match a with
  | .dict kvs => do let r ← refMap f (dictItems kvs); pure (.list r)
  | .str [] => pure a
  | .str cs => do let r ← refMap f (cs.map .chr); pure (mkSeq r)
  | a => refEach f a

/-- `eval_adverb_each` -/
def implEachX (chars : List Nat → List Val) (f : V1 m) (a : Val) : m Val :=
  match a with
  | .str cs =>
    if cs.isEmpty then pure a
    else do let r ← pyComp f (chars cs); pure (mkSeq r)
  | .list xs => do
    let r ← pyComp f xs
    if xs.isEmpty then pure a else pure (.list r)
  | .dict kvs => do let r ← pyComp f (dictItems kvs); pure (.list r)
  | a => f a

/-! ### the Python `while` loop -/

/-- `while cond(s): s = body(s)` with at most `fuel` executions of the body -/
def pyWhile {σ : Type} (cond : σ → m Bool) (body : σ → m σ) : Nat → σ → m (Option σ)
  | n, s => do
    let c ← cond s
    if c then
      match n with
      | 0 => pure none
      | n + 1 => do let s' ← body s; pyWhile cond body n s'
    else pure (some s)

/-! ### Converge / Scan-Converging -/

/-- from x: y = f(x); if y matches x then x is the fixpoint, else go on from y -/
def refFix (eq : Val → Val → Bool) (f : V1 m) : Nat → Val → m (Option Val)
  | n, x => do
    let y ← f x
    if eq x y then pure (some x)
    else match n with
      | 0 => pure none
      | n + 1 => refFix eq f n y

/-- f:~a — "find the fixpoint of f(a)": the first of f(a), f(f(a)), … that f maps to a
    matching value -/
def refConverge (eq : Val → Val → Bool) (f : V1 m) (n : Nat) (a : Val) : m (Option Val) := do
  let x ← f a
  refFix eq f n x

/-- `eval_adverb_converge`: x = f(a); xx = f(x); while not _e(x,xx): x = xx; xx = f(x); return x -/
def implConverge (eq : Val → Val → Bool) (f : V1 m) (n : Nat) (a : Val) : m (Option Val) := do
  let x ← f a
  let xx ← f x
  let r ← pyWhile (fun (s : Val × Val) => pure (!eq s.1 s.2))
            (fun s => do let xx' ← f s.2; pure (s.2, xx')) n (x, xx)
  pure (r.map (·.1))

/-- x, f(x), f(f(x)), … up to and including the first value that f maps to a matching value -/
def refScanFix (eq : Val → Val → Bool) (f : V1 m) : Nat → Val → m (Option (List Val))
  | n, x => do
    let y ← f x
    if eq x y then pure (some [x])
    else match n with
      | 0 => pure none
      | n + 1 => do let rs ← refScanFix eq f n y; pure (rs.map (x :: ·))

/-- f\~a -/
def refScanConverging (eq : Val → Val → Bool) (f : V1 m) (n : Nat) (a : Val) : m (Option Val) := do
  let r ← refScanFix eq f n a
  pure (r.map .list)

/-- `eval_adverb_scan_converging`: x = a; xx = f(a); r = [a, xx];
    while not kg_equal(x, xx): x = xx; xx = f(x); r.append(xx)
    r.pop() -/
def implScanConverging (eq : Val → Val → Bool) (f : V1 m) (n : Nat) (a : Val) : m (Option Val) := do
  let xx ← f a
  let r ← pyWhile (fun (s : Val × Val × List Val) => pure (!eq s.1 s.2.1))
            (fun s => do let xx' ← f s.2.1; pure (s.2.1, xx', s.2.2 ++ [xx'])) n (a, xx, [a, xx])
  pure (r.map fun s => .list s.2.2.dropLast)

/-! ### While / Scan-While -/

/-- p f:~b — if p(b) is false return b, else b::f(b) and start over -/
def refWhile (truthy : Val → Bool) (p f : V1 m) : Nat → Val → m (Option Val)
  | n, b => do
    let t ← p b
    if truthy t then
      match n with
      | 0 => pure none
      | n + 1 => do let b' ← f b; refWhile truthy p f n b'
    else pure (some b)

/-- `eval_adverb_while`: while _klong_true(klong.eval(KGCall(a, b))): b = f(b) -/
def implWhile (truthy : Val → Bool) (p f : V1 m) (n : Nat) (b : Val) : m (Option Val) :=
  pyWhile (fun b => do let t ← p b; pure (truthy t)) f n b

/-- the values b, f(b), … that satisfy p, up to the first one that does not -/
def refScanWhileL (truthy : Val → Bool) (p f : V1 m) : Nat → Val → m (Option (List Val))
  | n, b => do
    let t ← p b
    if truthy t then
      match n with
      | 0 => pure none
      | n + 1 => do
        let b' ← f b
        let rs ← refScanWhileL truthy p f n b'
        pure (rs.map (b :: ·))
    else pure (some [])

/-- p f\~b -/
def refScanWhile (truthy : Val → Bool) (p f : V1 m) (n : Nat) (b : Val) : m (Option Val) := do
  let r ← refScanWhileL truthy p f n b
  pure (r.map .list)

/-- `eval_adverb_scan_while`: r = [b]; while _klong_true(p(b)): b = f(b); r.append(b)
    r.pop() -/
def implScanWhile (truthy : Val → Bool) (p f : V1 m) (n : Nat) (b : Val) : m (Option Val) := do
  let r ← pyWhile (fun (s : Val × List Val) => do let t ← p s.1; pure (truthy t))
            (fun s => do let b' ← f s.1; pure (b', s.2 ++ [b'])) n (b, [b])
  pure (r.map fun s => .list s.2.dropLast)

/-! ### chains of adverbs -/

/-- the function `chain_adverbs` carries around: the verb (either valence) or a derived monad -/
inductive Fn (m : Type → Type) where
  | mon (f : V1 m)
  | dy (f : V2 m)

/-- an adverb function as `get_adverb_fn(…, arity=1)` returns it: `o(f, x, op)` -/
abbrev Adv (m : Type → Type) := Fn m → Option String → Val → m Val

/-- the manual: "the first adverb modifies the verb, giving a new verb, and the next adverb
    modifies the new verb" — the derived verb is not an operator -/
def refChain (v : Fn m) (op : Option String) : List (Adv m) → Fn m
  | [] => v
  | a :: rest => refChain (.mon (a v op)) none rest

/-- `for i in range(1, len(arr)-1): f = lambda x, f=f, o=o, op=(arr[0].a if i == 1 else None): o(f, x, op=op)` -/
def implChainGo (op : Option String) : Nat → Fn m → List (Adv m) → Fn m
  | _, f, [] => f
  | i, f, o :: rest => implChainGo op (i + 1) (.mon (fun x => o f (if i = 1 then op else none) x)) rest

def implChain (v : Fn m) (op : Option String) (advs : List (Adv m)) : Fn m := implChainGo op 1 v advs

/-- the loop before /repo commit ac22b53: `op=arr[0].a` for every adverb of the chain -/
def pinnedChainGo (op : Option String) : Fn m → List (Adv m) → Fn m
  | f, [] => f
  | f, o :: rest => pinnedChainGo op (.mon (fun x => o f op x)) rest

/-- a derived monad called with two arguments ignores the second (`{…x…}(a;b)`) -/
def Fn.call2 : Fn m → V2 m
  | .dy f => f
  | .mon g => fun x _ => g x

/-- a dyad called with one argument is outside the manual's chains -/
def Fn.call1 (undef : m Val) : Fn m → V1 m
  | .mon g => g
  | .dy _ => fun _ => undef

end generic

/-! ### concrete verbs, equality and truth for the driver -/

/-- constructor class, for `isinstance(p, type(q))` of `_e` -/
def kindOf : Val → Nat
  | .int _ => 0 | .real _ => 1 | .chr _ => 2 | .sym _ => 3 | .str _ => 4 | .list _ => 5
  | .dict _ => 6 | .undef => 7

/-- `_e` of `eval_adverb_converge` on the driver's (integer) universe: same Python type, integers
    exactly equal (the `isclose` tolerance is for reals only since /repo ff3ef4a), arrays by `kg_equal` -/
def convE (p q : Val) : Bool := kindOf p == kindOf q && vmatch p q

/-- `kg_equal` on the driver's universe -/
def kgEqual (p q : Val) : Bool := vmatch p q

/-- `_klong_true` of adverbs.py (since /repo 6be6fcc; Python truth before): 0, [] and "" are
    false, everything else is true -/
def pyTruth : Val → Bool
  | .int n => n != 0
  | .real b => Float.ofBits b != 0
  | .str [] => false
  | .list [] => false
  | _ => true

def monadVerbX (name : String) (a : Val) : Option Val :=
  match name with
  | "{x:%2}" => refDyad ":%" a (.int 2)
  | "{x*2}" => refDyad "*" a (.int 2)
  | "{x-1}" => refDyad "-" a (.int 1)
  | "{x&5}" => refDyad "&" a (.int 5)
  | "{1_x}" => refDyad "_" (.int 1) a
  | "{,/x}" => refOver (m := Option) refJoin a
  | "{x<10}" => refDyad "<" a (.int 10)
  | "{x<3}" => refDyad "<" a (.int 3)
  | "{x>0}" => refDyad ">" a (.int 0)
  | "{x<0}" => refDyad "<" a (.int 0)
  | "{:[x>3;x;x+1]}" => match a with
      | .int n => some (.int (if n > 3 then n else n + 1))
      | _ => none
  | "{0}" => some (.int 0)
  | "{*x}" => refMonad "*" a
  | "{x@0}" => match a with | .list (x :: _) => some x | _ => none
  | "{x@1}" => match a with | .list (_ :: x :: _) => some x | _ => none
  | "{(*x)+#x@1}" => match a with
      | .list [i, x] => (refMonad "#" x).bind fun n => refDyad "+" i n
      | _ => none
  | n => monadVerb n a

def logged1X (name : String) : V1 LogM := fun a => do
  modify (· ++ [[a]])
  match monadVerbX name a with
  | some v => pure v
  | none => failure

def unOpt (x : LogM (Option Val)) : LogM Val := do
  match ← x with
  | some v => pure v
  | none => failure

def shortOf (op : Option String) (x : Val) : Option (List Val → LogM Val) :=
  match op with
  | some o => ((elems x).bind (overShortcut o)).map liftShort
  | none => none

def scanShortOf (op : Option String) : Option (List Val → LogM Val) :=
  match op with
  | some o => (scanShortcut o).map liftShort
  | none => none

/-- the adverb functions of adverbs.py by name (monadic use) -/
def namedAdv (fuel : Nat) (name : String) : Option (Adv LogM) :=
  match name with
  | "/" => some fun f op x => implOver f.call2 (shortOf op x) x
  | "\\" => some fun f op x => implScanOver f.call2 (scanShortOf op) x
  | "'" => some fun f _ x => implEachX strToChrArr (f.call1 failure) x
  | ":'" => some fun f _ x => implEachPair f.call2 x
  | "@'" => some fun f _ x => implEachIndex strToChrArr (f.call1 failure) x
  | ":~" => some fun f _ x => unOpt (implConverge convE (f.call1 failure) fuel x)
  | "\\~" => some fun f _ x => unOpt (implScanConverging kgEqual (f.call1 failure) fuel x)
  | _ => none

/-- the manual's adverbs by name -/
def namedAdvRef (fuel : Nat) (name : String) : Option (Adv LogM) :=
  match name with
  | "/" => some fun f _ x => refOver f.call2 x
  | "\\" => some fun f _ x => refScanOver f.call2 x
  | "'" => some fun f _ x => refEachX (f.call1 failure) x
  | ":'" => some fun f _ x => refEachPair f.call2 x
  | "@'" => some fun f _ x => refEachIndex (f.call1 failure) x
  | ":~" => some fun f _ x => unOpt (refConverge convE (f.call1 failure) fuel x)
  | "\\~" => some fun f _ x => unOpt (refScanConverging kgEqual (f.call1 failure) fuel x)
  | _ => none

/-- the verb at the head of a chain: valence as the first adverb requires (`get_adverb_arity`) -/
def headVerb (verb : String) (adv1 : String) : Fn LogM :=
  if adv1 == "'" || adv1 == ":~" || adv1 == "\\~" || adv1 == "@'" then .mon (logged1X verb)
  else .dy (logged2 verb)

inductive ChainMode where
  | ref | impl | pinned
deriving DecidableEq

/-- run the chain `verb a₁ … aₖ` on `x` -/
def runChain (mode : ChainMode) (fuel : Nat) (verb : String) (op : Option String)
    (advs : List String) (x : Val) : Option (Option (Val × List (List Val))) :=
  match advs with
  | [] => none
  | a1 :: _ =>
    let v := headVerb verb a1
    let tbl := if mode = .ref then namedAdvRef fuel else namedAdv fuel
    match advs.mapM tbl with
    | none => none
    | some os =>
      let f : Fn LogM := match mode with
        | .ref => refChain v op os
        | .impl => implChain v op os
        | .pinned => pinnedChainGo op v os
      some ((f.call1 failure x).run [])

def showOptRun (r : Option (Option (Val × List (List Val)))) : String :=
  match r with
  | some x => showRun x
  | none => "unmodelled"

def fuelDefault : Nat := 200

/-- the adverbs added by this file; `pred` is the predicate of While / Scan-While -/
def runAdverbX (impl : Bool) (adv verb pred : String) (args : List Val) : String :=
  let f2 := logged2 verb
  let f1 := logged1X verb
  let p := logged1X pred
  let fuel := fuelDefault
  let r : Option (Option (Val × List (List Val))) :=
    match adv, args with
    | "@'", [a] => some ((if impl then implEachIndex strToChrArr f1 a else refEachIndex f1 a).run [])
    | "'", [a] => some ((if impl then implEachX strToChrArr f1 a else refEachX f1 a).run [])
    | "'", [a, b] =>
      some ((if impl then implEach2 strToChrArr mkSeq failure f2 a b
             else refEach2 mkSeq failure f2 a b).run [])
    | ":~", [a] =>
      some ((unOpt (if impl then implConverge convE f1 fuel a else refConverge convE f1 fuel a)).run [])
    | "\\~", [a] =>
      some ((unOpt (if impl then implScanConverging kgEqual f1 fuel a
                    else refScanConverging kgEqual f1 fuel a)).run [])
    | "w:~", [b] =>
      some ((unOpt (if impl then implWhile pyTruth p f1 fuel b else refWhile pyTruth p f1 fuel b)).run [])
    | "w\\~", [b] =>
      some ((unOpt (if impl then implScanWhile pyTruth p f1 fuel b
                    else refScanWhile pyTruth p f1 fuel b)).run [])
    | _, _ => none
  showOptRun r

def parseArgs (rest : List String) : Option (List Val) :=
  Val.parseMany (Val.tokenize (" ".intercalate rest))

/-- requests (everything else goes to `handle` of `Klong.Model.C02`):
    `advx <adverb> <verb> <pred|-> <args…>`   the adverbs of this file
    `chain <verb> <op|-none-> <a1,a2,…> <arg>`  reference, implementation and pinned chain -/
def handleX (s : State) (ws : List String) : State × String :=
  match ws with
  | "advx" :: adv :: verb :: pred :: rest =>
    match parseArgs rest with
    | some args =>
      (s, "ref=" ++ runAdverbX false adv verb pred args ++ " impl=" ++ runAdverbX true adv verb pred args)
    | none => (s, "bad-op")
  | "chain" :: verb :: op :: advs :: rest =>
    match parseArgs rest with
    | some [x] =>
      let op := if op == "-none-" then none else some op
      let as := Wire.splitOnChar advs ','
      (s, "ref=" ++ showOptRun (runChain .ref fuelDefault verb op as x)
          ++ " impl=" ++ showOptRun (runChain .impl fuelDefault verb op as x)
          ++ " pinned=" ++ showOptRun (runChain .pinned fuelDefault verb op as x))
    | _ => (s, "bad-op")
  | _ => handle s ws

end Klong.C02
