/- C12 model — placeholder until the property is built -/
import Klong.Model.Wire
namespace Klong.C12

structure State where
  unit : Unit := ()

def init : State := {}

def handle (s : State) (_ws : List String) : State × String := (s, "bad-op")

end Klong.C12
