/-
  C12 — the lexer and the recursive-descent parser of klongpy on `(List Char, Nat index)`.

  Mirrors klongpy/parser.py:
    cmatch, cmatch2, cexpect                -> `cmatch`, `cmatch2`, `cexpect`
    skip_space, read_shifted_comment, skip  -> `skipSpace`, `readShiftedComment`, `skip`
                                               (`skip` is the fusion of the three loops into one
                                               recursion over the remaining suffix)
    read_num, read_string, read_char,
    read_sym, read_op, peek_adverb          -> `readNum`, `readString`, `readChar`, `readSym`,
                                               `readOp`, `peekAdverb`
    read_sys_comment                        -> `readSysComment` (bounded `startswith` loop)
    kg_read, read_list, list_to_dict        -> `kgRead`, `readList`, `readListLoop`, `listToDict`
    kg_read_array                           -> `kgReadArray`
    read_cond, read_expr_array              -> `readCond`, `readExprArray`, `exprArrayLoop`
  and klongpy/interpreter.py:
    prog, _expr, _factor, _read_fn_args,
    _apply_adverbs, parse_module            -> `prog`, `progLoop`, `expr`, `exprLoop`, `factor`,
                                               `readFnArgs`, `fnArgsLoop`, `applyAdverbs`,
                                               `parseModule`
    types.get_fn_arity                      -> `fnArity`

  Conventions (DESIGN §7/C12):
  * scanning loops of the lexer recurse structurally over the remaining suffix `t.drop i`
    (Lean demands the progress argument at definition time);
  * every `while` of the parser is a recursion whose body result `i'` is tested:
    `if i < i' then continue at i' else .spin`;
  * `read_sys_comment`'s loop condition does not depend on the index: it gets the explicit
    bound `t.length + 1` and returns `.spin` beyond it;
  * recursion between parser functions carries fuel (`.outOfFuel`);
  * every function counts steps (`st`): one per call / loop iteration plus the distance
    scanned by the lexer loops it runs.
  The AST is a skeleton (`Node`): node kinds, names, structure — everything the Python
  control flow looks at (`safe_eq(a, ';')`, `isinstance(a, KGSym)`, `_is_monad`, `has_none`,
  hashability in `get_fn_arity`, subscripting in `list_to_dict`, `str(module)`).
-/
import Klong.Model.Wire
namespace Klong.C12

/-- what the parser needs to know about characters and the interpreter -/
structure Cfg where
  isSpace : Char → Bool      -- str.isspace
  isAlpha : Char → Bool      -- str.isalpha
  isDigit : Char → Bool      -- str.isdigit
  isNumeric : Char → Bool    -- str.isnumeric
  monads : List (List Char)  -- keys of KlongInterpreter._vm
  guardEmptyMarker : Bool    -- true: the repaired read_sys_comment (`while a and …`)

abbrev Text := List Char

/-! ## AST skeleton -/

inductive Node where
  | none                                         -- Python None
  | str (s : List Char)                          -- Python str: string literal or punctuation token
  | chr (c : Char)                               -- KGChar (a str subclass)
  | int (src : List Char)                        -- Python int, source text kept
  | flt (src : List Char)                        -- Python float, source text kept
  | sym (name : List Char)                       -- KGSym
  | op (name : List Char)                        -- KGOp
  | pylist (xs : List Node)                      -- Python list (lexer list, program, adverb chain)
  | arr (xs : List Node)                         -- ndarray made by kg_asarray
  | dict (xs : List Node)                        -- KGCall(copy_lambda, args=dict)
  | fn (a : Node) (hasArgs : Bool) (args : List Node) (arity : Nat) (call : Bool)  -- KGFn / KGCall
  | mfn (a : Node) (x : Node)                    -- KGFn(op, x, arity=1): the argument is not a list
  | adv (a : Node) (arity : Nat)                 -- KGAdverb
  | cond (xs : List Node)                        -- KGCond
  | exprArr (xs : List Node)                     -- KGExprArray
  deriving Inhabited

/-- `safe_eq(a, s)` / `a == s` for a Python str `s`: true for a str or KGChar with that text
    (KGSym.__eq__ answers False for a plain str) -/
def Node.isStr (a : Node) (s : List Char) : Bool :=
  match a with
  | .str x => x == s
  | .chr c => [c] == s
  | _ => false

def Node.isNone : Node → Bool
  | .none => true
  | _ => false

def Node.isSym : Node → Bool
  | .sym _ => true
  | _ => false

def Node.isOpOrSym : Node → Bool
  | .sym _ => true
  | .op _ => true
  | _ => false

/-- `has_none(a)` for an argument list -/
def hasNone (xs : List Node) : Bool := xs.any Node.isNone

/-- objects Python cannot hash: ndarray, list and its subclasses -/
def Node.unhashable : Node → Bool
  | .arr _ => true
  | .pylist _ => true
  | .cond _ => true
  | .exprArr _ => true
  | _ => false

def reservedNames : List (List Char) := [['x'], ['y'], ['z']]

/-- `reserved_fn_symbols` membership -/
def Node.isReserved : Node → Bool
  | .sym n => reservedNames.contains n
  | _ => false

inductive Err where
  | unexpectedChar (pos : Nat)
  | unexpectedEOF (pos : Nat)
  | valueError
  | typeError
  | indexError
  | runtimeError
  deriving Repr, DecidableEq

/-- parse-time interpreter state: `self._module` as `str(module)` (none = no module);
    `exotic` is set once the module object is one whose `str()` the model does not describe -/
structure PState where
  mod : Option (List Char) := none
  exotic : Bool := false
  deriving Repr, DecidableEq

inductive Res (α : Type) where
  | ok (i : Nat) (v : α) (m : PState) (st : Nat)
  | err (e : Err) (m : PState) (st : Nat)
  | spin (st : Nat)             -- the real loop would run again from the same index
  | outOfFuel
  deriving Inhabited

def Res.isSpin {α} : Res α → Bool
  | .spin _ => true
  | _ => false

def Res.isOutOfFuel {α} : Res α → Bool
  | .outOfFuel => true
  | _ => false

def Res.isOk {α} : Res α → Bool
  | .ok .. => true
  | _ => false

def Res.isErr {α} : Res α → Bool
  | .err .. => true
  | _ => false

def Res.endIndex {α} : Res α → Option Nat
  | .ok i _ _ _ => some i
  | _ => none

/-- the parser state after the call (success or error) -/
def Res.state {α} : Res α → Option PState
  | .ok _ _ m _ => some m
  | .err _ m _ => some m
  | _ => none

def Res.steps {α} : Res α → Nat
  | .ok _ _ _ st => st
  | .err _ _ st => st
  | .spin st => st
  | .outOfFuel => 0

def Res.addSteps {α} (r : Res α) (k : Nat) : Res α :=
  match r with
  | .ok i v m st => .ok i v m (st + k)
  | .err e m st => .err e m (st + k)
  | .spin st => .spin (st + k)
  | .outOfFuel => .outOfFuel

/-- sequencing: run `k` on a successful result, adding up the steps -/
def Res.bind {α β} (r : Res α) (k : Nat → α → PState → Res β) : Res β :=
  match r with
  | .ok i v m st => (k i v m).addSteps st
  | .err e m st => .err e m st
  | .spin st => .spin st
  | .outOfFuel => .outOfFuel

/-! ## character matching -/

def cmatch (t : Text) (i : Nat) (c : Char) : Bool := t[i]? == some c

def cmatch2 (t : Text) (i : Nat) (a b : Char) : Bool := cmatch t i a && cmatch t (i + 1) b

/-- `cexpect`: index after `c`, or UnexpectedChar -/
def cexpect {α} (t : Text) (i : Nat) (c : Char) (m : PState) (k : Nat → Res α) : Res α :=
  if cmatch t i c then k (i + 1) else .err (.unexpectedChar i) m 1

/-! ## scanning loops (structural recursion over the remaining suffix) -/

/-- `skip_space` on the suffix `s = t.drop i` -/
def skipSpaceGo (cfg : Cfg) (ign : Bool) : List Char → Nat → Nat
  | [], i => i
  | c :: cs, i => if cfg.isSpace c && (ign || c != '\n') then skipSpaceGo cfg ign cs (i + 1) else i

def skipSpace (cfg : Cfg) (t : Text) (i : Nat) (ign : Bool) : Nat := skipSpaceGo cfg ign (t.drop i) i

/-- `read_shifted_comment` on the suffix: ends after the first `"` that is not doubled -/
def shiftedGo : List Char → Nat → Nat
  | [], i => i
  | c :: cs, i =>
    if c == '"' then
      match cs with
      | d :: cs' => if d == '"' then shiftedGo cs' (i + 2) else i + 1
      | [] => i + 1
    else shiftedGo cs (i + 1)

def readShiftedComment (t : Text) (i : Nat) : Nat := shiftedGo (t.drop i) i

/-- `skip`: skip_space, then as long as a `:"` comment follows, read it and skip again (the
    recursive call of the Python passes `ignore_newline=False`).  One recursion over the
    suffix with a mode flag: `inC = true` while inside a shifted comment. -/
def skipGo (cfg : Cfg) : (inC : Bool) → (ign : Bool) → List Char → Nat → Nat
  | _, _, [], i => i
  | false, ign, c :: cs, i =>
    if cfg.isSpace c && (ign || c != '\n') then skipGo cfg false ign cs (i + 1)
    else if c == ':' then
      match cs with
      | d :: cs' => if d == '"' then skipGo cfg true false cs' (i + 2) else i
      | [] => i
    else i
  | true, ign, c :: cs, i =>
    if c == '"' then
      if cs.head? == some '"' then
        match cs with
        | _ :: cs' => skipGo cfg true ign cs' (i + 2)
        | [] => i + 1
      else skipGo cfg false false cs (i + 1)
    else skipGo cfg true ign cs (i + 1)

def skip (cfg : Cfg) (t : Text) (i : Nat) (ign : Bool) : Nat := skipGo cfg false ign (t.drop i) i

def isSign (o : Option Char) : Bool := o == some '-' || o == some '+'

/-- `read_num` loop: `.` and `e` are accepted anywhere; after `e` a sign and the character
    after it are stepped over unchecked (`i += 2` then `i += 1`) -/
def readNumGo (cfg : Cfg) : List Char → Nat → Bool → Nat × Bool
  | [], i, f => (i, f)
  | c :: cs, i, f =>
    if c == '.' then readNumGo cfg cs (i + 1) true
    else if c == 'e' then
      if isSign cs.head? then
        match cs with
        | _ :: _ :: cs'' => readNumGo cfg cs'' (i + 3) true
        | _ => (i + 3, true)
      else readNumGo cfg cs (i + 1) true
    else if !cfg.isNumeric c then (i, f)
    else readNumGo cfg cs (i + 1) f

def isAsciiDigit (c : Char) : Bool := '0' ≤ c && c ≤ '9'

def dropDigits : List Char → List Char
  | [] => []
  | c :: cs => if isAsciiDigit c then dropDigits cs else c :: cs

/-- the exponent part of Python's float grammar: `` | e [+-]? D+ -/
def pyExpOk : List Char → Bool
  | [] => true
  | c :: cs =>
    if c == 'e' then
      let r := match cs with
        | s :: cs' => if s == '-' || s == '+' then cs' else cs
        | [] => cs
      match r with
      | d :: _ => isAsciiDigit d && (dropDigits r).isEmpty
      | [] => false
    else false

/-- `float(s)` succeeds, for the spans `read_num` can cut out: `-? D+ (. D*)? (e [+-]? D+)?` -/
def pyFloatOk (s : List Char) : Bool :=
  let s := match s with
    | c :: cs => if c == '-' then cs else s
    | [] => s
  match s with
  | d :: _ =>
    if isAsciiDigit d then
      match dropDigits s with
      | c :: cs => if c == '.' then pyExpOk (dropDigits cs) else pyExpOk (c :: cs)
      | [] => true
    else false
  | [] => false

/-- `int(s)` succeeds: `-? D+` (and at most 4300 digits, CPython's int-from-str limit) -/
def pyIntOk (s : List Char) : Bool :=
  let s := match s with
    | c :: cs => if c == '-' then cs else s
    | [] => s
  !s.isEmpty && s.all isAsciiDigit && s.length ≤ 4300

def slice (t : Text) (p i : Nat) : List Char := (t.drop p).take (i - p)

/-- `read_num`: (end index, token) or ValueError from `float()`/`int()` -/
def readNum (cfg : Cfg) (t : Text) (i : Nat) : Nat × Option Node :=
  let i1 := if cmatch t i '-' then i + 1 else i
  let (i2, f) := readNumGo cfg (t.drop i1) i1 false
  let src := slice t i i2
  if f then (i2, if pyFloatOk src then some (.flt src) else none)
  else (i2, if pyIntOk src then some (.int src) else none)

/-- `read_string` loop: `""` is a quote, a single `"` ends the string, EOF ends it too -/
def readStringGo : List Char → Nat → List Char → Nat × List Char
  | [], i, acc => (i, acc.reverse)
  | c :: cs, i, acc =>
    if c == '"' then
      match cs with
      | d :: cs' => if d == '"' then readStringGo cs' (i + 2) ('"' :: acc) else (i + 1, acc.reverse)
      | [] => (i + 1, acc.reverse)
    else readStringGo cs (i + 1) (c :: acc)

def readString (t : Text) (i : Nat) : Nat × List Char := readStringGo (t.drop i) i []

def isSymbolic (cfg : Cfg) (c : Char) : Bool := cfg.isAlpha c || cfg.isDigit c || c == '.'

def readSymGo (cfg : Cfg) : List Char → Nat → List Char → Nat × List Char
  | [], i, acc => (i, acc.reverse)
  | c :: cs, i, acc => if isSymbolic cfg c then readSymGo cfg cs (i + 1) (c :: acc) else (i, acc.reverse)

/-- `read_sym`: reserved names stay bare, dotted names and names outside a module too,
    everything else is qualified with the current module -/
def readSym (cfg : Cfg) (t : Text) (i : Nat) (m : PState) : Nat × Node :=
  let (i', x) := readSymGo cfg (t.drop i) i []
  if reservedNames.contains x then (i', .sym x)
  else match m.mod with
    | some md => if x.head? == some '.' then (i', .sym x) else (i', .sym (x ++ '`' :: md))
    | none => (i', .sym x)

/-- `read_op`: `\~` and `\*` are two characters, anything else one -/
def readOp (t : Text) (i : Nat) : Nat × Node :=
  if cmatch2 t i '\\' '~' || cmatch2 t i '\\' '*' then (i + 2, .op (slice t i (i + 2)))
  else (i + 1, .op (slice t i (i + 1)))

def adverbs2 : List (List Char) :=
  [[':', '\\'], [':', '\''], [':', '/'], [':', '~'], [':', '*'], ['\\', '~'], ['\\', '*'], ['@', '\'']]

def adverbs1 : List (List Char) := [['\''], ['/'], ['\\']]

/-- `peek_adverb` -/
def peekAdverb (t : Text) (i : Nat) : Nat × Option (List Char) :=
  if i + 1 < t.length && adverbs2.contains (slice t i (i + 2)) then (i + 2, some (slice t i (i + 2)))
  else if i < t.length && adverbs1.contains (slice t i (i + 1)) then (i + 1, some (slice t i (i + 1)))
  else (i, none)

/-- the `while aa is not None` loop of `_apply_adverbs`, over the suffix -/
def isAdverb2 (c : Char) (o : Option Char) : Bool :=
  match o with
  | some d => adverbs2.contains [c, d]
  | none => false

def adverbsGo : List Char → Nat → List Node → Nat × List Node
  | [], i, acc => (i, acc.reverse)
  | c :: cs, i, acc =>
    if isAdverb2 c cs.head? then
      match cs with
      | d :: cs' => adverbsGo cs' (i + 2) (Node.adv (.str [c, d]) 1 :: acc)
      | [] => (i, acc.reverse)
    else if adverbs1.contains [c] then adverbsGo cs (i + 1) (Node.adv (.str [c]) 1 :: acc)
    else (i, acc.reverse)

/-- `get_adverb_arity` -/
def adverbArity (s : List Char) (ctx : Nat) : Nat :=
  if s == ['\''] then ctx
  else if s == [':', '~'] || s == [':', '*'] || s == ['\\', '~'] || s == ['\\', '*'] || s == ['@', '\''] then 1
  else 2

/-! ## `.comment(marker)` -/

def startsWith : List Char → List Char → Bool
  | _, [] => true
  | [], _ :: _ => false
  | c :: cs, p :: ps => c == p && startsWith cs ps

/-- `s.index(a)` -/
def findSub (a : List Char) : List Char → Nat → Option Nat
  | [], j => if a.isEmpty then some j else none
  | c :: cs, j => if startsWith (c :: cs) a then some j else findSub a cs (j + 1)

/-- `while [a and] t[i+j+1:].startswith(a): j += 1` with an explicit bound; `none` = the bound
    was hit: the real loop is still running -/
def commentLoop (cfg : Cfg) (t : Text) (a : List Char) (i : Nat) : (bound : Nat) → (j : Nat) → Option Nat
  | 0, _ => none
  | b + 1, j =>
    if (!cfg.guardEmptyMarker || !a.isEmpty) && startsWith (t.drop (i + j + 1)) a
    then commentLoop cfg t a i b (j + 1) else some j

/-- `read_sys_comment(t, i, a)` for a str marker -/
def readSysComment {α} (cfg : Cfg) (t : Text) (i : Nat) (a : List Char) (m : PState)
    (k : Nat → Nat → Res α) : Res α :=
  match findSub a (t.drop i) 0 with
  | none => .err .runtimeError m (t.length - i + 1)
  | some j0 =>
    match commentLoop cfg t a i (t.length + 1) j0 with
    | none => .spin (2 * t.length + 2)
    | some j => k (i + j + a.length) (t.length - i + 1 + (j - j0 + 1))

/-! ## `get_fn_arity`, `list_to_dict`, `parse_module` -/

/-- `f.is_adverb_chain()`: `f.a` is a list whose first element is a KGAdverb -/
def Node.isChain : Node → Bool
  | .pylist (.adv _ _ :: _) => true
  | _ => false

mutual
  /-- `_params(f)` of `get_fn_arity`: the parameter symbols referenced anywhere in the expression, as flags
      for x, y, z.  An operator application, an adverb chain or a call of a named / parameter function is
      looked into (verb and arguments; a missing argument list is `[None]`); anything else applied to
      arguments is a nested function literal whose body has its own x, y, z — only its arguments count. -/
  def usedArgs : Node → Bool × Bool × Bool
    | .sym n => (n == ['x'], n == ['y'], n == ['z'])
    | .fn a hasArgs args _ _ =>
      let (x1, y1, z1) := if a.isChain || a.isSym then usedArgs a else (false, false, false)
      let (x2, y2, z2) := if hasArgs then usedArgsL args else (false, false, false)
      (x1 || x2, y1 || y2, z1 || z2)
    | .mfn _ x => usedArgs x        -- KGFn(op, x, 1): the operator contributes nothing, the operand is looked into
    | .adv a _ => usedArgs a
    | .pylist xs => usedArgsL xs
    | .cond xs => usedArgsL xs
    | .exprArr xs => usedArgsL xs
    | _ => (false, false, false)
  def usedArgsL : List Node → Bool × Bool × Bool
    | [] => (false, false, false)
    | x :: xs =>
      let (x1, y1, z1) := usedArgs x
      let (x2, y2, z2) := usedArgsL xs
      (x1 || x2, y1 || y2, z1 || z2)
end

def countFlags (f : Bool × Bool × Bool) : Nat :=
  (if f.1 then 1 else 0) + (if f.2.1 then 1 else 0) + (if f.2.2 then 1 else 0)

/-- `get_fn_arity(f)` (main 344f15c): for a call of a named (non-reserved) function the distinct
    parameters referenced anywhere in its arguments plus one for its holes (a missing argument list is one
    hole); otherwise the distinct parameters referenced anywhere in the body.  (Total; `Except` is kept for
    the callers' error branch.) -/
def fnArity (f : Node) : Except Err Nat :=
  match f with
  | .fn (.sym n) hasArgs args _ _ =>
    if !reservedNames.contains n then
      let as := if hasArgs then args else [.none]
      .ok (countFlags (usedArgsL as) + (if hasNone as then 1 else 0))
    else .ok (countFlags (usedArgs f))
  | _ => .ok (countFlags (usedArgs f))

/-- one `x[0]: x[1]` of `list_to_dict` -/
def dictEntryErr : Node → Option Err
  | .pylist (k :: _ :: _) => if k.unhashable then some .typeError else none
  | .pylist _ => some .indexError
  | .str (_ :: _ :: _) => none
  | .str _ => some .indexError
  | .sym (_ :: _ :: _) => none
  | .sym _ => some .indexError
  | .chr _ => some .indexError
  | _ => some .typeError

def listToDictErr : List Node → Option Err
  | [] => none
  | x :: xs => match dictEntryErr x with
    | some e => some e
    | none => listToDictErr xs

def stripZeros : List Char → List Char
  | [] => []
  | c :: cs => if c == '0' && !cs.isEmpty then stripZeros cs else c :: cs

def arityStr (n : Nat) : List Char :=
  if n == 0 then ":nilad".toList else if n == 1 then ":monad".toList
  else if n == 2 then ":dyad".toList else ":triad".toList

/-- `str(x)` where the model describes it -/
def pyStr : Node → Option (List Char)
  | .str s => some s
  | .chr c => some [c]
  | .sym n => some n
  | .int src => some (stripZeros src)
  | .fn _ _ _ ar _ => some (arityStr ar)
  | .mfn _ _ => some (arityStr 1)
  | .none => some "None".toList
  | _ => none

def beforeBacktick : List Char → List Char
  | [] => []
  | c :: cs => if c == '`' then [] else c :: beforeBacktick cs

/-- `parse_module(name)` -/
def parseModule (m : PState) (name : Node) : PState :=
  match name with
  | .none => { m with mod := none }       -- str(None) has no backtick: module = None
  | .int src => if src.all (· == '0') then { m with mod := none } else { m with mod := some (stripZeros src) }
  | .str [] => { m with mod := none }
  | .arr [] => { m with mod := none }
  | .exprArr [] => { m with mod := none }
  | x => match pyStr x with
    | some s => { m with mod := some (beforeBacktick s) }
    | none => { mod := some ['?'], exotic := true }

/-! ## `kg_read` and `read_list` (mutually recursive, fuel) -/

/-- `(i) < len(t) and t[i].isnumeric()` -/
def numericAt (cfg : Cfg) (t : Text) (i : Nat) : Bool :=
  match t[i]? with
  | some d => cfg.isNumeric d
  | none => false

def puncts : List Char := [';', '(', ')', '{', '}', ']']

mutual
  /-- `kg_read(t, i, read_neg, ignore_newline, module)` -/
  def kgRead (cfg : Cfg) (t : Text) : (fuel : Nat) → (i : Nat) → (readNeg ign : Bool) → PState → Res Node
    | 0, _, _, _, _ => .outOfFuel
    | fuel + 1, i0, readNeg, ign, m =>
      let i := skip cfg t i0 ign
      let st := i - i0 + 1
      match t[i]? with
      | none => .ok i .none m st
      | some a0 =>
        let a := if a0 == '\n' then ';' else a0
        if puncts.contains a then .ok (i + 1) (.str [a]) m st
        else if cmatch2 t i '0' 'c' then
          match t[i + 2]? with
          | none => .err (.unexpectedEOF (i + 2)) m st
          | some c => .ok (i + 3) (.chr c) m st
        else if cfg.isNumeric a || (readNeg && a == '-' && numericAt cfg t (i + 1)) then
          match readNum cfg t i with
          | (i', some v) => .ok i' v m (st + (i' - i))
          | (i', none) => .err .valueError m (st + (i' - i))
        else if a == '"' then
          let (i', s) := readString t (i + 1)
          .ok i' (.str s) m (st + (i' - i))
        else if a == ':' && i + 1 < t.length then
          match t[i + 1]? with
          | none => .ok (i + 2) (.op [':']) m st   -- unreachable
          | some aa =>
            if cfg.isAlpha aa || aa == '.' then
              let (i', v) := readSym cfg t (i + 1) m
              .ok i' v m (st + (i' - i))
            else if cfg.isNumeric aa || aa == '"' then
              (kgRead cfg t fuel (i + 1) false ign m).addSteps st
            else if aa == '{' then
              (readList cfg t fuel '}' (i + 2) m).bind fun i' d m' =>
                match listToDictErr d with
                | some e => .err e m' st
                | none => .ok i' (.dict d) m' st
            else if aa == '[' then .ok (i + 2) (.str [':', '[']) m st
            else if aa == '|' then .ok (i + 2) (.str [':', '|']) m st
            else .ok (i + 2) (.op [':', aa]) m st
        else if a == '[' then
          (readList cfg t fuel ']' (i + 1) m).bind fun i' d m' => .ok i' (.pylist d) m' st
        else if isSymbolic cfg a then
          let (i', v) := readSym cfg t i m
          .ok i' v m (st + (i' - i))
        else
          let (i', v) := readOp t i
          .ok i' v m st

  /-- `read_list(t, delim, i, module)` -/
  def readList (cfg : Cfg) (t : Text) : (fuel : Nat) → (delim : Char) → (i : Nat) → PState → Res (List Node)
    | 0, _, _, _ => .outOfFuel
    | fuel + 1, delim, i0, m =>
      let i := skip cfg t i0 true
      (readListLoop cfg t fuel delim i [] m).addSteps (i - i0 + 1)

  /-- the `while not cmatch(t,i,delim) and i < len(t)` loop of `read_list` -/
  def readListLoop (cfg : Cfg) (t : Text) : (fuel : Nat) → (delim : Char) → (i : Nat) → (acc : List Node) → PState → Res (List Node)
    | 0, _, _, _, _ => .outOfFuel
    | fuel + 1, delim, i, acc, m =>
      if !cmatch t i delim && i < t.length then
        (kgRead cfg t fuel i true true m).bind fun i1 q m1 =>
          if q.isNone then
            .ok (if cmatch t i1 delim then i1 + 1 else i1) acc.reverse m1 1
          else
            let i3 := skip cfg t i1 true
            if i < i3 then (readListLoop cfg t fuel delim i3 (q :: acc) m1).addSteps (i3 - i1 + 1)
            else .spin 1
      else .ok (if cmatch t i delim then i + 1 else i) acc.reverse m 1
end

/-- `kg_read_array`: a list becomes an ndarray -/
def kgReadArray (cfg : Cfg) (t : Text) (fuel : Nat) (i : Nat) (ign : Bool) (m : PState) : Res Node :=
  match kgRead cfg t fuel i false ign m with
  | .ok i' (.pylist xs) m' st => .ok i' (.arr xs) m' st
  | r => r

/-! ## the recursive-descent parser (mutually recursive, fuel) -/

def oneOrList (xs : List Node) : Node :=
  match xs with
  | [x] => x
  | _ => .pylist xs

/-- does an argument list start here: `(` or `:(` -/
def argsAhead (t : Text) (i : Nat) : Bool := cmatch t i '(' || cmatch2 t i ':' '('

def mkCall (a : Node) (fa : List Node) (arity : Nat) : Node :=
  .fn a true fa arity (!hasNone fa)

/-- `safe_eq(a, KGSym(s))` -/
def Node.symIs (a : Node) (s : List Char) : Bool :=
  match a with
  | .sym n => n == s
  | _ => false

/-- `_is_monad(a)`: a KGOp whose name is a key of `_vm` -/
def Node.isMonad (cfg : Cfg) : Node → Bool
  | .op name => cfg.monads.contains name
  | _ => false

/-- `ii, aa = peek_adverb(t, i); if aa: <yes> else: <no>` -/
def onAdverb {α} (t : Text) (i : Nat) (yes : Nat → List Char → Res α) (no : Unit → Res α) : Res α :=
  match peekAdverb t i with
  | (i', some adv) => yes i' adv
  | (_, none) => no ()

/-- the marker `a.args[0]` of `.comment(...)`: IndexError without arguments, TypeError
    (`str.index` of a non-str) unless it is a str, KGChar or KGSym -/
def commentMarker : List Node → Except Err (List Char)
  | [] => .error .indexError
  | .str s :: _ => .ok s
  | .chr c :: _ => .ok [c]
  | .sym s :: _ => .ok s
  | _ :: _ => .error .typeError

mutual
  /-- `prog(t, i, ignore_newline)` -/
  def prog (cfg : Cfg) (t : Text) : (fuel : Nat) → (i : Nat) → (ign : Bool) → PState → Res (List Node)
    | 0, _, _, _ => .outOfFuel
    | fuel + 1, i, ign, m => (progLoop cfg t fuel i ign [] m).addSteps 1
  termination_by structural fuel => fuel

  /-- the `while i < len(t)` loop of `prog` -/
  def progLoop (cfg : Cfg) (t : Text) : (fuel : Nat) → (i : Nat) → (ign : Bool) → (acc : List Node) → PState → Res (List Node)
    | 0, _, _, _, _ => .outOfFuel
    | fuel + 1, i, ign, acc, m =>
      if i < t.length then
        (expr cfg t fuel i ign m).bind fun i1 q m1 =>
          if q.isNone || q.isStr [';'] then
            if i < i1 then (progLoop cfg t fuel i1 ign acc m1).addSteps 1 else .spin 1
          else
            (kgRead cfg t fuel i1 false ign m1).bind fun ii c m2 =>
              if !c.isStr [';'] then .ok i1 (q :: acc).reverse m2 1
              else if i < ii then (progLoop cfg t fuel ii ign (q :: acc) m2).addSteps 1
              else .spin 1
      else .ok i acc.reverse m 1
  termination_by structural fuel => fuel

  /-- `_expr(t, i, ignore_newline)` -/
  def expr (cfg : Cfg) (t : Text) : (fuel : Nat) → (i : Nat) → (ign : Bool) → PState → Res Node
    | 0, _, _, _ => .outOfFuel
    | fuel + 1, i, ign, m =>
      (factor cfg t fuel i ign m).bind fun i1 a m1 =>
        if a.isNone || a.isStr [';'] then .ok i1 a m1 1
        else
          (kgRead cfg t fuel i1 false ign m1).bind fun ii aa m2 =>
            (exprLoop cfg t fuel i1 a ii aa ign m2).addSteps 1
  termination_by structural fuel => fuel

  /-- the `while isinstance(aa,(KGOp,KGSym)) or safe_eq(aa,'{')` loop of `_expr`:
      `i` is the end of the expression so far, `(ii, aa)` the lookahead -/
  def exprLoop (cfg : Cfg) (t : Text) : (fuel : Nat) → (i : Nat) → (a : Node) → (ii : Nat) → (aa : Node) → (ign : Bool) → PState → Res Node
    | 0, _, _, _, _, _, _ => .outOfFuel
    | fuel + 1, i, a, ii, aa, ign, m =>
      if aa.isOpOrSym || aa.isStr ['{'] then
        -- the verb: an operator, a symbol (maybe applied to arguments), or a function
        let verb : Res Node :=
          if aa.isStr ['{'] then readFn cfg t fuel ii m
          else if aa.isSym && argsAhead t ii then
            (readFnArgs cfg t fuel ii m).bind fun i5 fa m3 => .ok i5 (mkCall aa fa fa.length) m3 1
          else .ok ii aa m 1
        verb.bind fun i5 v m3 =>
          let step : Res Node :=
            onAdverb t i5 (fun i6 adv => applyAdverbs cfg t fuel i6 v adv 2 true a m3)
              (fun _ => (expr cfg t fuel i5 ign m3).bind fun i7 aaa m4 => .ok i7 (.fn v true [a, aaa] 2 false) m4 1)
          step.bind fun i8 a' m5 =>
            (kgRead cfg t fuel i8 false ign m5).bind fun ii' aa' m6 =>
              if i < i8 then (exprLoop cfg t fuel i8 a' ii' aa' ign m6).addSteps 1 else .spin 1
      else if ign && a.isStr ['\n'] then
        let i' := skip cfg t i true
        .ok i' a m (i' - i + 1)
      else .ok i a m 1
  termination_by structural fuel => fuel

  /-- the part of `_factor` / `_expr` that reads a function after its `{`: the body (a program),
      `}`, `get_fn_arity`, and an argument list if one follows -/
  def readFn (cfg : Cfg) (t : Text) : (fuel : Nat) → (i : Nat) → PState → Res Node
    | 0, _, _ => .outOfFuel
    | fuel + 1, i, m =>
      (prog cfg t fuel i true m).bind fun i2 body m2 =>
        let b := oneOrList body
        let i3 := skip cfg t i2 true
        cexpect t i3 '}' m2 fun i4 =>
          match fnArity b with
          | .error e => .err e m2 (i3 - i2 + 1)
          | .ok arity =>
            if argsAhead t i4 then
              (readFnArgs cfg t fuel i4 m2).bind fun i5 fa m3 => .ok i5 (mkCall b fa arity) m3 (i3 - i2 + 1)
            else .ok i4 (.fn b false [] arity false) m2 (i3 - i2 + 1)
  termination_by structural fuel => fuel

  /-- `_apply_adverbs(t, i, a, aa, arity, dyad, dyad_value)` -/
  def applyAdverbs (cfg : Cfg) (t : Text) : (fuel : Nat) → (i : Nat) → (a : Node) → (aa : List Char) → (arity : Nat) → (dyad : Bool) → (dv : Node) → PState → Res Node
    | 0, _, _, _, _, _, _, _ => .outOfFuel
    | fuel + 1, i, a, aa, arity, dyad, dv, m =>
      let first := Node.adv a (adverbArity aa arity)
      let (i1, more) := adverbsGo (t.drop i) i []
      (expr cfg t fuel i1 false m).bind fun i2 x m1 =>
        let operand := if dyad then Node.pylist [dv, x] else x
        .ok i2 (.fn (.pylist (first :: Node.adv (.str aa) arity :: more ++ [operand])) false [] (if dyad then 2 else 1) true) m1 (i1 - i + 1)
  termination_by structural fuel => fuel

  /-- `_read_fn_args(t, i)` -/
  def readFnArgs (cfg : Cfg) (t : Text) : (fuel : Nat) → (i : Nat) → PState → Res (List Node)
    | 0, _, _ => .outOfFuel
    | fuel + 1, i, m =>
      let i1 := if cmatch t i '(' then i + 1 else i + 2
      if !argsAhead t i then .err (.unexpectedChar i) m 1
      else if cmatch t i1 ')' then .ok (i1 + 1) [] m 1
      else (fnArgsLoop cfg t fuel i1 i1 [] m).addSteps 1
  termination_by structural fuel => fuel

  /-- the `while True` loop of `_read_fn_args`; `k` is the index after the last separator -/
  def fnArgsLoop (cfg : Cfg) (t : Text) : (fuel : Nat) → (i k : Nat) → (acc : List Node) → PState → Res (List Node)
    | 0, _, _, _, _ => .outOfFuel
    | fuel + 1, i, k, acc, m =>
      (kgRead cfg t fuel i false true m).bind fun ii c m1 =>
        if c.isStr [';'] then
          let acc' := if k + 1 == ii then .none :: acc else acc
          if i < ii then (fnArgsLoop cfg t fuel ii ii acc' m1).addSteps 1 else .spin 1
        else if c.isStr [')'] then
          let acc' := if k + 1 == ii then .none :: acc else acc
          cexpect t i ')' m1 fun i' => .ok i' acc'.reverse m1 1
        else
          (expr cfg t fuel i true m1).bind fun i2 a m2 =>
            if a.isNone then cexpect t i2 ')' m2 fun i' => .ok i' acc.reverse m2 1
            else if i < i2 then (fnArgsLoop cfg t fuel i2 k (a :: acc) m2).addSteps 1
            else .spin 1
  termination_by structural fuel => fuel

  /-- `read_cond(klong, t, i)` -/
  def readCond (cfg : Cfg) (t : Text) : (fuel : Nat) → (i : Nat) → PState → Res Node
    | 0, _, _ => .outOfFuel
    | fuel + 1, i, m =>
      (expr cfg t fuel i true m).bind fun i1 n1 m1 =>
        cexpect t i1 ';' m1 fun i2 =>
          (expr cfg t fuel i2 true m1).bind fun i3 n2 m2 =>
            let i4 := skip cfg t i3 true
            if cmatch2 t i4 ':' '|' then
              (readCond cfg t fuel (i4 + 2) m2).bind fun i5 n3 m3 => .ok i5 (.cond [n1, n2, n3]) m3 (i4 - i3 + 1)
            else
              cexpect t i4 ';' m2 fun i5 =>
                (expr cfg t fuel i5 true m2).bind fun i6 n3 m3 =>
                  let i7 := skip cfg t i6 true
                  cexpect t i7 ']' m3 fun i8 => .ok i8 (.cond [n1, n2, n3]) m3 (i4 - i3 + (i7 - i6) + 2)
  termination_by structural fuel => fuel

  /-- `read_expr_array(klong, t, i)` -/
  def readExprArray (cfg : Cfg) (t : Text) : (fuel : Nat) → (i : Nat) → PState → Res (List Node)
    | 0, _, _ => .outOfFuel
    | fuel + 1, i0, m =>
      let i := skip cfg t i0 true
      (exprArrayLoop cfg t fuel i [] m).addSteps (i - i0 + 1)
  termination_by structural fuel => fuel

  /-- the `while i < len(t) and not cmatch(t, i, ']')` loop of `read_expr_array` -/
  def exprArrayLoop (cfg : Cfg) (t : Text) : (fuel : Nat) → (i : Nat) → (acc : List Node) → PState → Res (List Node)
    | 0, _, _, _ => .outOfFuel
    | fuel + 1, i, acc, m =>
      if i < t.length && !cmatch t i ']' then
        (expr cfg t fuel i true m).bind fun i1 e m1 =>
          let acc' := if e.isNone then acc else e :: acc
          let i2 := skip cfg t i1 true
          if cmatch t i2 ';' then
            let i3 := skip cfg t (i2 + 1) true
            if i < i3 then (exprArrayLoop cfg t fuel i3 acc' m1).addSteps (i2 - i1 + (i3 - i2) + 1) else .spin 1
          else if cmatch t i2 ']' then .ok (i2 + 1) acc'.reverse m1 (i2 - i1 + 1)
          else if i < i2 then (exprArrayLoop cfg t fuel i2 acc' m1).addSteps (i2 - i1 + 1)
          else .spin 1
      else .ok (if cmatch t i ']' then i + 1 else i) acc.reverse m 1
  termination_by structural fuel => fuel

  /-- `_factor(t, i, ignore_newline)` -/
  def factor (cfg : Cfg) (t : Text) : (fuel : Nat) → (i : Nat) → (ign : Bool) → PState → Res Node
    | 0, _, _, _ => .outOfFuel
    | fuel + 1, i, ign, m =>
      let ii := skip cfg t i ign
      if cmatch2 t ii '[' ';' then
        (readExprArray cfg t fuel (ii + 2) m).bind fun i1 es m1 => .ok i1 (.exprArr es) m1 (ii - i + 1)
      else
        (kgReadArray cfg t fuel i ign m).bind fun i1 a m1 =>
          -- an adverb after the factor
          let adverbed : Nat → Node → PState → Res Node := fun i2 v m2 =>
            onAdverb t i2 (fun i3 adv => applyAdverbs cfg t fuel i3 v adv 1 false .none m2) (fun _ => .ok i2 v m2 1)
          if a.isNone then .ok i1 a m1 1
          else if a.isStr ['{'] then
            (readFn cfg t fuel i1 m1).bind fun i2 f m2 => adverbed i2 f m2
          else if a.isSym then
            if argsAhead t i1 then
              (readFnArgs cfg t fuel i1 m1).bind fun i2 fa m2 =>
                let call := mkCall a fa fa.length
                if a.symIs ".comment".toList then
                  match commentMarker fa with
                  | .error e => .err e m2 1
                  | .ok mk =>
                    readSysComment cfg t i2 mk m2 fun i3 st => (factor cfg t fuel i3 ign m2).addSteps st
                else if a.symIs ".module".toList then
                  match fa with
                  | [] => .err .indexError m2 1
                  | nm :: _ => adverbed i2 call (parseModule m2 nm)
                else adverbed i2 call m2
            else adverbed i1 a m1
          else if a.isMonad cfg then
            onAdverb t i1 (fun i3 adv => applyAdverbs cfg t fuel i3 a adv 1 false .none m1)
              (fun _ => (expr cfg t fuel i1 ign m1).bind fun i2 x m2 => .ok i2 (.mfn a x) m2 1)
          else if a.isStr ['('] then
            (expr cfg t fuel i1 ign m1).bind fun i2 x m2 =>
              cexpect t i2 ')' m2 fun i3 => .ok i3 x m2 1
          else if a.isStr [':', '['] then readCond cfg t fuel i1 m1
          else .ok i1 a m1 1
  termination_by structural fuel => fuel
end

/-! ## entry points -/

/-- fuel that is always enough (see `parse_terminates`) -/
def fuelFor (t : Text) : Nat := 8 * (t.length + 2)

/-- `KlongInterpreter.prog(text)` in a fresh parser state -/
def parseWith (cfg : Cfg) (fuel : Nat) (m : PState) (t : Text) : Res (List Node) := prog cfg t fuel 0 false m

def parse (cfg : Cfg) (t : Text) : Res (List Node) := parseWith cfg (fuelFor t) {} t

/-! ## the ASCII configuration used by the driver and the examples -/

def asciiSpace (c : Char) : Bool :=
  c == ' ' || c == '\t' || c == '\n' || c == '\r' || c == '\x0b' || c == '\x0c' ||
  c == '\x1c' || c == '\x1d' || c == '\x1e' || c == '\x1f'

def asciiAlpha (c : Char) : Bool := ('a' ≤ c && c ≤ 'z') || ('A' ≤ c && c ≤ 'Z')

def monadNames : List (List Char) :=
  ["!", "#", "$", "%", "&", "*", "+", ",", "-", ":#", ":_", "<", "=", ">", "?", "@", "^", "_", "|", "~",
   "˙", "∇"].map String.toList

/-- the repaired tree -/
def asciiCfg : Cfg :=
  { isSpace := asciiSpace, isAlpha := asciiAlpha, isDigit := isAsciiDigit, isNumeric := isAsciiDigit,
    monads := monadNames, guardEmptyMarker := true }

/-- the pinned tree: `read_sys_comment` without the guard -/
def pinnedCfg : Cfg := { asciiCfg with guardEmptyMarker := false }

/-! ## driver: canonical dump and line protocol -/

def cps (s : List Char) : String := ".".intercalate (s.map fun c => toString c.toNat)

def intStr (src : List Char) : String :=
  match src with
  | '-' :: ds => let z := stripZeros ds; if z == ['0'] then "0" else "-" ++ String.ofList z
  | ds => String.ofList (stripZeros ds)

mutual
  def dump : Node → String
    | .none => "N"
    | .str s => "S" ++ cps s
    | .chr c => "C" ++ toString c.toNat
    | .int src => "I" ++ intStr src
    | .flt _ => "F"
    | .sym n => "Y" ++ cps n
    | .op n => "O" ++ cps n
    | .pylist xs => "L(" ++ dumpL xs ++ ")"
    | .arr xs => "A" ++ toString xs.length
    | .dict _ => "D"
    | .fn a hasArgs args arity call =>
      "K" ++ (if call then "c" else "f") ++ toString arity ++ "(" ++ dump a ++ ";" ++
        (if hasArgs then "L(" ++ dumpL args ++ ")" else "-") ++ ")"
    | .mfn a .none => "Kf1(" ++ dump a ++ ";-)"     -- KGFn(op, None, 1): the operand was missing
    | .mfn a x => "M(" ++ dump a ++ ";" ++ dump x ++ ")"
    | .adv a _ => "V(" ++ dump a ++ ")"
    | .cond xs => "Q(" ++ dumpL xs ++ ")"
    | .exprArr xs => "E(" ++ dumpL xs ++ ")"
  def dumpL : List Node → String
    | [] => ""
    | [x] => dump x
    | x :: xs => dump x ++ "," ++ dumpL xs
end

def showMod (m : PState) : String :=
  (match m.mod with
   | none => "-"
   | some [] => "e"
   | some s => cps s) ++ " exotic=" ++ (if m.exotic then "1" else "0")

def showErr : Err → String
  | .unexpectedChar p => s!"UnexpectedChar pos={p}"
  | .unexpectedEOF p => s!"UnexpectedEOF pos={p}"
  | .valueError => "ValueError pos=-"
  | .typeError => "TypeError pos=-"
  | .indexError => "IndexError pos=-"
  | .runtimeError => "RuntimeError pos=-"

def showRes : Res (List Node) → String
  | .ok i v m st => s!"ok i={i} st={st} mod={showMod m} ast={dumpL v}"
  | .err e m st => s!"err kind={showErr e} st={st} mod={showMod m}"
  | .spin st => s!"spin st={st}"
  | .outOfFuel => "fuel"

def parseCps (s : String) : Option (List Char) :=
  (Wire.splitOnChar s '.').mapM fun w => w.toNat?.map Char.ofNat

structure State where
  unit : Unit := ()

def init : State := {}

/-- `parse t=<code points> [mod=<code points>] [pinned=1] [fuel=<n>] [us= ua= ud= un=<code points>]` -/
def handle (s : State) (ws : List String) : State × String :=
  match ws with
  | "parse" :: rest =>
    let fs := Wire.fields rest
    match parseCps (Wire.fieldD fs "t"), parseCps (Wire.fieldD fs "mod") with
    | some t, some md =>
      let base := if Wire.fieldD fs "pinned" == "1" then pinnedCfg else asciiCfg
      -- non-ASCII characters of the text with their Python classes (str.isspace / isalpha / isdigit / isnumeric)
      let extra (k : String) : List Char := (parseCps (Wire.fieldD fs k)).getD []
      let us := extra "us"; let ua := extra "ua"; let ud := extra "ud"; let un := extra "un"
      let cfg : Cfg := { base with
        isSpace := fun c => base.isSpace c || us.contains c
        isAlpha := fun c => base.isAlpha c || ua.contains c
        isDigit := fun c => base.isDigit c || ud.contains c
        isNumeric := fun c => base.isNumeric c || un.contains c }
      let m : PState := { mod := if (Wire.field fs "mod").isSome then some md else none }
      let fuel := (Wire.natField fs "fuel").getD (fuelFor t)
      (s, showRes (parseWith cfg fuel m t))
    | _, _ => (s, "bad-op")
  | ["monads"] => (s, "monads " ++ ",".intercalate (monadNames.map cps))
  | _ => (s, "bad-op")

end Klong.C12
