/-
  C01 — primitive verbs: the reference (`Ref.*`, transcribed from the Klong manual text in
  the docstrings of monads.py / dyads.py) and the implementation model (`Impl.*`, mirroring
  the Python control flow in terms of Python slicing and the numpy calls used).

  Reals are carried by bit pattern; scalar real arithmetic is `Float` (opaque to proofs —
  the theorems are about structure: recursion, extension, index arithmetic).
-/
import Klong.Model.Val
namespace Klong.C01
open Klong

/-! ## numbers -/

def toF : Val → Option Float
  | .int n => some (Float.ofInt n)
  | .real b => some (Float.ofBits b)
  | _ => none

def ofF (x : Float) : Val := .real x.toBits

def b2i (b : Bool) : Val := .int (if b then 1 else 0)

/-- Python/numpy `fmod` on integers: sign of the dividend -/
def ifmod (a b : Int) : Int := Int.tmod a b

/-- atomic dyads modelled -/
inductive AOp | add | sub | mul | min | max | lt | gt | eq | rem | idiv
deriving Repr, DecidableEq

def lexLt : List Nat → List Nat → Bool
  | [], [] => false
  | [], _ :: _ => true
  | _ :: _, [] => false
  | a :: as, b :: bs => if a < b then true else if b < a then false else lexLt as bs

/-- the verb on two atoms (`none` = the reference defines nothing / the code raises) -/
def scalar2 (op : AOp) : Val → Val → Option Val
  | .int a, .int b =>
    match op with
    | .add => some (.int (a + b))
    | .sub => some (.int (a - b))
    | .mul => some (.int (a * b))
    | .min => some (.int (if a ≤ b then a else b))
    | .max => some (.int (if a ≤ b then b else a))
    | .lt => some (b2i (a < b))
    | .gt => some (b2i (a > b))
    | .eq => some (b2i (a == b))
    | .rem => if b == 0 then none else some (.int (ifmod a b))
    | .idiv => if b == 0 then none else some (.int (Int.tdiv a b))
  | .chr a, .chr b =>
    match op with
    | .lt => some (b2i (a < b))
    | .gt => some (b2i (a > b))
    | .eq => some (b2i (a == b))
    | _ => none
  | .str a, .str b =>
    match op with
    | .lt => some (b2i (lexLt a b))
    | .gt => some (b2i (lexLt b a))
    | .eq => some (b2i (a == b))
    | _ => none
  | .sym a, .sym b =>
    match op with
    | .eq => some (b2i (a == b))
    | _ => none
  | a, b =>
    match toF a, toF b with
    | some x, some y =>
      match op with
      | .add => some (ofF (x + y))
      | .sub => some (ofF (x - y))
      | .mul => some (ofF (x * y))
      | .min => some (ofF (if x ≤ y then x else y))
      | .max => some (ofF (if x ≤ y then y else x))
      | .lt => some (b2i (x < y))
      | .gt => some (b2i (x > y))
      | .eq => some (b2i (x == y))
      | _ => none
    | _, _ => none

/-! ## reference: atomic extension (manual: "atomic operator") -/

mutual
def refA2 (f : Val → Val → Option Val) : Val → Val → Option Val
  | .list xs, .list ys => (refZip f xs ys).map .list
  | .list xs, b => (refMapL f xs b).map .list
  | a, .list ys => (refMapR f a ys).map .list
  | a, b => f a b
termination_by a b => sizeOf a + sizeOf b
def refZip (f : Val → Val → Option Val) : List Val → List Val → Option (List Val)
  | [], [] => some []
  | x :: xs, y :: ys => do
    let r ← refA2 f x y
    let rs ← refZip f xs ys
    pure (r :: rs)
  | _, _ => none
termination_by xs ys => sizeOf xs + sizeOf ys
def refMapL (f : Val → Val → Option Val) : List Val → Val → Option (List Val)
  | [], _ => some []
  | x :: xs, b => do
    let r ← refA2 f x b
    let rs ← refMapL f xs b
    pure (r :: rs)
termination_by xs b => sizeOf xs + sizeOf b
def refMapR (f : Val → Val → Option Val) : Val → List Val → Option (List Val)
  | _, [] => some []
  | a, y :: ys => do
    let r ← refA2 f a y
    let rs ← refMapR f a ys
    pure (r :: rs)
termination_by a ys => sizeOf a + sizeOf ys
end

mutual
def refA1 (f : Val → Option Val) : Val → Option Val
  | .list xs => (refMap1 f xs).map .list
  | a => f a
def refMap1 (f : Val → Option Val) : List Val → Option (List Val)
  | [] => some []
  | x :: xs => do
    let r ← refA1 f x
    let rs ← refMap1 f xs
    pure (r :: rs)
end

/-! ## implementation: numpy classification, then the ufunc

`kg_asarray` turns a list into a homogeneous N-d array when it is a regular nest of numbers,
into an object array otherwise.  A ufunc / `vec_fn2` then takes one of three routes:
flat vector operation (both rank-1 homogeneous, equal length), N-d operation on equal shapes
(element-wise), element-wise recursion through object arrays.  Operands that are both
homogeneous but of different shape are broadcast by numpy along trailing axes — that route
is *not* the reference's atom-to-list extension and is reported as `unmodelled`. -/

inductive Res where
  | ok (v : Val)
  | err
  | unmodelled
deriving Repr, Inhabited

/-- shape of a regular nest of numbers (`kg_asarray` yields a non-object array) -/
def numShape : Val → Option (List Nat)
  | .int _ => some []
  | .real _ => some []
  | .list [] => some [0]
  | .list (x :: xs) =>
    match numShape x with
    | none => none
    | some s =>
      if (numShapes xs).all (fun t => t == some s) then some ((xs.length + 1) :: s) else none
  | _ => none
where
  numShapes : List Val → List (Option (List Nat))
    | [] => []
    | y :: ys => numShape y :: numShapes ys

/-- all elements are numeric atoms: the flat vector a rank-1 homogeneous array holds -/
def asNums : List Val → Option (List Val)
  | [] => some []
  | x :: xs => if x.isNum then (asNums xs).map (x :: ·) else none

def zipNums (f : Val → Val → Option Val) : List Val → List Val → Option (List Val)
  | [], [] => some []
  | x :: xs, y :: ys => do
    let r ← f x y
    let rs ← zipNums f xs ys
    pure (r :: rs)
  | _, _ => none

/-- both operands homogeneous with different shapes: numpy broadcasting applies -/
def rankMismatch (a b : Val) : Bool :=
  match numShape a, numShape b with
  | some s, some t => s != t && s != [] && t != []
  | _, _ => false

mutual
def implA2 (f : Val → Val → Option Val) : Val → Val → Option Val
  | .list xs, .list ys =>
    match asNums xs, asNums ys with
    | some is, some js => (zipNums f is js).map .list        -- one flat ufunc call
    | _, _ => (implZip f xs ys).map .list                     -- N-d / object: element-wise
  | .list xs, b => (implMapL f xs b).map .list
  | a, .list ys => (implMapR f a ys).map .list
  | a, b => f a b
termination_by a b => sizeOf a + sizeOf b
def implZip (f : Val → Val → Option Val) : List Val → List Val → Option (List Val)
  | [], [] => some []
  | x :: xs, y :: ys => do
    let r ← implA2 f x y
    let rs ← implZip f xs ys
    pure (r :: rs)
  | _, _ => none
termination_by xs ys => sizeOf xs + sizeOf ys
def implMapL (f : Val → Val → Option Val) : List Val → Val → Option (List Val)
  | [], _ => some []
  | x :: xs, b => do
    let r ← implA2 f x b
    let rs ← implMapL f xs b
    pure (r :: rs)
termination_by xs b => sizeOf xs + sizeOf b
def implMapR (f : Val → Val → Option Val) : Val → List Val → Option (List Val)
  | _, [] => some []
  | a, y :: ys => do
    let r ← implA2 f a y
    let rs ← implMapR f a ys
    pure (r :: rs)
termination_by a ys => sizeOf a + sizeOf ys
end

/-- somewhere in the paired traversal numpy would broadcast two homogeneous arrays of
    different shape (decidable; the complement is where `Impl = Ref` is proved) -/
def anyRankMismatch : Val → Val → Bool
  | .list xs, .list ys =>
    rankMismatch (.list xs) (.list ys) ||
      (numShape (.list xs) == none || numShape (.list ys) == none) && goZip xs ys
  | _, _ => false
where
  goZip : List Val → List Val → Bool
    | x :: xs, y :: ys => rankMismatch x y || goZip xs ys
    | _, _ => false

def dyadRes (f : Val → Val → Option Val) (a b : Val) : Res :=
  if anyRankMismatch a b then .unmodelled
  else match implA2 f a b with
    | some v => .ok v
    | none => .err

/-! ## Python slicing -/

def pyClamp (len : Nat) (i : Int) : Nat :=
  if i < 0 then (len + i).toNat else min i.toNat len

/-- `xs[start:stop]` -/
def slice {α} (xs : List α) (start stop : Option Int) : List α :=
  let n := xs.length
  let s := match start with | none => 0 | some i => pyClamp n i
  let e := match stop with | none => n | some i => pyClamp n i
  (xs.drop s).take (e - s)

def tile {α} (xs : List α) : Nat → List α
  | 0 => []
  | k + 1 => xs ++ tile xs k

/-! ## structural verbs on plain lists -/

/-- element `i` of the endless repetition of `b` -/
def cyc {α} [Inhabited α] (b : List α) (i : Nat) : α := b.getD (i % b.length) default

/-- reference Take: `a` elements from the front (back if negative), cycling -/
def refTake {α} [Inhabited α] (a : Int) (b : List α) : List α :=
  if b.length = 0 then []
  else
    let m := a.natAbs
    if a ≥ 0 then (List.range m).map (fun i => cyc b i)
    else (List.range m).map (fun i => cyc b (b.length - m % b.length + i))

/-- `eval_dyad_take` -/
def implTake {α} (a : Int) (b : List α) : List α :=
  let aa := a.natAbs
  let n := b.length
  if n = 0 then b
  else if aa > n then
    let t := tile b (aa / n)
    let c := if a > 0 then t ++ slice t none (some ((aa : Int) - t.length))
             else slice t (some (-((aa : Int) - t.length))) none ++ t
    if a < 0 then slice c (some a) none else slice c none (some a)
  else if a < 0 then slice b (some a) none else slice b none (some a)

/-- reference Drop -/
def refDrop {α} (a : Int) (b : List α) : List α :=
  if a ≥ 0 then b.drop a.natAbs else b.take (b.length - a.natAbs)

/-- `eval_dyad_drop`: `b[a:] if a >= 0 else b[:a]` -/
def implDrop {α} (a : Int) (b : List α) : List α :=
  if a ≥ 0 then slice b (some a) none else slice b none (some a)

/-- reference Rotate: positive = drop from the end, append to the front; count a!#b -/
def refRotate {α} (a : Int) (b : List α) : List α :=
  if b.length = 0 then b
  else
    let k := (a % (b.length : Int)).toNat      -- Klong's a!#b taken into [0, #b)
    b.drop (b.length - k) ++ b.take (b.length - k)

/-- `np.roll(b, a)` on a rank-1 array: element i moves to (i + a) mod n -/
def npRoll {α} [Inhabited α] (b : List α) (a : Int) : List α :=
  let n := b.length
  (List.range n).map (fun (i : Nat) => b.getD (((i : Int) - a) % (n : Int)).toNat default)

/-- `eval_dyad_rotate` on a vector -/
def implRotate {α} [Inhabited α] (a : Int) (b : List α) : List α :=
  if a = 0 then b else npRoll b a

/-- reference Split, integer size: consecutive segments of `a`, the last may be shorter -/
def refSplitN {α} (fuel : Nat) (a : Nat) (b : List α) : List (List α) :=
  match fuel with
  | 0 => []
  | fuel + 1 => if b.isEmpty then [] else b.take a :: refSplitN fuel a (b.drop a)

/-- reference Split with a list of sizes, cycling -/
def refSplitL {α} (fuel : Nat) (sizes : List Nat) (p : Nat) (b : List α) : List (List α) :=
  match fuel with
  | 0 => []
  | fuel + 1 =>
    if b.isEmpty then []
    else
      let s := sizes.getD p 0
      b.take s :: refSplitL fuel sizes (if p + 1 ≥ sizes.length then 0 else p + 1) (b.drop s)

/-- `np.array_split(b, k)`: k sections, the first `n % k` have `n / k + 1` elements -/
def npArraySplit {α} (b : List α) (k : Nat) : List (List α) :=
  let n := b.length
  let q := n / k
  let r := n % k
  (List.range k).map fun i =>
    let start := if i < r then i * (q + 1) else r * (q + 1) + (i - r) * q
    let len := if i < r then q + 1 else q
    (b.drop start).take len

/-- `eval_dyad_split` with integer `a` on the pinned tree: `array_split` into
    ceil(n/a) nearly equal parts -/
def implSplitN_pinned {α} (a : Nat) (b : List α) : List (List α) :=
  if b.length = 0 then []
  else if a ≥ b.length then [b]
  else
    let k := b.length / a
    let k := if k * a < b.length then k + 1 else k
    npArraySplit b k

/-- `eval_dyad_split` with integer `a` (repaired): slices of size `a` -/
def implSplitN {α} (a : Nat) (b : List α) : List (List α) :=
  if b.length = 0 then []
  else if a ≥ b.length then [b]
  else (List.range ((b.length + a - 1) / a)).map fun i => (b.drop (i * a)).take a

/-- reference Cut: cut `b` before the positions in `ps` (monotone) -/
def refCut {α} (ps : List Nat) (b : List α) : List (List α) :=
  go 0 ps b
where
  go (prev : Nat) : List Nat → List α → List (List α)
    | [], rest => [rest]
    | p :: ps, rest => rest.take (p - prev) :: go p ps (rest.drop (p - prev))

def refReverse {α} (b : List α) : List α := b.reverse

/-- `a[::-1]` -/
def implReverse {α} [Inhabited α] (b : List α) : List α :=
  (List.range b.length).map (fun i => b.getD (b.length - 1 - i) default)

def refEnumerate (n : Nat) : List Val := (List.range n).map (fun (i : Nat) => Val.int (i : Int))

/-- reference Expand/Where -/
def refExpand (cs : List Nat) : List Val :=
  (cs.zipIdx.map fun (c, i) => List.replicate c (Val.int i)).flatten

/-- reference Range: unique elements in order of appearance (by `eq`) -/
def refRange {α} (eq : α → α → Bool) : List α → List α
  | [] => []
  | x :: xs => x :: (refRange eq xs).filter (fun y => !eq x y)

/-- reference Group: indices of equal elements, groups in order of first appearance -/
def refGroup {α} (eq : α → α → Bool) (xs : List α) : List (List Nat) :=
  let idx := xs.zipIdx
  (refRange eq xs).map fun k => (idx.filter fun p => eq k p.1).map (·.2)

/-! ## values: strings as character lists -/

def strChars (cs : List Nat) : List Val := cs.map .chr

def joinChars : List Val → Option (List Nat)
  | [] => some []
  | .chr c :: r => (joinChars r).map (c :: ·)
  | .str s :: r => (joinChars r).map (s ++ ·)
  | _ => none

instance : Inhabited Val := ⟨.undef⟩

/-- apply a list function to a list or string operand, restoring the kind -/
def onSeq (f : List Val → List Val) : Val → Option Val
  | .list xs => some (.list (f xs))
  | .str cs => (joinChars (f (strChars cs))).map .str
  | _ => none

def segs (strk : Bool) (r : List (List Val)) : Option Val :=
  if strk then (r.mapM joinChars).map (fun ss => .list (ss.map .str))
  else some (.list (r.map .list))

/-! ## Match (`~`) for Range / Group -/

mutual
def vmatch : Val → Val → Bool
  | .list xs, .list ys => vmatchL xs ys
  | .int a, .int b => a == b          -- integers are compared with "=" (exactly)
  | a, b =>
    match toF a, toF b with
    | some x, some y => x == y
    | _, _ => a == b
def vmatchL : List Val → List Val → Bool
  | [], [] => true
  | x :: xs, y :: ys => vmatch x y && vmatchL xs ys
  | _, _ => false
end

def natList : List Val → Option (List Nat)
  | [] => some []
  | .int n :: r => if n < 0 then none else (natList r).map (n.toNat :: ·)
  | _ => none

/-! ## more reference verbs (oracle only: no implementation model yet) -/

/-- Join on non-dictionary operands (manual's case list) -/
def refJoin : Val → Val → Option Val
  | .dict _, _ => none
  | _, .dict _ => none
  | .list xs, .list ys => some (.list (xs ++ ys))
  | .list xs, b => some (.list (xs ++ [b]))
  | a, .list ys => some (.list (a :: ys))
  | .str a, .str b => some (.str (a ++ b))
  | .str a, .chr c => some (.str (a ++ [c]))
  | .chr c, .str b => some (.str (c :: b))
  | .chr a, .chr b => some (.str [a, b])
  | a, b => some (.list [a, b])

def seqElems : Val → Option (List Val)
  | .list xs => some xs
  | .str cs => some (strChars cs)
  | _ => none

/-- rebuild a list of extracted elements: characters of a string stay a string -/
def reseq (isStr : Bool) (xs : List Val) : Option Val :=
  if isStr then (joinChars xs).map .str else some (.list xs)

/-- a@b for an integer index or a list of integer indices (0 ≤ i < #a) -/
def refIndex (a b : Val) : Option Val :=
  match seqElems a with
  | none => none
  | some es =>
    let isStr := match a with | .str _ => true | _ => false
    match b with
    | .int i => if i < 0 then none else es[i.toNat]?
    | .list ixs =>
      match natList ixs with
      | some is => (is.mapM fun i => es[i]?).bind (reseq isStr)
      | none => none
    | _ => none

/-- positions of the matches of an element in a list / a character in a string -/
def refFindElem (es : List Val) (b : Val) : List Val :=
  (es.zipIdx.filter fun p => vmatch p.1 b).map fun p => Val.int (p.2 : Nat)

def isPrefix : List Nat → List Nat → Bool
  | [], _ => true
  | _ :: _, [] => false
  | a :: as, b :: bs => a == b && isPrefix as bs

/-- positions of a substring (the empty string is found at every position 0..#a) -/
def refFindSub (a b : List Nat) : List Val :=
  ((List.range (a.length + 1)).filter fun i => isPrefix b (a.drop i) && i + b.length ≤ a.length).map
    fun (i : Nat) => Val.int (i : Int)

/-- shape of a regular array (strings may be the innermost level); ragged nests are vectors -/
def refShape : Val → List Nat
  | .list [] => [0]
  | .list (x :: xs) =>
    let s := refShape x
    let inner := match x with | .list _ => true | .str (_ :: _) => true | _ => false
    if inner && (refShapes xs).all (fun t => t == s) then (xs.length + 1) :: s else [xs.length + 1]
  | .str cs => if cs.isEmpty then [] else [cs.length]
  | _ => []
where
  refShapes : List Val → List (List Nat)
    | [] => []
    | y :: ys => refShape y :: refShapes ys

def transposeRows : List (List Val) → List (List Val)
  | [] => []
  | r :: rs =>
    if r.isEmpty then [] else
    (List.range r.length).map fun j => (r :: rs).filterMap fun row => row[j]?

/-- cyclic fill of a shape from a flat element list -/
def reshapeFill (fuel : Nat) (dims : List Nat) (flat : List Val) (off : Nat) : Val :=
  match fuel, dims with
  | _, [] => flat.getD (off % flat.length) .undef
  | 0, _ => .undef
  | fuel + 1, d :: ds =>
    let stride := ds.foldl (· * ·) 1
    .list ((List.range d).map fun i => reshapeFill fuel ds flat (off + i * stride))

def flattenAll : Val → List Val
  | .list xs => flattenList xs
  | a => [a]
where
  flattenList : List Val → List Val
    | [] => []
    | y :: ys => flattenAll y ++ flattenList ys

def isSeq : Val → Bool
  | .list _ => true | .str _ => true | _ => false

def seqLen : Val → Nat
  | .list xs => xs.length | .str cs => cs.length | _ => 0

/-- where the manual's wording on Shape is ambiguous, at any depth: empty members (atoms that are
    also lists/strings) and rows of equal length that are themselves irregular -/
def shapeAmbHere (xs : List Val) : Bool :=
  let hasEmpty := xs.any (fun x => match x with | .list [] => true | .str [] => true | _ => false)
  let rowsIrregular := xs.all (fun x => match x with | .list (_ :: _) => true | _ => false) &&
    (xs.map seqLen).all (· == seqLen (xs.headD .undef)) &&
    xs.any (fun x => match x with
      | .list ys => ys.any (fun y => match y with | .list _ => true | _ => false) &&
                    (refShape x).length == 1
      | _ => false)
  hasEmpty || rowsIrregular

mutual
def shapeAmb : Val → Bool
  | .list xs => shapeAmbHere xs || shapeAmbL xs
  | _ => false
def shapeAmbL : List Val → Bool
  | [] => false
  | x :: xs => shapeAmb x || shapeAmbL xs
end

/-- a character is paired with a string somewhere: klongpy identifies 0ca with "a" under its own
    = / ~; the reference does not define that comparison -/
def charStrClash : Val → Val → Bool
  | .chr _, .str _ => true
  | .str _, .chr _ => true
  | .list xs, .list ys => clashL xs ys
  | _, _ => false
where
  clashL : List Val → List Val → Bool
    | x :: xs, y :: ys => charStrClash x y || clashL xs ys
    | _, _ => false

/-! ## verb tables -/

def aopOf : String → Option AOp
  | "+" => some .add | "-" => some .sub | "*" => some .mul | "&" => some .min | "|" => some .max
  | "<" => some .lt | ">" => some .gt | "=" => some .eq | "!" => some .rem | ":%" => some .idiv
  | _ => none

/-- reference for dyads: `none` where the manual defines nothing -/
def refDyad (verb : String) (a b : Val) : Option Val :=
  match aopOf verb with
  | some op => refA2 (scalar2 op) a b
  | none =>
    match verb, a, b with
    | "#", .int n, b => if seqLen b = 0 && n != 0 then none else onSeq (refTake n) b
    | "_", .int n, b => onSeq (refDrop n) b
    | ":+", .int n, b => if isSeq b then onSeq (refRotate n) b else some b
    | ":#", .int n, b =>
      if n ≤ 0 then none else
      match b with
      | .list xs => segs false (refSplitN (xs.length + 1) n.toNat xs)
      | .str cs => segs true (refSplitN (cs.length + 1) n.toNat (strChars cs))
      | _ => none
    | ":#", .list sz, b =>
      match natList sz with
      | some sizes =>
        if sizes.isEmpty || sizes.any (· == 0) then none else
        match b with
        | .list xs => segs false (refSplitL (xs.length + 1) sizes 0 xs)
        | .str cs => segs true (refSplitL (cs.length + 1) sizes 0 (strChars cs))
        | _ => none
      | none => none
    | ":_", .int n, b =>
      -- cutting an empty list: the manual's "zero or #b" clauses overlap; left undefined
      if n < 0 || n.toNat > seqLen b || seqLen b = 0 then none else
      match b with
      | .list xs => segs false (refCut [n.toNat] xs)
      | .str cs => segs true (refCut [n.toNat] (strChars cs))
      | _ => none
    | ":_", .list ps, b =>
      match natList ps with
      | some ps =>
        if !(ps.zip (ps.drop 1)).all (fun (x, y) => x ≤ y) || ps.any (· > seqLen b) || seqLen b = 0 then none else
        match b with
        | .list xs => segs false (refCut ps xs)
        | .str cs => segs true (refCut ps (strChars cs))
        | _ => none
      | none => none
    | "~", a, b => if charStrClash a b then none else some (b2i (vmatch a b))
    | ",", a, b => refJoin a b
    | "@", a, b => refIndex a b
    | "?", .list es, b =>
      (match b with
       | .list _ => none
       | .chr _ => none | .str _ => none      -- 0ca vs "a": identified by klongpy's own = / ~
       | _ => some (.list (refFindElem es b)))
    | "?", .str a, .chr c => some (.list (refFindElem (strChars a) (.chr c)))
    | "?", .str a, .str b => some (.list (refFindSub a b))
    | ":^", .list dims, b =>
      (match natList dims with
       | some ds =>
         let flat := flattenAll b
         -- defined here for a flat vector or an atom (the manual's own examples disagree on how a
         -- nested source is traversed); strings are left out
         let flatSrc := match b with
           | .list xs => xs.all (fun x => match x with | .list _ => false | .str _ => false | _ => true)
           | .str _ => false
           | .chr _ => false
           | _ => true
         if ds.isEmpty || ds.any (· == 0) || flat.isEmpty || !flatSrc then none
         else some (reshapeFill (ds.length + 1) ds flat 0)
       | none => none)
    | ":^", .int n, b =>
      let flat := flattenAll b
      let flatSrc := match b with
        | .list xs => xs.all (fun x => match x with | .list _ => false | .str _ => false | _ => true)
        | .str _ => false
        | .chr _ => false
        | _ => true
      if n ≤ 0 || flat.isEmpty || !flatSrc then none else some (reshapeFill 2 [n.toNat] flat 0)
    | _, _, _ => none

/-- implementation model for dyads -/
def implDyad (verb : String) (a b : Val) : Res :=
  match aopOf verb with
  | some op => dyadRes (scalar2 op) a b
  | none =>
    let lift (o : Option Val) : Res := match o with | some v => .ok v | none => .err
    match verb, a, b with
    | "#", .int n, b => if isSeq b then lift (onSeq (implTake n) b) else .unmodelled
    | "_", .int n, b => if isSeq b then lift (onSeq (implDrop n) b) else .unmodelled
    | ":+", .int n, b => if isSeq b then
        (match b with
         | .list xs => if n != 0 && (numShape b).any (·.length > 1) then .unmodelled   -- np.roll flattens
                       else lift (some (.list (implRotate n xs)))
         | _ => lift (onSeq (implRotate n) b))
      else .ok b
    | ":#", .int n, b =>
      if n ≤ 0 then .unmodelled else
      match b with
      | .list xs => lift (segs false (implSplitN n.toNat xs))
      | .str cs => lift (segs true (implSplitN n.toNat (strChars cs)))
      | _ => .unmodelled
    | _, _, _ => .unmodelled

/-- reference for monads -/
def refMonad (verb : String) (a : Val) : Option Val :=
  match verb, a with
  | "-", a => refA1 (fun x => match x with
      | .int n => some (.int (-n)) | .real b => some (ofF (-(Float.ofBits b))) | _ => none) a
  | "|", a => if isSeq a then onSeq refReverse a else some a
  | "*", .list [] => some (.list [])
  | "*", .list (x :: _) => some x
  | "*", .str [] => some (.str [])
  | "*", .str (c :: _) => some (.chr c)
  | "*", a => some a
  | "#", .list xs => some (.int xs.length)
  | "#", .str cs => some (.int cs.length)
  | "!", .int n => if n < 0 then none else some (.list (refEnumerate n.toNat))
  | "&", .int n => if n < 0 then none else some (.list (List.replicate n.toNat (.int 0)))
  | "&", .list xs => (natList xs).map fun cs => .list (refExpand cs)
  | "?", .list xs =>
    -- a character next to a string: klongpy identifies 0ca with "a"; left undefined
    if xs.any (fun x => match x with | .chr _ => true | _ => false) &&
       xs.any (fun x => match x with | .str _ => true | _ => false) then none
    else some (.list (refRange vmatch xs))
  | "?", .str cs => (joinChars (refRange vmatch (strChars cs))).map .str
  | "=", .list xs =>
    if xs.any (fun x => match x with | .chr _ => true | _ => false) &&
       xs.any (fun x => match x with | .str _ => true | _ => false) then none
    else some (.list ((refGroup vmatch xs).map fun g => .list (g.map fun (i : Nat) => Val.int (i : Int))))
  | "=", .str cs => some (.list ((refGroup vmatch (strChars cs)).map fun g => .list (g.map fun (i : Nat) => Val.int (i : Int))))
  | "@", a => some (b2i a.isAtom)
  | "^", .list [] => some (.int 0)         -- [] is an atom
  | "^", .list xs =>
    if shapeAmb (.list xs) then none
    else some (.list ((refShape (.list xs)).map fun (n : Nat) => Val.int (n : Int)))
  | "^", .str (c :: cs) => some (.list [.int ((c :: cs).length : Nat)])
  | "^", .str [] => none
  | "^", _ => some (.int 0)
  | "+", .list [] => some (.list [])
  | "+", .list rows =>
    (match rows.mapM (fun r => match r with | .list xs => some xs | _ => none) with
     | some rs =>
       if rs.all (fun r => r.length == (rs.headD []).length) && !(rs.headD []).isEmpty
          && rs.all (fun r => r.all (fun x => x.isAtom))       -- a matrix (2-array) only
       then some (.list ((transposeRows rs).map .list)) else none
     | none => none)
  | "~", .int n => some (b2i (n == 0))
  | "~", .list [] => some (.int 1)
  | "~", .str [] => some (.int 1)
  | "~", .real b => some (b2i (Float.ofBits b == 0))
  | "~", .sym _ => some (.int 0)
  | "~", .str (_ :: _) => some (.int 0)
  | "~", .dict _ => some (.int 0)
  | "~", .chr _ => some (.int 0)
  | "#", .int n => some (.int n.natAbs)
  | "#", .real b => some (ofF (Float.abs (Float.ofBits b)))
  | "#", .chr c => some (.int c)
  | "_", .int n => some (.int n)
  | ",", .chr c => some (.str [c])       -- a list of one character is a string
  | ",", a => some (.list [a])
  | _, _ => none

def implMonad (verb : String) (a : Val) : Res :=
  let lift (o : Option Val) : Res := match o with | some v => .ok v | none => .err
  match verb, a with
  | "-", a => lift (refA1 (fun x => match x with
      | .int n => some (.int (-n)) | .real b => some (ofF (-(Float.ofBits b))) | _ => none) a)
  | "|", a => if isSeq a then lift (onSeq implReverse a) else .ok a     -- repaired: atoms unchanged
  | "*", .list [] => .ok (.list [])
  | "*", .list (x :: _) => .ok x
  | "*", .str [] => .ok (.str [])
  | "*", .str (c :: _) => .ok (.chr c)
  | "#", .list xs => .ok (.int xs.length)
  | "#", .str cs => .ok (.int cs.length)
  | "!", .int n => if n < 0 then .unmodelled else .ok (.list (refEnumerate n.toNat))
  | _, _ => .unmodelled

/-! ## driver -/

def showRes : Res → String
  | .ok v => "ok:" ++ v.toWire
  | .err => "err"
  | .unmodelled => "unmodelled"

def showOpt : Option Val → String
  | some v => v.toWire
  | none => "none"

structure State where
  unit : Unit := ()

def init : State := {}

def handle (s : State) (ws : List String) : State × String :=
  match ws with
  | "D" :: verb :: rest =>
    match Val.parseMany (Val.tokenize (" ".intercalate rest)) with
    | some [a, b] =>
      (s, s!"ref={showOpt (refDyad verb a b)} impl={showRes (implDyad verb a b)}")
    | _ => (s, "bad-op")
  | "M" :: verb :: rest =>
    match Val.parseMany (Val.tokenize (" ".intercalate rest)) with
    | some [a] => (s, s!"ref={showOpt (refMonad verb a)} impl={showRes (implMonad verb a)}")
    | _ => (s, "bad-op")
  | _ => (s, "bad-op")

end Klong.C01
