/-
  C17 — `CrashFs`: a POSIX-style persistence model for the key-value store's write path.

  Mirrors (klongpy/db):
    file_cache.py  FileCache._write_file      -> `setOps` (parametrised by the statement skeleton
                                                 `Sk` that vlib/c17.py extracts from the AST, the
                                                 `use_fsync` flag and the io buffer size)
    file_cache.py  FileCache.update_file      -> `Op.begin … Op.ret` (future.result(): the set
                                                 returns after the worker has finished)
    sys_fn_kvs.py  KeyValueStorage.set / get  -> `begin k v` / `recover`
    helpers.py     key_to_file_path           -> identity: a key *is* a relative path

  The operating system, the file system and the disk are *replaced* by this model:
    * a volatile view (what system calls observe) and a durable view (what survives power loss)
      of directories, directory entries and file contents;
    * operations mkdir, creatTrunc (open 'wb'), write, fsyncFile, fsyncDir, close, rename
      (os.replace), unlink, plus the markers begin (a set starts) / ret (the set returns) and
      kill (the writer process dies without data loss and a new process continues on the same
      directory: histories that chain a process kill and a later power loss);
    * the model's root `[]` is a durably existing base directory; the store root may be a fresh
      path below it (its chain of directories is created by `mkdir` like any other, also outside
      a set — when the store is opened — and is subject to the same persistence rules);
    * `crash` = every image obtainable by keeping the durable view and, independently for each
      unsynced effect, none / all / (for a write) a byte prefix of it;
    * `recover` = what a fresh store reads for a key on such an image;
    * two variants: `strict` (a directory-entry update — creation, rename, unlink — is durable
      only after fsync of the directory holding it) and `journalled` (fsync(file) also persists the
      entry the file has *at that moment* and its ancestors' entries, ext4's behaviour for a newly
      created file).  A rename/unlink is treated alike in both variants: durable only after fsync of
      the directory (ext4 journals the rename, but nothing orders the journal commit before the set
      returns; the property's "everything not explicitly synced is lost" is the strict variant).
    * entry updates are kept per path as *alternatives* (`alt`): what the path may still show after
      a crash if its pending entry updates are lost (absent, or the contents choices of the file it
      named before).  The two entry updates of a rename (source removed, target re-pointed) are lost
      independently — a superset of what an atomic rename allows, same per-path outcomes.  The
      alternatives of a renamed-away source are a snapshot (exact as long as the moved file is not
      modified again before the directory is synced, which `WF` guarantees across sets).

  The sequential cache (memory accounting, eviction) is C16 and is not repeated here.
-/
import Klong.Model.Wire
namespace Klong.C17
open Klong.Wire

/-- a path relative to the store root, as its components (interned as numbers by the harness);
    the root itself is `[]` and is assumed to exist durably -/
abbrev Path := List Nat

def parent (p : Path) : Path := p.dropLast

/-- proper ancestors of `p` below the root, shallowest first (`a/b/c ↦ a, a/b`) -/
def ancestors : Path → List Path
  | [] => []
  | [_] => []
  | x :: y :: rest => [x] :: (ancestors (y :: rest)).map (x :: ·)

inductive Variant
  | strict
  | journalled
deriving DecidableEq, Repr

/-- an unsynced effect on a file's contents -/
inductive Eff
  | trunc
  | write (off : Nat) (data : Bytes)
deriving DecidableEq, Repr

/-! ### association lists keyed by path -/

def setKV {α : Type} (l : List (Path × α)) (k : Path) (x : α) : List (Path × α) :=
  (k, x) :: l.filter (fun p => p.1 != k)

def names {α : Type} (l : List (Path × α)) : List Path := l.map (·.1)

/-! ### file-system state -/

structure Fs where
  vdirs  : List Path := []                 -- directories in the volatile namespace
  vfiles : List (Path × Bytes) := []       -- files in the volatile namespace with their contents
  ddirs  : List Path := []                 -- directories whose entry in the parent is durable
  alt    : List (Path × List (Option Bytes)) := []
                                           -- per path: what it may still show after a crash if its
                                           -- unsynced entry updates are lost (none = absent);
                                           -- empty = the entry is as durable as the directory says
  dcont  : List (Path × Bytes) := []       -- inode contents as of the last fsync (new inode: empty)
  pend   : List (Path × List Eff) := []    -- unsynced effects on the contents, oldest first
  opened : List Path := []                 -- files with an open descriptor
deriving Repr

def Fs.pendOf (fs : Fs) (f : Path) : List Eff := (fs.pend.lookup f).getD []
def Fs.altOf (fs : Fs) (f : Path) : List (Option Bytes) := (fs.alt.lookup f).getD []
def Fs.contOf (fs : Fs) (f : Path) : Bytes := (fs.vfiles.lookup f).getD []
def Fs.isFile (fs : Fs) (f : Path) : Bool := (names fs.vfiles).contains f
def Fs.isDir (fs : Fs) (d : Path) : Bool := d == [] || fs.vdirs.contains d

inductive Op
  | begin (k : Path) (v : Bytes)      -- KeyValueStorage.set(k, v) starts; v = the pickled value
  | mkdir (d : Path)
  | creatTrunc (f : Path)             -- open(f, 'wb'): create if missing, truncate, keep open
  | write (f : Path) (data : Bytes)   -- write(2) at the current offset (= current length)
  | fsyncFile (f : Path)
  | fsyncDir (d : Path)
  | close (f : Path)
  | rename (src dst : Path)           -- os.replace / os.rename: dst now names src's file
  | unlink (f : Path)
  | kill                              -- the writer process dies (no data loss): descriptors and the
                                      -- set in progress are gone, both views of the file system stay
  | ret                               -- the set returns to its caller
deriving DecidableEq, Repr

/-! ### what one path may show after a crash -/

def pwrite (c : Bytes) (off : Nat) (data : Bytes) : Bytes :=
  c.take off ++ List.replicate (off - c.length) 0 ++ data ++ c.drop (off + data.length)

def applyEff (c : Bytes) : Eff → Bytes
  | .trunc => []
  | .write off data => pwrite c off data

/-- what may reach the disk of one unsynced effect: nothing, all of it, or a non-empty proper
    byte prefix of a write -/
def effChoices : Eff → List (Option Eff)
  | .trunc => [none, some .trunc]
  | .write off data =>
    none :: (List.range data.length).map (fun j => some (.write off (data.take (j + 1))))

/-- contents obtainable from durable contents `c` and pending effects, each chosen independently -/
def contentChoices (c : Bytes) : List Eff → List Bytes
  | [] => [c]
  | e :: es => (effChoices e).flatMap fun
    | none => contentChoices c es
    | some e' => contentChoices (applyEff c e') es

/-- a path after the crash: one of its alternatives (pending entry updates lost), or what it names
    now — absent, or the file with one of the obtainable contents -/
def fileChoices (fs : Fs) (f : Path) : List (Option Bytes) :=
  fs.altOf f ++
  (if fs.isFile f then (contentChoices ((fs.dcont.lookup f).getD []) (fs.pendOf f)).map some else [none])

def delKV {α : Type} (l : List (Path × α)) (k : Path) : List (Path × α) := l.filter (fun p => p.1 != k)

/-- effect of a file-system operation on both views (no precondition checks; see `ok`) -/
def Fs.step (v : Variant) (fs : Fs) : Op → Fs
  | .begin _ _ => fs
  | .ret => fs
  | .mkdir d => { fs with vdirs := d :: fs.vdirs }
  | .creatTrunc f =>
    if fs.isFile f then
      { fs with vfiles := setKV fs.vfiles f []
              , pend := setKV fs.pend f (fs.pendOf f ++ [Eff.trunc])
              , opened := f :: fs.opened }
    else
      { fs with vfiles := setKV fs.vfiles f []
              , dcont := setKV fs.dcont f []
              , pend := setKV fs.pend f []
              , alt := setKV fs.alt f (fileChoices fs f)     -- the new entry may be lost
              , opened := f :: fs.opened }
  | .write f data =>
    { fs with vfiles := setKV fs.vfiles f (fs.contOf f ++ data)
            , pend := setKV fs.pend f (fs.pendOf f ++ [Eff.write (fs.contOf f).length data]) }
  | .fsyncFile f =>
    let fs1 := { fs with dcont := setKV fs.dcont f (fs.contOf f), pend := setKV fs.pend f [] }
    match v with
    | .strict => fs1
    | .journalled => { fs1 with alt := delKV fs1.alt f, ddirs := ancestors f ++ fs1.ddirs }
  | .fsyncDir d =>
    { fs with ddirs := fs.vdirs.filter (fun p => parent p == d) ++ fs.ddirs
            , alt := fs.alt.filter (fun p => parent p.1 != d) }
  | .close f => { fs with opened := fs.opened.filter (· != f) }
  | .rename src dst =>
    -- dst names src's file; if the update is lost dst shows what it showed before and src is still there
    { fs with vfiles := setKV (delKV fs.vfiles src) dst (fs.contOf src)
            , dcont := setKV (delKV fs.dcont src) dst ((fs.dcont.lookup src).getD [])
            , pend := setKV (delKV fs.pend src) dst (fs.pendOf src)
            , alt := setKV (setKV fs.alt src (fileChoices fs src)) dst (fileChoices fs dst) }
  | .unlink f =>
    { fs with vfiles := delKV fs.vfiles f, dcont := delKV fs.dcont f, pend := delKV fs.pend f
            , alt := setKV fs.alt f (fileChoices fs f) }
  | .kill => { fs with opened := [] }

/-- machine state: file system + which set is in progress + the completed sets (latest first) -/
structure St where
  fs   : Fs := {}
  cur  : Option (Path × Bytes) := none
  done : List (Path × Bytes) := []
  scratch : List Path := []      -- paths other than the key that the set in progress has created
  dirty : List Path := []        -- keys / scratch paths of sets that a process kill interrupted and
                                 -- that no completed set has rewritten since: their state is unspecified
deriving Repr

def init : St := {}

def curKey (s : St) : Option Path := s.cur.map (·.1)

/-- scratch paths of the set in progress: every path other than the key it creates a file at -/
def scratchStep (cur : Option Path) (scratch : List Path) : Op → List Path
  | .creatTrunc f => if cur == some f || scratch.contains f then scratch else f :: scratch
  | .ret => []
  | _ => scratch

def step (v : Variant) (s : St) (op : Op) : St :=
  match op with
  | .begin k val => { s with cur := some (k, val) }
  | .ret =>
    match s.cur with
    | some kv => { s with cur := none, done := kv :: s.done, scratch := [],
                          dirty := s.dirty.filter (· != kv.1) }
    | none => { s with scratch := [] }
  | .kill => { s with fs := s.fs.step v .kill, cur := none, scratch := [],
                      dirty := (curKey s).toList ++ s.scratch ++ s.dirty }
  | op => { s with fs := s.fs.step v op, scratch := scratchStep (curKey s) s.scratch op }

def run (v : Variant) (s : St) (tr : List Op) : St := tr.foldl (step v) s

/-- the durable view alone already determines `k ↦ val` -/
def durableAs (fs : Fs) (k : Path) (val : Bytes) : Bool :=
  fs.isFile k && fs.dcont.lookup k == some val && (fs.pendOf k).isEmpty &&
  (fs.altOf k).isEmpty && (ancestors k).all (fun a => fs.ddirs.contains a)

/-- the path is durably absent: no file, no pending entry update that could bring one back -/
def durablyAbsent (fs : Fs) (p : Path) : Bool := !fs.isFile p && (fs.altOf p).isEmpty

/-- paths the set in progress may touch: its key and its scratch files -/
def allowed (s : St) (p : Path) : Bool := curKey s == some p || s.scratch.contains p

/-- well-formedness of one operation in a state.  For the operations of a set of key `k`:
    everything touches only `k`'s file, `k`'s ancestor directories and scratch files (paths the set
    itself created where no completed key lives); system-call preconditions hold (so the model's
    outcome is the POSIX outcome); and at the return the volatile file holds the full value,
    nothing of it is unsynced (the fsync came after the last write), the descriptor is closed,
    the file's entry (including a rename that put it there) and the entries of all its ancestors
    are durable, and every scratch file is durably gone. -/
def ok (s : St) : Op → Bool
  | .begin k _ =>
    s.cur.isNone && k != [] && !s.fs.isDir k && (ancestors k).all (fun a => !s.fs.isFile a) &&
    s.fs.opened.isEmpty && s.scratch.isEmpty
  | .mkdir d =>
    match s.cur with
    | some (k, _) => (ancestors k).contains d && !s.fs.isDir d && !s.fs.isFile d && s.fs.isDir (parent d)
    | none => !s.fs.isDir d && !s.fs.isFile d && s.fs.isDir (parent d)     -- e.g. when the store is opened
  | .creatTrunc f =>
    s.cur.isSome && (allowed s f || (s.done.lookup f).isNone) &&
    !s.fs.opened.contains f && s.fs.isDir (parent f) && !s.fs.isDir f
  | .write f _ => allowed s f && s.fs.opened.contains f
  | .fsyncFile f => allowed s f && s.fs.opened.contains f
  | .fsyncDir d => s.fs.isDir d
  | .close f => allowed s f && s.fs.opened.contains f
  | .rename src dst =>
    allowed s src && allowed s dst && src != dst && s.fs.isFile src && !s.fs.opened.contains src &&
    !s.fs.opened.contains dst && !s.fs.isDir dst && s.fs.isDir (parent dst)
  | .unlink f => allowed s f && s.fs.isFile f && !s.fs.opened.contains f
  | .kill => true
  | .ret =>
    match s.cur with
    | some (k, val) =>
      s.fs.opened.isEmpty && s.fs.vfiles.lookup k == some val && durableAs s.fs k val &&
      s.scratch.all (fun p => durablyAbsent s.fs p)
    | none => false

/-- run a trace, checking every operation; `none` as soon as one is not well-formed -/
def runWF (v : Variant) (s : St) : List Op → Option St
  | [] => some s
  | op :: tr => if ok s op then runWF v (step v s op) tr else none

/-- the decidable trace predicate of the per-run obligation -/
def WF (v : Variant) (tr : List Op) : Bool := (runWF v init tr).isSome

/-! ### the abstract side, read off the trace alone -/

/-- completed sets (latest first), the set in progress and its scratch paths, from the trace
    alone (begin/ret markers and the `creatTrunc` arguments) -/
structure Ghost where
  cur : Option (Path × Bytes) := none
  done : List (Path × Bytes) := []
  scratch : List Path := []
  dirty : List Path := []

def ghostStep (g : Ghost) : Op → Ghost
  | .begin k v => { g with cur := some (k, v) }
  | .ret =>
    match g.cur with
    | some kv => { cur := none, done := kv :: g.done, scratch := [], dirty := g.dirty.filter (· != kv.1) }
    | none => { g with scratch := [] }
  | .kill => { g with cur := none, scratch := [], dirty := (g.cur.map (·.1)).toList ++ g.scratch ++ g.dirty }
  | op => { g with scratch := scratchStep (g.cur.map (·.1)) g.scratch op }

def ghost (g : Ghost) (tr : List Op) : Ghost := tr.foldl ghostStep g

def inProgress (tr : List Op) : Option Path := (ghost {} tr).cur.map (·.1)
def lastCompleted (tr : List Op) (k : Path) : Option Bytes := (ghost {} tr).done.lookup k
def scratchOf (tr : List Op) : List Path := (ghost {} tr).scratch
/-- keys (and temp files) of sets that a process kill interrupted and no completed set has rewritten since -/
def dirtyOf (tr : List Op) : List Path := (ghost {} tr).dirty

/-! ### crash -/

def crashFiles (fs : Fs) : List Path → List (List (Path × Bytes))
  | [] => [[]]
  | f :: rest => (fileChoices fs f).flatMap fun o => (crashFiles fs rest).map fun r =>
    match o with
    | none => r
    | some b => (f, b) :: r

def subsets {α : Type} : List α → List (List α)
  | [] => [[]]
  | x :: xs => (subsets xs).flatMap fun r => [r, x :: r]

/-- the durable directories plus any subset of the others -/
def dirChoices (fs : Fs) : List (List Path) :=
  (subsets (fs.vdirs.filter (fun d => !fs.ddirs.contains d))).map (· ++ fs.ddirs)

/-- what is on the disk after a crash: directory entries and file entries with contents (an
    object is reachable only if all its ancestors' entries are there too — see `recover`) -/
structure Image where
  dirs  : List Path
  files : List (Path × Bytes)
deriving Repr, DecidableEq

/-- paths that may name a file after the crash: the volatile files and the paths with pending
    entry updates (e.g. a renamed-away temp file) -/
def crashPaths (fs : Fs) : List Path :=
  names fs.vfiles ++ (names fs.alt).filter (fun p => !(names fs.vfiles).contains p)

def crash (fs : Fs) : List Image :=
  (dirChoices fs).flatMap fun D => (crashFiles fs (crashPaths fs)).map fun F => ⟨D, F⟩

/-- `KeyValueStorage(root).get(k)` on the image, before unpickling: the file's bytes, or `none`
    (→ `:undefined`, not a failure) when the path does not resolve -/
def recover (c : Image) (k : Path) : Option Bytes :=
  if (ancestors k).all (fun a => c.dirs.contains a) then c.files.lookup k else none

/-- the image a process kill leaves (nothing that reached the kernel is lost) -/
def volatileImage (fs : Fs) : Image := ⟨fs.vdirs, fs.vfiles⟩

/-! ### `_write_file` as a statement skeleton (extracted from the AST on every run) -/

inductive Sk
  | scanNew (root : Option Nat)
                          -- new_entry_dirs = _dirs_gaining_entry(path).  `none`: the parents of the
                          -- components that do not exist yet (main up to 8d93190); `some n`: in
                          -- addition the whole chain from the file's directory up to the directory
                          -- holding the store root, the root being the ancestor with n components
                          -- (existence is not taken to mean that an entry is durable)
  | makedirs              -- os.makedirs(parent, exist_ok=True)
  | openWb                -- with open(path, 'wb') as f:
  | write                 -- f.write(new_file_contents)   (into the BufferedWriter)
  | flush (cond : Bool)   -- f.flush(), `cond`: under `if use_fsync`
  | fsync (cond : Bool)   -- os.fsync(f.fileno()), `cond`: under `if use_fsync`
  | close                 -- end of the with block (flushes)
  | fsyncNew (cond : Bool) -- for d in new_entry_dirs: _fsync_dir(d)
deriving DecidableEq, Repr

/-- `_dirs_gaining_entry`: the parent of every component of `k` that does not exist yet — and, with
    `root = some n`, of every component at or below the store root (n components) whether it exists
    or not — deepest first -/
def newParents (root : Option Nat) (fs : Fs) (k : Path) : List Path :=
  let t := root.getD (k.length + 1)
  ((if fs.isFile k && decide (k.length < t) then [] else [k]) ++
   ((ancestors k).reverse.filter fun a => decide (t ≤ a.length) || !fs.isDir a)).map parent

structure SkSt where
  st  : St
  buf : Bytes := []            -- the BufferedWriter's buffer
  new : List Path := []
  out : List Op := []

def SkSt.emit (v : Variant) (x : SkSt) (ops : List Op) : SkSt :=
  { x with st := run v x.st ops, out := x.out ++ ops }

def SkSt.flush (v : Variant) (x : SkSt) (k : Path) : SkSt :=
  if x.buf.isEmpty then x else { x.emit v [.write k x.buf] with buf := [] }

def skStep (v : Variant) (flag : Bool) (bufsize : Nat) (k : Path) (val : Bytes) (x : SkSt) : Sk → SkSt
  | .scanNew root => { x with new := newParents root x.st.fs k }
  | .makedirs => x.emit v (((ancestors k).filter fun a => !x.st.fs.isDir a).map Op.mkdir)
  | .openWb => x.emit v [.creatTrunc k]
  | .write =>
    -- CPython BufferedWriter.write: fits into the buffer → no system call; otherwise flush
    -- what is buffered and hand the data to the raw file in one call
    if x.buf.length + val.length ≤ bufsize then { x with buf := x.buf ++ val }
    else (x.flush v k).emit v [.write k val]
  | .flush cond => if !cond || flag then x.flush v k else x
  | .fsync cond => if !cond || flag then x.emit v [.fsyncFile k] else x
  | .close => (x.flush v k).emit v [.close k]
  | .fsyncNew cond => if !cond || flag then x.emit v (x.new.map Op.fsyncDir) else x

/-- operations of one `set k val` from state `s` -/
def setOps (v : Variant) (sk : List Sk) (flag : Bool) (bufsize : Nat) (s : St) (k : Path) (val : Bytes) : List Op :=
  let x0 : SkSt := { st := s }
  let x1 := x0.emit v [.begin k val]
  let x2 := sk.foldl (skStep v flag bufsize k val) x1
  (x2.emit v [.ret]).out

/-- concatenated trace of a sequence of sets -/
def traceOf (v : Variant) (sk : List Sk) (flag : Bool) (bufsize : Nat) : St → List (Path × Bytes) → List Op
  | _, [] => []
  | s, (k, val) :: rest =>
    let ops := setOps v sk flag bufsize s k val
    ops ++ traceOf v sk flag bufsize (run v s ops) rest

/-- `_write_file` of the pinned tree (2f5072a): no flush, no directory fsync -/
def skPinned : List Sk := [.makedirs, .openWb, .write, .fsync true, .close]
/-- `_write_file` after the two `fix:` commits of branch fix-c17 -/
def skFixedOf (root : Option Nat) : List Sk :=
  [.scanNew root, .makedirs, .openWb, .write, .flush true, .fsync true, .close, .fsyncNew true]
/-- main up to 8d93190: only directories that gain an entry in THIS set are synced -/
def skFixed : List Sk := skFixedOf none

/-! ### driver -/

def showPath (p : Path) : String := if p.isEmpty then "-" else ".".intercalate (p.map toString)

def parsePath (s : String) : Option Path :=
  if s == "-" || s == "" then some [] else (splitOnChar s '.').mapM String.toNat?

def sortStrs (l : List String) : List String := (l.toArray.qsort (· < ·)).toList

def dedupStrs : List String → List String
  | [] => []
  | [x] => [x]
  | x :: y :: r => if x == y then dedupStrs (y :: r) else x :: dedupStrs (y :: r)

def showSet (l : List String) : String := ",".intercalate (dedupStrs (sortStrs l))

def showOp : Op → String
  | .begin k v => s!"begin:{showPath k}:{toHex v}"
  | .mkdir d => s!"mkdir:{showPath d}"
  | .creatTrunc f => s!"creat:{showPath f}"
  | .write f d => s!"write:{showPath f}:{toHex d}"
  | .fsyncFile f => s!"fsync:{showPath f}"
  | .fsyncDir d => s!"fsyncdir:{showPath d}"
  | .close f => s!"close:{showPath f}"
  | .rename a b => s!"rename:{showPath a}:{showPath b}"
  | .unlink f => s!"unlink:{showPath f}"
  | .kill => "kill"
  | .ret => "ret"

def parseOp (s : String) : Option Op :=
  match s.splitOn ":" with
  | ["begin", k, v] => do pure (.begin (← parsePath k) (← parseHex v))
  | ["mkdir", d] => (parsePath d).map .mkdir
  | ["creat", f] => (parsePath f).map .creatTrunc
  | ["write", f, d] => do pure (.write (← parsePath f) (← parseHex d))
  | ["fsync", f] => (parsePath f).map .fsyncFile
  | ["fsyncdir", d] => (parsePath d).map .fsyncDir
  | ["close", f] => (parsePath f).map .close
  | ["rename", a, b] => do pure (.rename (← parsePath a) (← parsePath b))
  | ["unlink", f] => (parsePath f).map .unlink
  | ["ret"] => some .ret
  | ["kill"] => some .kill
  | _ => none

def parseSk (s : String) : Option Sk :=
  match s.splitOn ":" with
  | ["scanall", n] => n.toNat?.map fun r => .scanNew (some r)
  | _ =>
  match s with
  | "scan" => some (.scanNew none)
  | "makedirs" => some .makedirs
  | "open" => some .openWb
  | "write" => some .write
  | "flush" => some (.flush false)
  | "flush?" => some (.flush true)
  | "fsync" => some (.fsync false)
  | "fsync?" => some (.fsync true)
  | "close" => some .close
  | "fsyncnew" => some (.fsyncNew false)
  | "fsyncnew?" => some (.fsyncNew true)
  | _ => none

/-- reachable part of an image, canonical -/
def showImage (c : Image) : String :=
  let reach (p : Path) : Bool := (ancestors p).all (fun a => c.dirs.contains a)
  let ds := (c.dirs.filter reach).map showPath
  let fsn := (c.files.filter (fun p => reach p.1)).map fun p => s!"{showPath p.1}@{toHex p.2}"
  s!"dirs={showSet ds};files={showSet fsn}"

def showRecover (c : Image) (keys : List Path) : String :=
  ",".intercalate (keys.map fun k =>
    match recover c k with
    | none => s!"{showPath k}@missing"
    | some b => s!"{showPath k}@{toHex b}")

def digest (s : St) : String :=
  let fs := s.fs
  let vf := fs.vfiles.map fun p => s!"{showPath p.1}@{toHex p.2}"
  let dc := fs.dcont.map fun p => s!"{showPath p.1}@{toHex p.2}"
  let pe := (fs.pend.filter (fun p => !p.2.isEmpty)).map fun p => s!"{showPath p.1}@{p.2.length}"
  s!"vdirs={showSet (fs.vdirs.map showPath)} vfiles={showSet vf} ddirs={showSet (fs.ddirs.map showPath)} " ++
  s!"pendingentries={showSet ((fs.alt.filter (fun p => !p.2.isEmpty)).map fun p => showPath p.1)} dcont={showSet dc} pend={showSet pe} " ++
  s!"open={showSet (fs.opened.map showPath)} cur={(curKey s).elim "none" showPath} scratch={showSet (s.scratch.map showPath)} dirty={showSet (s.dirty.map showPath)} done={s.done.length}"

/-- driver state: variant, machine state, whether every operation so far was well-formed -/
structure DSt where
  v  : Variant := .strict
  st : St := {}
  wf : Bool := true

def dinit : DSt := {}

def handle (d : DSt) (ws : List String) : DSt × String :=
  match ws with
  | "new" :: rest =>
    match fieldD (fields rest) "variant" with
    | "strict" => ({ v := .strict }, "ok")
    | "journalled" => ({ v := .journalled }, "ok")
    | _ => (d, "bad-op")
  | ["op", o] =>
    match parseOp o with
    | some op =>
      let good := ok d.st op
      let d' := { d with st := step d.v d.st op, wf := d.wf && good }
      (d', s!"ok good={if good then 1 else 0} wf={if d'.wf then 1 else 0} {digest d'.st}")
    | none => (d, "bad-op")
  | "setops" :: rest =>
    -- the model's operations for the next set from the current state (does not step)
    let fs := fields rest
    match (listField fs "sk").mapM parseSk, natField fs "flag", natField fs "buf",
          parsePath (fieldD fs "k"), parseHex (fieldD fs "v") with
    | some sk, some fl, some bs, some k, some v =>
      (d, "ops=" ++ ";".intercalate ((setOps d.v sk (fl != 0) bs d.st k v).map showOp))
    | _, _, _, _, _ => (d, "bad-op")
  | ["crashcount"] => (d, s!"n={(crash d.st.fs).length}")
  | "images" :: rest =>
    -- selected crash images (by index into `crash`) with what `recover` reads for the given keys
    let fs := fields rest
    match (listField fs "idx").mapM String.toNat?, (listField fs "keys").mapM parsePath with
    | some idx, some keys =>
      let cs := (crash d.st.fs).toArray
      let out := idx.map fun i =>
        match cs[i]? with
        | some c => s!"{showImage c};rec={showRecover c keys}"
        | none => "none"
      (d, "imgs=" ++ "|".intercalate out)
    | _, _ => (d, "bad-op")
  | "kill" :: rest =>
    -- the image left by a process kill (volatile view), same format
    match (listField (fields rest) "keys").mapM parsePath with
    | some keys =>
      let c := volatileImage d.st.fs
      (d, s!"img={showImage c};rec={showRecover c keys}")
    | none => (d, "bad-op")
  | ["spec"] =>
    -- completed sets (latest value per key) and the key in progress
    let ks := dedupStrs (sortStrs (d.st.done.map fun p => showPath p.1))
    let items := ks.filterMap fun k =>
      match parsePath k with
      | some p => (d.st.done.lookup p).map fun b => s!"{k}@{toHex b}"
      | none => none
    (d, s!"cur={(curKey d.st).elim "none" showPath} done={",".intercalate items}")
  | _ => (d, "bad-op")

end Klong.C17
