/-
  C07 — `GradState`: the store/heap machine on which klongpy's gradient operators run.

  State: store `Name → Bind` (a heap reference or a symbol), heap `Ref → Cell` (a list of
  numbers with a kind tag and a shape), the number of evaluations of the differentiated
  function so far and what each evaluation saw.  Numbers are integers in units of the probe
  step (eps = 1e-6 ↦ 1).  The differentiated function is an arbitrary *script*
  `Nat → Outcome`: what its k-th evaluation does.

  Mirrors (klongpy/autograd.py, klongpy/dyads.py, klongpy/backends/torch_backend.py,
  klongpy/interpreter.py):
    KlongInterpreter.eval(KGSym)                 -> `evalName` (undefined name is bound to itself)
    KlongContext.__setitem__ / __getitem__       -> `set` / `lookup`
    np.asarray(x, dtype=float) [pinned]          -> `asF64 .pinned`  (NO copy for float64 array / float64 tensor buffer)
    np.array(x, dtype=float)   [repaired, fix:]  -> `asF64 .repaired` (always a private copy)
    x.copy(), np.asarray(..).flatten(), .reshape -> `copyOf`, `flattenF64` (always fresh; probes keep the point's shape)
    x[idx] = orig ± eps ; x[idx] = orig          -> `writeAt`
    numeric_grad                                 -> `numericGrad` / `gradLoop`
    numeric_jacobian                             -> `jacNumeric` / `jacLoop`
    TorchBackendProvider.create_grad_tensor      -> `gradTensor` (fresh float32 tensor, requires_grad)
    compute_autograd / compute_multi_autograd / compute_jacobian -> the torch branches of `runForm`
    grad_of_fn, eval_dyad_grad (+ .func), jacobian_of_fn / eval_sys_jacobian,
    multi_grad_of_fn (+ call_fn_with_tensors, single_param_fn),
    multi_jacobian_of_fn (+ single_param_fn)      -> `runForm` and `invoke`
-/
import Klong.Model.Wire
namespace Klong.C07
open Klong.Wire

abbrev Name := String
abbrev Ref := Nat

/-- Python type of a numeric value: float, int, ndarray float64 / int64, torch tensor
    float32 / float64 / int64, torch float32 tensor with `requires_grad` -/
inductive Kind
  | pyfloat | pyint | f64 | i64 | t32 | t64 | ti64 | t32g
deriving DecidableEq, Repr

structure Cell where
  kind : Kind
  shape : List Nat
  data : List Int
deriving DecidableEq, Repr

/-- what a name is bound to: an object in the heap, or a symbol (immutable) -/
inductive Bind
  | ref (r : Ref)
  | sym (n : Name)
deriving DecidableEq, Repr

abbrev Store := List (Name × Bind)

def lookup : Store → Name → Option Bind
  | [], _ => none
  | (m, c) :: t, n => if m = n then some c else lookup t n

/-- assignment: rebinding an existing name keeps its place, a new name is added -/
def set : Store → Name → Bind → Store
  | [], n, b => [(n, b)]
  | (m, c) :: t, n, b => if m = n then (m, b) :: t else (m, c) :: set t n b

def setMany : Store → List (Name × Bind) → Store
  | st, [] => st
  | st, (n, b) :: t => setMany (set st n b) t

/-- `for sym, orig in originals.items(): klong[sym] = orig` with `originals` read from `orig` -/
def restoreFrom (orig : Store) : List Name → Store → Store
  | [], st => st
  | n :: t, st =>
    match lookup orig n with
    | some b => restoreFrom orig t (set st n b)
    | none => restoreFrom orig t st

/-- an undefined name evaluates to itself and is bound to itself -/
def bindSelf (st : Store) (n : Name) : Store :=
  match lookup st n with
  | none => set st n (.sym n)
  | some _ => st

def lookupAll (st : Store) : List Name → Option (List Bind)
  | [] => some []
  | n :: t =>
    match lookup st n, lookupAll st t with
    | some b, some bs => some (b :: bs)
    | _, _ => none

/-- value and kind of what a binding denotes -/
inductive View
  | cell (c : Cell)
  | sym (n : Name)
  | dangling
deriving DecidableEq, Repr

/-- what one evaluation of the function sees: its argument and every watched global -/
structure Obs where
  arg : Option View
  globals : List (Name × Option View)
deriving DecidableEq, Repr

structure St where
  store : Store
  heap : List Cell
  calls : Nat := 0
  log : List Obs := []
deriving DecidableEq, Repr

def viewB (s : St) : Bind → View
  | .sym n => .sym n
  | .ref r =>
    match s.heap[r]? with
    | some c => .cell c
    | none => .dangling

def viewN (s : St) (n : Name) : Option View := (lookup s.store n).map (viewB s)

/-- what one evaluation of the differentiated function does -/
inductive Outcome
  | scalar                                  -- returns a scalar that still depends on its inputs
  | vector                                  -- returns a non-scalar (two components)
  | plain                                   -- returns a plain Python number (no gradient chain)
  | raise                                   -- raises an `Exception`
  | interrupt                               -- is ended by a `BaseException` that is not an `Exception`
                                            -- (KeyboardInterrupt, SystemExit, GeneratorExit, ...):
                                            -- `finally` still runs, `except Exception` does not catch it
  | unknown (n : Name) (selfBind : Bool)    -- refers to the unknown name `n` and fails; the
                                            -- interpreter may bind `n` to itself on that path
deriving DecidableEq, Repr

/-- the function's behaviour may depend on how often it has been evaluated and on everything
    it can see (its argument and the globals) -/
abbrev Script := Nat → Obs → Outcome

structure Cfg where
  watch : List Name                 -- the globals the function can read (all logged)
  fnUnknown : Option Name := none   -- the function operand is itself an unbound name

inductive Variant | pinned | repaired
deriving DecidableEq, Repr

inductive Backend | numpy | torch
deriving DecidableEq, Repr

inductive Ret
  | val (size : Nat) (attached : Bool)
  | exc
  | abort      -- propagating BaseException: never caught by the `except Exception` fallbacks
deriving DecidableEq, Repr

def observe (cfg : Cfg) (arg : Option Ref) (s : St) : Obs :=
  { arg := arg.map fun r => viewB s (.ref r)
    globals := cfg.watch.map fun n => (n, viewN s n) }

/-- one evaluation of the differentiated function (`_invoke_fn` / `klong.call`) -/
def callF (sc : Script) (cfg : Cfg) (arg : Option Ref) (s : St) : St × Ret :=
  match cfg.fnUnknown with
  | some _ => (s, .exc)     -- applying a symbol gives back a symbol: never a number
  | none =>
    let s1 : St := { s with calls := s.calls + 1, log := s.log ++ [observe cfg arg s] }
    match sc s.calls (observe cfg arg s) with
    | .scalar => (s1, .val 1 true)
    | .vector => (s1, .val 2 true)
    | .plain => (s1, .val 1 false)
    | .raise => (s1, .exc)
    | .interrupt => (s1, .abort)
    | .unknown n b => (if b then { s1 with store := bindSelf s1.store n } else s1, .exc)

/-! ### heap primitives -/

def eps : Int := 1

def alloc (s : St) (c : Cell) : St × Ref :=
  ({ s with heap := s.heap ++ [c] }, s.heap.length)

/-- `x[i] = v` in place -/
def writeAt (s : St) (x : Ref) (i : Nat) (v : Int) : St :=
  match s.heap[x]? with
  | some c => { s with heap := s.heap.set x { c with data := c.data.set i v } }
  | none => s

def origAt (s : St) (x : Ref) (i : Nat) : Int :=
  match s.heap[x]? with
  | some c => c.data.getD i 0
  | none => 0

/-- `x.copy()` of the numpy working array `x` (a float64 ndarray even when `x` is the numpy
    view of a float64 tensor's buffer) -/
def copyOf (s : St) (x : Ref) : St × Ref :=
  match s.heap[x]? with
  | some c => alloc s { c with kind := .f64 }
  | none => alloc s ⟨.f64, [], []⟩

/-- pinned: `np.asarray(to_numpy(x), dtype=float64)` — the SAME buffer for a float64 ndarray
    and for a float64 tensor; repaired: `np.array(...)` — always a private copy -/
def asF64 (v : Variant) (s : St) : Bind → Option (St × Ref)
  | .sym _ => none
  | .ref r =>
    match s.heap[r]? with
    | none => none
    | some c =>
      if v = .pinned ∧ (c.kind = .f64 ∨ c.kind = .t64) then some (s, r)
      else some (alloc s { kind := .f64, shape := c.shape, data := c.data })

/-- `x = np.asarray(x, dtype=float64); shape = x.shape; x = x.flatten()` — flatten always copies.
    The working copy is walked flat, but every probe handed to the function is
    `copy.reshape(shape)` (main 331d75e: a scalar point stays 0-d, a matrix keeps its shape), and
    the working copy itself is never seen by anyone: it is recorded with the point's shape, so
    that `copyOf` / `copyPerturbed` yield exactly the reshaped probes. -/
def flattenF64 (s : St) : Bind → Option (St × Ref)
  | .sym _ => none
  | .ref r =>
    match s.heap[r]? with
    | none => none
    | some c => some (alloc s { kind := .f64, shape := c.shape, data := c.data })

/-- `create_grad_tensor`: a fresh float32 tensor with requires_grad -/
def gradTensor (s : St) : Bind → Option (St × Ref)
  | .sym _ => none
  | .ref r =>
    match s.heap[r]? with
    | none => none
    | some c => some (alloc s { kind := .t32g, shape := c.shape, data := c.data })

/-! ### how a probe value reaches the function -/

inductive Wrap
  | direct                                              -- call_fn(v)
  | rebind (p : Name) (orig : Bind) (passArg : Bool)    -- p := v; try f(v) / g() finally p := orig
  | multi (ps : List Name) (vals : List Bind) (i : Nat) -- vals[i] := v; call_fn_with_tensors(vals)

/-- `call_fn_with_tensors`: bind every parameter, evaluate, restore every parameter in `finally` -/
def invokeMulti (sc : Script) (cfg : Cfg) (ps : List Name) (tensors : List Bind) (s : St) : St × Ret :=
  if ps.all (fun n => (lookup s.store n).isSome) then
    let s1 : St := { s with store := setMany s.store (ps.zip tensors) }
    let r := callF sc cfg none s1
    ({ r.1 with store := restoreFrom s.store ps r.1.store }, r.2)
  else (s, .exc)

def invoke (sc : Script) (cfg : Cfg) : Wrap → Ref → St → St × Ret
  | .direct, v, s => callF sc cfg (some v) s
  | .rebind p orig passArg, v, s =>
    let s1 : St := { s with store := set s.store p (.ref v) }
    let r := callF sc cfg (if passArg then some v else none) s1
    ({ r.1 with store := set r.1.store p orig }, r.2)
  | .multi ps vals i, v, s => invokeMulti sc cfg ps (vals.set i (.ref v)) s

/-- `_scalar_value` accepts the result -/
def scalarOk : Ret → Bool
  | .val 1 _ => true
  | _ => false

/-! ### numeric_grad -/

/-- `x[idx] = d; func(x.copy())` -/
def probe (sc : Script) (cfg : Cfg) (w : Wrap) (x : Ref) (i : Nat) (d : Int) (s : St) : St × Ret :=
  let a := copyOf (writeAt s x i d) x
  invoke sc cfg w a.2 a.1

def gradLoop (sc : Script) (cfg : Cfg) (w : Wrap) (x : Ref) : List Nat → St → St × Bool
  | [], s => (s, true)
  | i :: is, s =>
    let orig := origAt s x i
    let r1 := probe sc cfg w x i (orig + eps) s
    if scalarOk r1.2 then
      let r2 := probe sc cfg w x i (orig - eps) r1.1
      if scalarOk r2.2 then gradLoop sc cfg w x is (writeAt r2.1 x i orig)
      else (r2.1, false)
    else (r1.1, false)

def sizeAt (s : St) (x : Ref) : Nat :=
  match s.heap[x]? with
  | some c => c.data.length
  | none => 0

def numericGrad (v : Variant) (sc : Script) (cfg : Cfg) (w : Wrap) (b : Bind) (s : St) : St × Bool :=
  match asF64 v s b with
  | none => (s, false)
  | some (s1, x) => gradLoop sc cfg w x (List.range (sizeAt s1 x)) s1

/-! ### numeric_jacobian -/

def bcast (a b : Nat) : Option Nat :=
  if a = b then some a else if a = 1 then some b else if b = 1 then some a else none

/-- `jacobian[:, j] = (f_plus - f_minus) / (2*eps)` does not raise -/
def colOk (m a b : Nat) : Bool :=
  match bcast a b with
  | some c => c == m || c == 1
  | none => false

/-- `c = x.copy(); c[j] = d` -/
def copyPerturbed (s : St) (x : Ref) (j : Nat) (d : Int) : St × Ref :=
  let a := copyOf s x
  (writeAt a.1 a.2 j d, a.2)

def jacLoop (sc : Script) (cfg : Cfg) (w : Wrap) (x : Ref) (m : Nat) : List Nat → St → St × Bool
  | [], s => (s, true)
  | j :: js, s =>
    let orig := origAt s x j
    let a := copyPerturbed s x j (orig + eps)
    let b := copyPerturbed a.1 x j (orig - eps)
    let r1 := invoke sc cfg w a.2 b.1
    match r1.2 with
    | .exc => (r1.1, false)
    | .abort => (r1.1, false)
    | .val n1 _ =>
      let r2 := invoke sc cfg w b.2 r1.1
      match r2.2 with
      | .exc => (r2.1, false)
      | .abort => (r2.1, false)
      | .val n2 _ => if colOk m n1 n2 then jacLoop sc cfg w x m js r2.1 else (r2.1, false)

def jacNumeric (sc : Script) (cfg : Cfg) (w : Wrap) (b : Bind) (s : St) : St × Bool :=
  match flattenF64 s b with
  | none => (s, false)
  | some (s1, x) =>
    let a := copyOf s1 x
    let r0 := invoke sc cfg w a.2 a.1
    match r0.2 with
    | .exc => (r0.1, false)
    | .abort => (r0.1, false)
    | .val m _ => jacLoop sc cfg w x m (List.range (sizeAt r0.1 x)) r0.1

/-- torch: `compute_jacobian` on a grad tensor, numeric fallback on any exception -/
def jacTorch (sc : Script) (cfg : Cfg) (w : Wrap) (b : Bind) (s : St) : St × Bool :=
  match gradTensor s b with
  | none => jacNumeric sc cfg w b s
  | some (s1, t) =>
    let r := invoke sc cfg w t s1
    match r.2 with
    | .val _ true => (r.1, true)
    | .abort => (r.1, false)       -- `except Exception:` does not catch it: no numeric fallback
    | _ => jacNumeric sc cfg w b r.1

def jacOf (be : Backend) (sc : Script) (cfg : Cfg) (w : Wrap) (b : Bind) (s : St) : St × Bool :=
  match be with
  | .numpy => jacNumeric sc cfg w b s
  | .torch => jacTorch sc cfg w b s

/-! ### the gradient forms -/

inductive Form
  | gradPoint (p : Name)          -- f:>p            grad_of_fn
  | nablaSym (p : Name)           -- p∇f             eval_dyad_grad, `p` a symbol
  | jacPoint (p : Name)           -- p∂f, .jacobian(f;p)   jacobian_of_fn
  | multiGrad (ps : List Name)    -- g:>[w b ...]    multi_grad_of_fn
  | multiJac (ps : List Name)     -- [w b ...]∂g     multi_jacobian_of_fn
deriving DecidableEq, Repr

/-- `KlongInterpreter.eval(KGSym)` -/
def evalName (s : St) (n : Name) : St × Bind :=
  match lookup s.store n with
  | some b => (s, b)
  | none => ({ s with store := set s.store n (.sym n) }, .sym n)

def evalFn (cfg : Cfg) (s : St) : St :=
  match cfg.fnUnknown with
  | some n => (evalName s n).1
  | none => s

def mgradLoop (v : Variant) (sc : Script) (cfg : Cfg) (ps : List Name) (vals : List Bind) :
    List Nat → St → St × Bool
  | [], s => (s, true)
  | i :: is, s =>
    match vals[i]? with
    | none => (s, false)
    | some b =>
      let r := numericGrad v sc cfg (.multi ps vals i) b s
      if r.2 then mgradLoop v sc cfg ps vals is r.1 else (r.1, false)

/-- `[create_grad_tensor(p) for p in params]` -/
def gradTensors : List Bind → St → Option (St × List Bind)
  | [], s => some (s, [])
  | b :: bs, s =>
    match gradTensor s b with
    | none => none
    | some (s1, t) =>
      match gradTensors bs s1 with
      | none => none
      | some (s2, ts) => some (s2, .ref t :: ts)

def mjacLoop (be : Backend) (sc : Script) (cfg : Cfg) : List (Name × Bind) → St → St × Bool
  | [], s => (s, true)
  | (p, val) :: rest, s =>
    match lookup s.store p with
    | none => (s, false)
    | some original =>
      let r := jacOf be sc cfg (.rebind p original false) val s
      if r.2 then mjacLoop be sc cfg rest { r.1 with store := set r.1.store p original }
      else (r.1, false)

def runForm (v : Variant) (be : Backend) (form : Form) (sc : Script) (cfg : Cfg) (s : St) : St × Bool :=
  let s := evalFn cfg s
  match form with
  | .gradPoint p =>
    let e := evalName s p
    match be with
    | .numpy => numericGrad v sc cfg .direct e.2 e.1
    | .torch =>
      match gradTensor e.1 e.2 with
      | none => (e.1, false)
      | some (s1, t) =>
        let r := callF sc cfg (some t) s1
        (r.1, r.2 == .val 1 true)
  | .nablaSym p =>
    match lookup s.store p with
    | none => (s, false)
    | some orig => numericGrad v sc cfg (.rebind p orig true) orig s
  | .jacPoint p =>
    let e := evalName s p
    jacOf be sc cfg .direct e.2 e.1
  | .multiGrad ps =>
    match lookupAll s.store ps with
    | none => (s, false)
    | some vals =>
      match be with
      | .numpy => mgradLoop v sc cfg ps vals (List.range ps.length) s
      | .torch =>
        match gradTensors vals s with
        | none => (s, false)
        | some (s1, ts) =>
          let r := invokeMulti sc cfg ps ts s1
          -- `torch.autograd.grad(y, grad_tensors)` rejects a tensor the loss never saw: with a
          -- repeated parameter only the last of its tensors is bound when the loss runs
          (r.1, r.2 == .val 1 true && decide ps.Nodup)
  | .multiJac ps =>
    match lookupAll s.store ps with
    | none => (s, false)
    | some vals => mjacLoop be sc cfg (ps.zip vals) s

/-- one gradient expression of a program -/
structure GradOp where
  be : Backend
  form : Form
  sc : Script
  cfg : Cfg

/-- any number of gradient expressions, one after the other (returning or raising) -/
def runOps (v : Variant) : List GradOp → St → St
  | [], s => s
  | op :: ops, s => runOps v ops (runForm v op.be op.form op.sc op.cfg s).1

/-! ### driver -/

def parseKind : String → Option Kind
  | "pyfloat" => some .pyfloat | "pyint" => some .pyint | "f64" => some .f64 | "i64" => some .i64
  | "t32" => some .t32 | "t64" => some .t64 | "ti64" => some .ti64 | "t32g" => some .t32g
  | _ => none

def showKind : Kind → String
  | .pyfloat => "pyfloat" | .pyint => "pyint" | .f64 => "f64" | .i64 => "i64"
  | .t32 => "t32" | .t64 => "t64" | .ti64 => "ti64" | .t32g => "t32g"

def showCell (c : Cell) : String :=
  s!"{showKind c.kind}/{"x".intercalate (c.shape.map toString)}/{";".intercalate (c.data.map toString)}"

def parseCell (t : String) : Option Cell :=
  match t.splitOn "/" with
  | [k, sh, d] => do
    let k ← parseKind k
    let sh ← (splitOnChar sh 'x').mapM String.toNat?
    let d ← (splitOnChar d ';').mapM String.toInt?
    pure { kind := k, shape := sh, data := d }
  | _ => none

def showView : View → String
  | .cell c => showCell c
  | .sym n => "~" ++ n
  | .dangling => "!"

def showObs (o : Obs) : String :=
  "+".intercalate ((match o.arg with | some v => showView v | none => "-") ::
    o.globals.map fun p => match p.2 with | some v => showView v | none => "?")

def parseBinding (t : String) : Option (Name × Bind) :=
  match t.splitOn ":" with
  | [n, r] =>
    if r.startsWith "~" then some (n, .sym (r.drop 1).toString)
    else r.toNat?.map fun k => (n, .ref k)
  | _ => none

def parseOutcome (unk : Name) : String → Option Outcome
  | "s" => some .scalar | "v" => some .vector | "p" => some .plain | "r" => some .raise | "i" => some .interrupt
  | "u0" => some (.unknown unk false) | "u1" => some (.unknown unk true)
  | _ => none

def scriptOf (l : List Outcome) : Script := fun k _ => l.getD k .scalar

def parseForm (f : String) (ps : List Name) : Option Form :=
  match f, ps with
  | "grad", [p] => some (.gradPoint p)
  | "nabla", [p] => some (.nablaSym p)
  | "jac", [p] => some (.jacPoint p)
  | "sysjac", [p] => some (.jacPoint p)
  | "mgrad", _ :: _ => some (.multiGrad ps)
  | "mjac", _ :: _ => some (.multiJac ps)
  | _, _ => none

/-- final value and kind of every initial name (object identity is representation, not compared) -/
def showFinal (s0 s : St) : String :=
  ",".intercalate (s0.store.map fun p =>
    match lookup s.store p.1 with
    | none => s!"{p.1}:?"
    | some b => s!"{p.1}:{showView (viewB s b)}")

def showNew (s0 s : St) : String :=
  let ns := (s.store.filter fun p => (lookup s0.store p.1).isNone).map fun p =>
    match p.2 with
    | .sym m => if m = p.1 then p.1 else p.1 ++ "!"
    | .ref _ => p.1 ++ "!"
  ",".intercalate (ns.toArray.qsort (· < ·)).toList

structure State where
  unit : Unit := ()

def init : State := {}

def handleRun (fs : List (String × String)) : Option String := do
  let be ← match fieldD fs "be" with
    | "numpy" => some Backend.numpy | "torch" => some Backend.torch | _ => none
  let v ← match fieldD fs "variant" with
    | "pinned" => some Variant.pinned | "repaired" => some Variant.repaired | _ => none
  let form ← parseForm (fieldD fs "form") (listField fs "params")
  let store ← (listField fs "store").mapM parseBinding
  let heap ← (splitOnChar (fieldD fs "heap") '|').mapM parseCell
  let script ← (listField fs "script").mapM (parseOutcome (fieldD fs "unk"))
  let fnU := match fieldD fs "fn" with | "" => none | n => some n
  let cfg : Cfg := { watch := listField fs "watch", fnUnknown := fnU }
  let s0 : St := { store := store, heap := heap }
  let r := runForm v be form (scriptOf script) cfg s0
  let s := r.1
  pure (s!"out={if r.2 then "ok" else "exc"} calls={s.calls} log={"|".intercalate (s.log.map showObs)} " ++
    s!"store={showFinal s0 s} heap={"|".intercalate ((s.heap.take s0.heap.length).map showCell)} new={showNew s0 s}")

def handle (s : State) (ws : List String) : State × String :=
  match ws with
  | "run" :: rest =>
    match handleRun (fields rest) with
    | some r => (s, r)
    | none => (s, "bad-op")
  | _ => (s, "bad-op")

end Klong.C07
