/-
  C01 extension 3 — verbs that had no reference yet: their reference (the manual text in the
  docstrings of dyads.py / monads.py, transcribed; `none` wherever the manual defines nothing)
  AND their implementation model (mirroring the Python control flow, lines cited).

  Verbs: Amend `a:=b`, Amend-in-Depth `a:-b`, Index-in-Depth `a:@b`, Divide `a%b`, Reciprocal `%a`,
  Power `a^b` (integer base, non-negative integer exponent), Char `:#a`, Undefined `:_a`,
  Format `$a` and Form `a:$b` (integers, characters, strings, symbols).

  Conventions (as in extension 1): a `Val` operand is the *literal*; literals that klongpy stores
  differently (`Ext1.notStored`: mixed integer/real levels, object arrays of rank ≥ 2) are
  `.unmodelled` wherever the code looks inside the array.  `.err` = the Python code raises,
  `.ok v` = it returns (the canonical form of) `v`, `.unmodelled` = operand class not modelled.
  Scalar real arithmetic is `Float` (opaque to the proofs, which are about structure).
-/
import Klong.Model.C01
import Klong.Model.C01Ext1
import Klong.Model.C01Ext2
namespace Klong.C01.Ext3
open Klong Klong.C01

def lift (o : Option Val) : Res := match o with | some v => .ok v | none => .err

def isListV : Val → Bool
  | .list _ => true
  | _ => false

/- `[]` occurs somewhere in the operand.  `[]` is an atom AND the empty list: what an atomic verb
    that converts between kinds (Char, Format, Form) yields for it is not defined by the manual -/
mutual
def hasEmptyList : Val → Bool
  | .list [] => true
  | .list (x :: xs) => hasEmptyList x || hasEmptyListL xs
  | _ => false
def hasEmptyListL : List Val → Bool
  | [] => false
  | x :: xs => hasEmptyList x || hasEmptyListL xs
end

def isText : Val → Bool
  | .chr _ => true
  | .str _ => true
  | .sym _ => true
  | _ => false

/-! ## Amend — reference

    "a" must be a list or string and "b" must be a list where the first element can have any type
    and the remaining elements must be integers. It returns a new object of a's type where a@b2
    through a@bN are replaced by b1. When "a" is a string, b1 must be a character or a string.
    When both "a" and b1 are strings, Amend replaces each substring of "a" starting at b2..bN by
    b1. No index b2..bN must be larger than #a. When b1 is replaced at a position past (#a)-#b1,
    the amended string will grow by the required amount.

  Decisions: positions a@i exist for 0 ≤ i < #a only (anything else: undefined); for a string b1
  the indices may reach #a (of the original string); substrings that overlap (two indices closer
  than #b1, a repeated index included) have no defined order of replacement: undefined. -/

/-- replace the elements at the given positions by `v` -/
def setAll {α} (xs : List α) (v : α) : List Nat → List α
  | [] => xs
  | i :: is => setAll (xs.set i v) v is

/-- replace the substring of `cs` starting at `i` by `s`, growing past the end if needed -/
def splice (cs s : List Nat) (i : Nat) : List Nat := cs.take i ++ s ++ cs.drop (i + s.length)

def spliceAll (cs s : List Nat) : List Nat → List Nat
  | [] => cs
  | i :: is => spliceAll (splice cs s i) s is

/-- the substrings of length `m` starting at the indices are pairwise disjoint -/
def apart (m : Nat) : List Nat → Bool
  | [] => true
  | i :: is => is.all (fun j => decide (i + m ≤ j) || decide (j + m ≤ i)) && apart m is

def refAmend : Val → Val → Option Val
  | .list xs, .list (v :: ixs) =>
    match natList ixs with
    | some is => if is.all (fun i => decide (i < xs.length)) then some (.list (setAll xs v is)) else none
    | none => none
  | .str cs, .list (.chr c :: ixs) =>
    match natList ixs with
    | some is => if is.all (fun i => decide (i < cs.length)) then some (.str (setAll cs c is)) else none
    | none => none
  | .str cs, .list (.str s :: ixs) =>
    match natList ixs with
    | some is =>
      if is.all (fun i => decide (i ≤ cs.length)) && apart s.length is then some (.str (spliceAll cs s is))
      else none
    | none => none
  | _, _ => none

/-! ## Amend — implementation  (dyads.py eval_dyad_amend, after 12321e2)

    if not (isinstance(a, (str,list)) or isarray(a)): raise RuntimeError
    if len(b) <= 1: return a
    v = b[0]
    if isinstance(a, str):
        q = str(v); r = a
        for i in b[1:]:
            i = int(i)
            if i < 0: i += len(r)
            if i < 0 or i > len(r): raise RangeError(i)
            r = r[:i] + q + r[i+len(q):]
        return r
    r = np.array(a); kind = r.dtype.kind
    if r.ndim == 1 and not is_list(v) and (kind == 'O' or (kind == 'f' and is_number(v))
                                           or (kind in 'iu' and is_integer(v))):
        numpy.put(r, numpy.asarray(b[1:], dtype=int), v); return r
    r = [x for x in r]
    for i in b[1:]: r[int(i)] = v
    return kg_asarray(r)                                                                      -/

/-- `xs[i] = v` for a Python / numpy integer index (negative counts from the end; none = IndexError) -/
def pySet {α} (xs : List α) (i : Int) (v : α) : Option (List α) :=
  let j := if i < 0 then i + (xs.length : Int) else i
  if j < 0 ∨ j ≥ (xs.length : Int) then none else some (xs.set j.toNat v)

def pySetAll {α} (xs : List α) (v : α) : List Int → Option (List α)
  | [] => some xs
  | i :: is =>
    match pySet xs i v with
    | some r => pySetAll r v is
    | none => none

/-- the loop of the string path: `r = r[:i] + q + r[i+len(q):]` per index; none = RangeError -/
def amendStrLoop (q : List Nat) : List Nat → List Int → Option (List Nat)
  | r, [] => some r
  | r, i :: is =>
    let j := if i < 0 then i + (r.length : Int) else i
    if j < 0 ∨ j > (r.length : Int) then none
    else amendStrLoop q (splice r q j.toNat) is

/-- `kg_asarray` of a freshly built list of stored members: a regular nest of numbers becomes one
    array (`Ext1.npCoerce`); member arrays whose shapes agree on leading dimensions only are
    broadcast into one object array by `np.asarray(…, dtype=object)` — not modelled -/
def repack (r : List Val) : Res :=
  if (numShape (.list r)).isNone && Ext1.objArrayClash r then .unmodelled
  else .ok (Ext1.npCoerce (.list r))

/-- a stored rank-1 array holds reals (dtype kind 'f'; the empty array is float64 too) -/
def realKind (a : Val) : Bool :=
  match a with
  | .list xs => xs.isEmpty || Ext1.hasReal a
  | _ => false

/-- the `numpy.put` fast path is taken: rank 1, the value is no list and fits the dtype -/
def putFits (a v : Val) : Bool :=
  match v with
  | .list _ => false
  | _ =>
    match numShape a with
    | none => true                                            -- a rank-1 object array (stored)
    | some s => s.length == 1 && (if realKind a then v.isNum else match v with | .int _ => true | _ => false)

/-- dictionaries and :undefined as the value: not modelled -/
def isOpaqueV : Val → Bool
  | .dict _ => true
  | .undef => true
  | _ => false

def implAmendList (a : Val) (xs : List Val) (v : Val) (is : List Int) : Res :=
  if isOpaqueV v then .unmodelled
  else if putFits a v then
    if xs.isEmpty then .err                                   -- cannot replace elements of an empty array
    else
      let v' := if (numShape a).isSome && realKind a then Ext1.toReal v else v    -- stored as float64
      lift ((pySetAll xs v' is).map .list)
  else
    match pySetAll xs v is with                               -- r[int(i)] = v on the list of members
    | none => .err
    | some r => repack r

/-- Python `str(n)` -/
def intStr (n : Int) : List Nat :=
  if n < 0 then 45 :: Ext2.natDigits (n.natAbs + 1) n.natAbs else Ext2.natDigits (n.natAbs + 1) n.natAbs

/-- `str(v)` for the value kinds modelled (reals, lists: Python's repr text is not modelled) -/
def amendText : Val → Option (List Nat)
  | .chr c => some [c]
  | .str s => some s
  | .sym s => some s
  | .int n => some (intStr n)
  | _ => none

def implAmend (a b : Val) : Res :=
  match a, b with
  | .list xs, .list bs =>
    if Ext1.notStored a || Ext1.notStored b then .unmodelled else
    match bs with
    | [] => .ok a
    | [_] => .ok a
    | v :: ixs =>
      match Ext1.intList ixs with
      | none => .unmodelled
      | some is => implAmendList a xs v is
  | .str cs, .list bs =>
    match bs with
    | [] => .ok a
    | [_] => .ok a
    | v :: ixs =>
      match Ext1.intList ixs with
      | none => .unmodelled
      | some is =>
        match amendText v with                                -- q = str(v)
        | none => .unmodelled
        | some q => lift ((amendStrLoop q cs is).map .str)
  | _, _ => .unmodelled

/-! ## Amend-in-Depth and Index-in-Depth — reference

    :- is like :=, but "a" may be a multi-dimensional array. The :- operator replaces one single
    element in that array. The sequence of indices b1..bN is used to locate the target element in
    an N-dimensional array. The number of indices must match the rank of the array.
    :@ is like "@" but, when applied to an array, extracts a single element from a
    multi-dimensional array. The indices in "b" are used to locate the element. The number of
    indices must match the rank of the array.

  Decision: "an N-dimensional array" is a regular nest of lists, N levels deep, whose innermost
  members are not lists (strings and empty lists as members: undefined, the manual's Shape counts
  them as a further dimension / as atoms).  Ragged lists have no rank: undefined. -/

/-- shape of a regular N-dimensional array -/
def regShape : Val → Option (List Nat)
  | .list [] => none
  | .list (x :: xs) =>
    match regShape x with
    | none => none
    | some s => if (regShapes xs).all (fun t => t == some s) then some ((xs.length + 1) :: s) else none
  | .str _ => none
  | .dict _ => none
  | _ => some []
where
  regShapes : List Val → List (Option (List Nat))
    | [] => []
    | y :: ys => regShape y :: regShapes ys

def deepGet : Val → List Nat → Option Val
  | v, [] => some v
  | .list xs, i :: r =>
    match xs[i]? with
    | some x => deepGet x r
    | none => none
  | _, _ :: _ => none

def deepSet : Val → List Nat → Val → Option Val
  | _, [], _ => none
  | .list xs, [i], v => if i < xs.length then some (.list (xs.set i v)) else none
  | .list xs, i :: j :: r, v =>
    match xs[i]? with
    | some x => (deepSet x (j :: r) v).map fun y => .list (xs.set i y)
    | none => none
  | _, _ :: _, _ => none

def refAmendDepth : Val → Val → Option Val
  | .list xs, .list (v :: ixs) =>
    match regShape (.list xs), natList ixs with
    | some s, some is => if is.length == s.length then deepSet (.list xs) is v else none
    | _, _ => none
  | _, _ => none

def refIndexDepth : Val → Val → Option Val
  | .list xs, .list ixs =>
    match regShape (.list xs), natList ixs with
    | some s, some is => if is.length == s.length then deepGet (.list xs) is else none
    | _, _ => none
  | _, _ => none

/-! ## Amend-in-Depth — implementation  (dyads.py, after 187c70d)

    def _e_dyad_amend_in_depth(p, q, v, backend):
        if not is_list(p): raise IndexError("too many indices")
        kind = p.dtype.kind
        if p.ndim == len(q) and not is_list(v) and ((kind == 'f' and is_number(v))
                                                    or (kind in ('i','u') and is_integer(v))):
            p = array(p); p[tuple(q)] = v; return p
        r = [x for x in p]
        r[q[0]] = v if len(q) == 1 else _e(r[q[0]], q[1:], v, backend)
        return kg_asarray(r)
    eval_dyad_amend_in_depth(a, b): if len(b) <= 1: return a
                                    return _e(a, [int(i) for i in b[1:]], b[0], backend)      -/

/-- `p[tuple(q)] = v` on an N-d numeric array with N = len(q) -/
def multiSet : Val → List Int → Val → Option Val
  | _, [], _ => none
  | .list xs, [i], v => (pySet xs i v).map .list
  | .list xs, i :: j :: r, v =>
    match Ext1.pyIndex xs i with
    | none => none
    | some sub =>
      match multiSet sub (j :: r) v with
      | some y => (pySet xs i y).map .list
      | none => none
  | _, _ :: _, _ => none

/-- the direct path is taken: a numeric ndarray with ndim == len(q), the value fits the dtype -/
def aidDirect (p : Val) (n : Nat) (v : Val) : Bool :=
  match v with
  | .list _ => false
  | _ =>
    match p, numShape p with
    | .list _, some s => s.length == n && (if realKind p then v.isNum else match v with | .int _ => true | _ => false)
    | _, _ => false

def aidRec : Val → List Int → Val → Res
  | _, [], _ => .unmodelled
  | .list xs, i :: rest, v =>
    if aidDirect (.list xs) (rest.length + 1) v then
      lift (multiSet (.list xs) (i :: rest) (if realKind (.list xs) then Ext1.toReal v else v))
    else
      match rest with
      | [] =>
        match pySet xs i v with                               -- r[q[0]] = v
        | none => .err
        | some r => repack r
      | j :: rest' =>
        match Ext1.pyIndex xs i with                          -- r[q[0]]
        | none => .err
        | some sub =>
          match aidRec sub (j :: rest') v with
          | .ok y =>
            match pySet xs i y with
            | none => .err
            | some r => repack r
          | e => e
  | _, _ :: _, _ => .err                                      -- not is_list(p): IndexError

def implAmendDepth (a b : Val) : Res :=
  if Ext1.notStored a || Ext1.notStored b then .unmodelled else
  match a, b with
  | .list _, .list [] => .ok a                                -- len(b) <= 1
  | .list _, .list [_] => .ok a
  | .list _, .list (v :: ixs) =>
    match Ext1.intList ixs with
    | none => .unmodelled
    | some is =>
      if isOpaqueV v then .unmodelled else aidRec a is v
  | _, _ => .unmodelled

/-! ## Index-in-Depth — implementation  (dyads.py 476)

    return asarray(a)[tuple(b) if is_list(b) else b] if not is_empty(b) else b                -/

/-- a multi-index into a regular nest of numbers (fewer indices than dimensions: a sub-array;
    more: IndexError) -/
def walkGet : Val → List Int → Option Val
  | v, [] => some v
  | .list xs, i :: r =>
    match Ext1.pyIndex xs i with
    | some x => walkGet x r
    | none => none
  | _, _ :: _ => none

def implIndexDepthList (a : Val) (xs : List Val) (is : List Int) : Res :=
  if Ext1.notStored a then .unmodelled
  else if (numShape a).isSome then lift (walkGet a is)
  else                                                        -- a rank-1 object array
    match is with
    | [i] => lift (Ext1.pyIndex xs i)
    | _ => .err                                               -- too many indices for array

def implIndexDepth (a b : Val) : Res :=
  match b with
  | .list [] => .ok b
  | .str [] => .ok b
  | .list ixs =>
    match a, Ext1.intList ixs with
    | .list xs, some is => implIndexDepthList a xs is
    | _, _ => .unmodelled
  | .int i =>
    match a with
    | .list xs => implIndexDepthList a xs [i]
    | _ => .unmodelled
  | _ => .unmodelled

/-! ## Divide, Reciprocal — reference and implementation

    a%b: Return the quotient of "a" and "b". The result is always a real number, even if the
    result has a fractional part of 0. "%" is an atomic operator.     %a: Return 1%a.
    (Undefined, `:_1%0 --> 1`: division by zero is undefined.)

  Decision: the quotient by zero of two ATOMS is :undefined (the manual's example); a zero divisor
  inside a list operand is left undefined by the reference (klongpy returns inf there).

    dyads.py 228–232:  if not is_list(a) and not is_list(b) and is_number(b): if b == 0: return UNDEFINED
                       return np.divide(a, b)
    monads.py 317–321: if not is_list(a) and is_number(a): if a == 0: return UNDEFINED
                       return vec_fn(a, lambda x: np.reciprocal(np.asarray(x, dtype=float)))  -/

/-- the paired traversal meets two arrays whose numpy shapes differ (an object array against a
    regular or another object array): numpy broadcasts / raises instead of pairing elements
    (known finding atomic:numpy-shape-mismatch; `Ext1.npShape` = `np_shape` of vlib/c01.py) -/
def npMismatch (a b : Val) : Bool :=
  let sa := Ext1.npShape a
  let sb := Ext1.npShape b
  sa != sb && sa != [] && sb != []

def anyNpMismatch : Val → Val → Bool
  | .list xs, .list ys => npMismatch (.list xs) (.list ys) || goZip xs ys
  | _, _ => false
where
  goZip : List Val → List Val → Bool
    | x :: xs, y :: ys => anyNpMismatch x y || goZip xs ys
    | _, _ => false

/-- operand pairs on which a ufunc / vec_fn2 does not pair the elements as the literal suggests -/
def ufuncSkip (a b : Val) : Bool :=
  anyRankMismatch a b || anyNpMismatch a b || Ext1.hasObjRank2 a || Ext1.hasObjRank2 b

def isZeroNum : Val → Bool
  | .int n => n == 0
  | .real b => Float.ofBits b == 0
  | _ => false

/-- float64 quotient of two numbers (integers are converted first, as numpy's true_divide does) -/
def scalarDiv (a b : Val) : Option Val :=
  match toF a, toF b with
  | some x, some y => if isZeroNum b then none else some (ofF (x / y))
  | _, _ => none

/- every leaf of the operand is a number ("a" and "b" must be numbers); `[]` has no leaves -/
mutual
def numLeaves : Val → Bool
  | .int _ => true
  | .real _ => true
  | .list xs => numLeavesL xs
  | _ => false
def numLeavesL : List Val → Bool
  | [] => true
  | x :: xs => numLeaves x && numLeavesL xs
end

def refDivide (a b : Val) : Option Val :=
  if !(numLeaves a && numLeaves b) then none
  else if a.isNum && b.isNum && isZeroNum b then some .undef else refA2 scalarDiv a b

def implDivide (a b : Val) : Res :=
  if !isListV a && !isListV b && b.isNum && isZeroNum b then .ok .undef      -- 228–231
  else if ufuncSkip a b then .unmodelled                                      -- numpy broadcasting
  else match implA2 scalarDiv a b with                                        -- 232: one ufunc call
    | some v => .ok v
    | none => .unmodelled                                                     -- zero divisors in arrays (inf), text

def refRecip (a : Val) : Option Val := refDivide (.int 1) a

/-- `np.reciprocal(np.asarray(x, dtype=float))` on one number: 1.0 / x -/
def recipAtom (x : Val) : Option Val := scalarDiv (.int 1) x

def implRecip (a : Val) : Res :=
  if !isListV a && a.isNum && isZeroNum a then .ok .undef                     -- 317–320
  else if Ext1.hasObjRank2 a then .unmodelled
  else match refA1 recipAtom a with                                           -- vec_fn: element-wise
    | some v => .ok v
    | none => .unmodelled

/-! ## Power — reference and implementation

    Compute "a" to the power of "b" and return the result. Both "a" and "b" must be numbers.
    Dyadic "^" is an atomic operator.  2^0 --> 1, 2^8 --> 256.

  Decision (DESIGN C01): integer base and non-negative integer exponent ⇒ the integer a^b; here
  only while |a^b| ≤ 2^53 (beyond, the integer is not representable in the interpreter's float64
  arithmetic; the manual does not say what happens).  Negative exponents / real operands: not in
  this extension.

    dyads.py 743–762 / numpy_backend.power: r = np.power(float(a), b);
       if trunc(r) == r for ALL elements: return to_int_array(r) else r
    applied through vec_fn2 (object arrays element-wise, numeric arrays in one call).         -/

def powBound : Nat := 9007199254740992

def scalarPow : Val → Val → Option Val
  | .int a, .int b =>
    if b < 0 then none
    else if (a ^ b.toNat).natAbs ≤ powBound then some (.int (a ^ b.toNat)) else none
  | _, _ => none

def refPower (a b : Val) : Option Val :=
  if !(numLeaves a && numLeaves b) then none else refA2 scalarPow a b

def implPower (a b : Val) : Res :=
  if ufuncSkip a b then .unmodelled
  else match implA2 scalarPow a b with
    | some v => .ok v
    | none => .unmodelled

/-! ## Char

    Return the character at the code point "a". Monadic :# is an atomic operator.

    monads.py 34: rec_fn(a, lambda x: KGChar(chr(x))) if is_list(a) else KGChar(chr(a))
    base.py 503 rec_fn: kg_asarray([rec_fn(x, f) for x in a]) if _is_list(a) else f(a);
    `_is_list` is false for an EMPTY array, so `chr(array([]))` is called on it: TypeError.   -/

def chrAtom : Val → Option Val
  | .int n => if 0 ≤ n ∧ n < 1114112 then some (.chr n.toNat) else none
  | _ => none

def refChar (a : Val) : Option Val := if hasEmptyList a then none else refA1 chrAtom a

mutual
def implCharRec : Val → Option Val
  | .list [] => none                                          -- f(empty array): TypeError
  | .list (x :: xs) => (implCharL (x :: xs)).map .list
  | a => chrAtom a                                            -- chr(): ValueError / TypeError = none
def implCharL : List Val → Option (List Val)
  | [] => some []
  | x :: xs =>
    match implCharRec x, implCharL xs with
    | some r, some rs => some (r :: rs)
    | _, _ => none
end

def implChar (a : Val) : Res :=
  if Ext1.hasObjRank2 a then .unmodelled                      -- the literal is not what the interpreter holds
  else lift (implCharRec a)

/-! ## Undefined

    Return truth, if "a" is undefined. Else return 0.
    monads.py 476: kg_truth(a is None or a is KLONG_UNDEFINED)                                -/

def refUndefined : Val → Option Val
  | .undef => some (.int 1)
  | _ => some (.int 0)

def implUndefined : Val → Res
  | .undef => .ok (.int 1)
  | _ => .ok (.int 0)

/-! ## Format

    Write the external representation of "a" to a string and return it. "$" is an atomic
    operator.  $123 --> "123", $"test" --> "test", $0cx --> "x", $:foo --> ":foo".

    monads.py eval_monad_format (after 175176c):
        if isinstance(a, KGSym): return f":{a}"
        if is_list(a): return a if is_empty(a) else backend.rec_fn(a, format)
        return str(a)
    base.py rec_fn: kg_asarray([rec_fn(x, f) for x in a]) if _is_list(a) else f(a)             -/

def fmtAtom : Val → Option Val
  | .int n => some (.str (intStr n))
  | .chr c => some (.str [c])
  | .str s => some (.str s)
  | .sym s => some (.str (58 :: s))
  | _ => none                                                 -- reals: not in this extension

def refFormat (a : Val) : Option Val := if hasEmptyList a then none else refA1 fmtAtom a

/-- a regular numeric nest with a dimension of length 0 -/
def zeroSized (v : Val) : Bool :=
  match numShape v with
  | some s => s.contains 0
  | none => false

/-- `kg_asarray` of formatted members (strings and lists of strings, never numbers) -/
def repackText (rs : List Val) : Res :=
  if Ext1.objArrayClash rs then .unmodelled else .ok (.list rs)

mutual
def implFormatRec : Val → Res
  | .list [] => .ok (.list [])                                -- is_empty(a): return a
  | .list (x :: xs) =>
    -- a numeric array without elements but with rows ([[]], shape (1,0)): `_is_list` is false
    -- (size 0), `is_empty` is false (len 1): format calls itself forever — RecursionError
    if zeroSized (.list (x :: xs)) then .err else
    match implFormatL (x :: xs) with
    | .ok (.list rs) => repackText rs
    | .ok _ => .unmodelled
    | e => e
  | a => match fmtAtom a with
    | some v => .ok v
    | none => .unmodelled                                     -- reals, dictionaries, :undefined
/-- the list comprehension; the result packed as `.list` -/
def implFormatL : List Val → Res
  | [] => .ok (.list [])
  | x :: xs =>
    match implFormatRec x, implFormatL xs with
    | .ok r, .ok (.list rs) => .ok (.list (r :: rs))
    | .err, _ => .err
    | .unmodelled, _ => .unmodelled
    | _, e => e
end

def implFormat (a : Val) : Res :=
  if Ext1.notStored a then .unmodelled else implFormatRec a

/-! ## Form

    Convert string "b" to the type of the object of "a". When "b" can be converted to the desired
    type, an object of that type will be returned. When such a conversion is not possible, :$ will
    return :undefined. When "a" is an integer, "b" may not represent a real number. When "a" is a
    character, "b" must contain exactly one character. When "a" is a symbol, "b" must contain the
    name of a valid symbol (optionally including a leading ":" character). :$ is an atomic operator.

  Decisions: an integer is written `-?[0-9]+`; `-?[0-9]+.[0-9]+` "represents a real number" and an
  ASCII text without any digit cannot be converted (both: :undefined); other texts (" 12", "+5",
  "0x10", "1e5", …): undefined by the reference.  A valid symbol name is a letter or "." followed
  by letters, digits and "."; other non-empty names: undefined by the reference.  Real `a`: not in
  this extension.

    dyads.py 346–364 __e_dyad_form, 366–372 _e_dyad_form, 401 vec_fn2(a, b, _e_dyad_form)     -/

def isDigit (c : Nat) : Bool := decide (48 ≤ c) && decide (c ≤ 57)

def isLetter (c : Nat) : Bool := (decide (65 ≤ c) && decide (c ≤ 90)) || (decide (97 ≤ c) && decide (c ≤ 122))

def digitsVal : List Nat → Nat → Nat
  | [], acc => acc
  | c :: cs, acc => digitsVal cs (acc * 10 + (c - 48))

def parseNat (s : List Nat) : Option Nat :=
  if !s.isEmpty && s.all isDigit then some (digitsVal s 0) else none

def parseInt : List Nat → Option Int
  | 45 :: r => (parseNat r).map fun n => -(n : Int)
  | s => (parseNat s).map fun n => (n : Int)

/-- `-?[0-9]+.[0-9]+` -/
def isRealLit (s : List Nat) : Bool :=
  let body := match s with | 45 :: r => r | _ => s
  let ip := body.takeWhile isDigit
  match body.dropWhile isDigit with
  | 46 :: fp => !ip.isEmpty && !fp.isEmpty && fp.all isDigit
  | _ => false

/-- an ASCII text without a digit: no notation of a number -/
def noDigitAscii (s : List Nat) : Bool := s.all fun c => decide (c < 128) && !isDigit c

def validSym : List Nat → Bool
  | [] => false
  | c :: cs => (isLetter c || c == 46) && cs.all fun d => isLetter d || isDigit d || d == 46

def stripColon : List Nat → List Nat
  | 58 :: r => r
  | s => s

def formAtom : Val → Val → Option Val
  | .int _, .str s =>
    match parseInt s with
    | some n => some (.int n)
    | none => if isRealLit s || noDigitAscii s then some .undef else none
  | .chr _, .str s =>
    match s with
    | [c] => some (.chr c)
    | _ => some .undef
  | .str _, .str s => some (.str s)
  | .sym _, .str s =>
    if s.isEmpty then some .undef
    else if validSym (stripColon s) then some (.sym (stripColon s)) else none
  | _, _ => none

def refForm (a b : Val) : Option Val :=
  if hasEmptyList a || hasEmptyList b then none else refA2 formAtom a b

/-! Python's `int(text)` on an ASCII text: blanks stripped, an optional sign, decimal digits with
    single underscores between them -/

def isWs (c : Nat) : Bool := (decide (9 ≤ c) && decide (c ≤ 13)) || (decide (28 ≤ c) && decide (c ≤ 32))

def stripWs (s : List Nat) : List Nat := ((s.dropWhile isWs).reverse.dropWhile isWs).reverse

/-- the digits of `d(_?d)*`; none = not of that form -/
def pyDigits : List Nat → Option (List Nat)
  | [] => none
  | [c] => if isDigit c then some [c] else none
  | c :: 95 :: r => if isDigit c then (pyDigits r).map (c :: ·) else none
  | c :: d :: r => if isDigit c then (pyDigits (d :: r)).map (c :: ·) else none

def pyInt (s : List Nat) : Option Int :=
  match stripWs s with
  | 45 :: r => (pyDigits r).map fun ds => -((digitsVal ds 0 : Nat) : Int)
  | 43 :: r => (pyDigits r).map fun ds => ((digitsVal ds 0 : Nat) : Int)
  | r => (pyDigits r).map fun ds => ((digitsVal ds 0 : Nat) : Int)

/-- `__e_dyad_form` on an atom `a` and a string `b` (after 22bcc8e) -/
def formAtomImpl : Val → Val → Res
  | .sym _, .str s =>                                         -- symbol template
    if s.isEmpty then .ok .undef else .ok (.sym (stripColon s))
  | .int _, .str s =>                                         -- integer template
    if s.isEmpty then .ok .undef
    else if s.contains 46 then .ok .undef                     -- a float (:undefined) or int(b) fails: ValueError → :undefined
    else if s.all (fun c => decide (c < 128)) then
      match pyInt s with
      | some n => .ok (.int n)                                -- int(b)
      | none => .ok .undef                                    -- except ValueError
    else .unmodelled                                          -- non-ASCII digits and blanks
  | .chr _, .str s =>
    match s with
    | [c] => .ok (.chr c)
    | _ => .ok .undef
  | .str _, .str s => .ok (.str s)                            -- return b
  | _, _ => .unmodelled

/-- `vec_fn2(a, b, _e_dyad_form)`: object arrays are paired / extended element-wise; a NUMERIC
    array against a string reaches `_e_dyad_form(array, b)`, which maps its members (after 2fe5617) -/
def formRec : Nat → Val → Val → Res
  | 0, _, _ => .unmodelled
  | fuel + 1, a, b =>
    let collect (rs : List Res) : Res :=
      rs.foldr (fun r acc => match r, acc with
        | .ok v, .ok (.list vs) => .ok (.list (v :: vs))
        | .err, _ => .err
        | .unmodelled, _ => .unmodelled
        | _, e => e) (.ok (.list []))
    match a, b with
    | .list xs, .list ys =>
      if (numShape a).isSome && (numShape b).isSome then .unmodelled
      else if xs.length != ys.length then .err                -- assert len(a) == len(b)
      else collect ((xs.zip ys).map fun p => formRec fuel p.1 p.2)
    | .list xs, .str _ => collect (xs.map fun x => formRec fuel x b)
    | .list _, _ => .unmodelled
    | _, .list ys =>
      if (numShape b).isSome then .unmodelled
      else collect (ys.map fun y => formRec fuel a y)
    | a, b => formAtomImpl a b

mutual
def depthV : Val → Nat
  | .list xs => depthL xs + 1
  | _ => 0
def depthL : List Val → Nat
  | [] => 0
  | x :: xs => max (depthV x) (depthL xs)
end

def implForm (a b : Val) : Res :=
  if Ext1.notStored a || Ext1.notStored b then .unmodelled
  else formRec (depthV a + depthV b + 1) a b

/-! ## dispatch -/

/-- reference for the dyads of this extension (`none` = not ours / undefined) -/
def refDyad (verb : String) (a b : Val) : Option Val :=
  match verb with
  | ":=" => refAmend a b
  | ":-" => refAmendDepth a b
  | ":@" => refIndexDepth a b
  | "%" => refDivide a b
  | "^" => refPower a b
  | ":$" => refForm a b
  | _ => none

/-- reference for the monads of this extension -/
def refMonad (verb : String) (a : Val) : Option Val :=
  match verb with
  | "%" => refRecip a
  | ":#" => refChar a
  | ":_" => refUndefined a
  | "$" => refFormat a
  | _ => none

/-- implementation model for the dyads of this extension (`.unmodelled` = not ours) -/
def implDyad (verb : String) (a b : Val) : Res :=
  match verb with
  | ":=" => implAmend a b
  | ":-" => implAmendDepth a b
  | ":@" => implIndexDepth a b
  | "%" => implDivide a b
  | "^" => implPower a b
  | ":$" => implForm a b
  | _ => .unmodelled

/-- implementation model for the monads of this extension -/
def implMonad (verb : String) (a : Val) : Res :=
  match verb with
  | "%" => implRecip a
  | ":#" => implChar a
  | ":_" => implUndefined a
  | "$" => implFormat a
  | _ => .unmodelled

end Klong.C01.Ext3
