/-
  C01 extension 3 — further verbs: their reference (manual text) AND implementation model.
-/
import Klong.Model.C01
namespace Klong.C01.Ext3
open Klong Klong.C01

/-- reference for the dyads of this extension (`none` = not ours / undefined) -/
def refDyad (_verb : String) (_a _b : Val) : Option Val := none

/-- reference for the monads of this extension -/
def refMonad (_verb : String) (_a : Val) : Option Val := none

/-- implementation model for the dyads of this extension (`.unmodelled` = not ours) -/
def implDyad (_verb : String) (_a _b : Val) : Res := .unmodelled

/-- implementation model for the monads of this extension -/
def implMonad (_verb : String) (_a : Val) : Res := .unmodelled

end Klong.C01.Ext3
