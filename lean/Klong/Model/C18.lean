/-
  C18 — `FileCacheConc`: small-step concurrent machine of klongpy/db/file_cache.py `FileCache`.

  Shared state = what `file_futures_lock` protects (entry table `file_futures`, the names of the
  access list `file_access_times`, the byte total `current_memory_usage`) + the disk + worker
  tasks / futures + per-client program counters.  One atomic step =

    client (get_file)     exists | getsize | lock block (lookup / submit load / touch) | wait
    client (update_file)  lock block (writing check, _unload_file, submit write) | wait
    client (unload_file)  lock block
    task (_load_file)     read (open 'rb' + read) | lock block (update_file_futures_and_memory) | complete
    task (_write_file)    trunc (open 'wb') | write (at offset 0) | fsync | lock block | complete

  The schedule (who runs next, and for a worker's lock block which entries `recover_memory`
  evicts) is an INPUT; `step` returns `none` when the step is not enabled / the eviction
  choice is not legal.  Eviction is relational exactly as in C16 (the heap order of the real
  list is not modelled).

  Mirrors (klongpy/db/file_cache.py):
    get_file                          -> `cstep` (.get …)
    update_file                       -> `cstep` (.update …)
    unload_file / _unload_file        -> `cstep` (.unload …) / `unloadE`
    _load_file / _write_file          -> `tstep`
    update_file_futures_and_memory    -> `finBlock`
    recover_memory                    -> `legalEv` + `evict`
  Ghost (never read by the control flow of `step`): `Entry.counted`, `St.reg`, the `exp`
  fields of `CPc.wait` and `Done`.
-/
import Klong.Model.Wire
namespace Klong.C18
open Klong.Wire

abbrev Name := String
abbrev Disk := List (Name × Bytes)

def dget (d : Disk) (n : Name) : Option Bytes := d.lookup n
def dset (d : Disk) (n : Name) (b : Bytes) : Disk := (n, b) :: d.filter (fun p => p.1 != n)

/-- `file_futures[name] = (writing, bytes, future)` -/
structure Entry where
  name : Name
  writing : Bool
  size : Nat
  fut : Nat
  counted : Bool      -- ghost: `size` has been added to the byte total
deriving DecidableEq, Repr

def findE (es : List Entry) (n : Name) : Option Entry := es.find? (fun e => e.name == n)
def delE (es : List Entry) (n : Name) : List Entry := es.filter (fun e => e.name != n)
def setE (es : List Entry) (e : Entry) : List Entry := e :: delE es e.name

inductive Op
  | get (n : Name)
  | update (n : Name) (d : Bytes) (fsync : Bool)
  | unload (n : Name)
deriving DecidableEq, Repr

inductive Exc | assertion | keyError | notFound
deriving DecidableEq, Repr

inductive TRes | ok (b : Bytes) | err (e : Exc)
deriving DecidableEq, Repr

inductive Res
  | data (b : Bytes) | applied (ok : Bool) | done | notFound | memErr | raised (e : Exc)
deriving DecidableEq, Repr

/-- program counter of a client inside its current operation -/
inductive CPc
  | start                                  -- before the first step of the head operation
  | gsize                                  -- get: exists() passed
  | glock (claim : Nat)                    -- get: about to take the lock
  | wait (f : Nat) (applied : Option Bool) (exp : Option Bytes)   -- future.result(); `exp` ghost
deriving DecidableEq, Repr

structure Done where
  res : Res
  exp : Option Bytes    -- ghost: register value when a get took the lock
deriving DecidableEq, Repr

structure Client where
  ops : List Op
  pc : CPc
  results : List Done
deriving DecidableEq, Repr

inductive TPc
  | read | trunc | write | fsync
  | fin (v : Bytes)          -- about to enter update_file_futures_and_memory with contents `v`
  | complete (r : TRes)      -- worker function returned / raised, future not yet done
  | finished (r : TRes)      -- future done
deriving DecidableEq, Repr

structure Task where
  name : Name
  wr : Option (Bytes × Bool)     -- none = _load_file, some (data, use_fsync) = _write_file
  pc : TPc
deriving DecidableEq, Repr

/-- the task's completion block has not run yet ("in flight") -/
def Task.pre (t : Task) : Bool :=
  match t.pc with
  | .complete _ | .finished _ => false
  | _ => true

structure St where
  max : Nat
  mem : Int
  entries : List Entry
  acc : List Name
  disk : Disk
  reg : Disk                 -- ghost: data of the last update that took the `applied` branch
  clients : List Client
  tasks : List Task
deriving Repr

inductive Lbl | exists_ | getsize | lock | wait | read | trunc | write | fsync | complete
deriving DecidableEq, Repr

inductive Who | client (i : Nat) | task (i : Nat)
deriving DecidableEq, Repr

structure Step where
  who : Who
  lbl : Lbl
  ev : List Name := []
deriving DecidableEq, Repr

def init (max : Nat) (disk : Disk) (progs : List (List Op)) : St :=
  { max, mem := 0, entries := [], acc := [], disk, reg := disk,
    clients := progs.map (fun ops => ⟨ops, .start, []⟩), tasks := [] }

/-! ### protected-state helpers -/

/-- `_unload_file` -/
def unloadE (s : St) (n : Name) : St :=
  match findE s.entries n with
  | some e => { s with mem := s.mem - e.size, entries := delE s.entries n }
  | none => s

/-- the pops of `recover_memory` that unload: each evicted name leaves the access list -/
def evict (s : St) : List Name → St
  | [] => s
  | x :: xs => evict { (unloadE s x) with acc := s.acc.filter (· != x) } xs

def evictable (s : St) (x : Name) : Bool :=
  s.acc.contains x && (match findE s.entries x with | some e => !e.writing | none => false)

/-- what the loop of `recover_memory(claim)` may have unloaded: only non-writing entries of the
    access list, nothing unless the claim did not fit, and afterwards the claim fits or the
    list is exhausted -/
def legalEv (s : St) (ev : List Name) (claim : Nat) : Bool :=
  ev.all (evictable s) &&
  (ev.isEmpty || decide (s.mem + claim > s.max)) &&
  (decide ((evict s ev).mem + claim ≤ s.max) || s.acc.all (fun x => !evictable s x || ev.contains x))

def taskRes (s : St) (f : Nat) : Option TRes :=
  match s.tasks[f]? with
  | some t => (match t.pc with | .finished r => some r | _ => none)
  | none => none

def finishOp (s : St) (i : Nat) (c : Client) (r : Done) : St :=
  { s with clients := s.clients.set i ⟨c.ops.tail, .start, c.results ++ [r]⟩ }

def setPc (s : St) (i : Nat) (c : Client) (pc : CPc) : St :=
  { s with clients := s.clients.set i { c with pc := pc } }

def setT (s : St) (f : Nat) (t : Task) (pc : TPc) : St :=
  { s with tasks := s.tasks.set f { t with pc := pc } }

def resOfT : TRes → Res
  | .ok b => .data b
  | .err .notFound => .notFound
  | .err e => .raised e

/-! ### client steps -/

def cstep (s : St) (i : Nat) (c : Client) : Option St :=
  match c.ops with
  | [] => none
  | .get n :: _ =>
    match c.pc with
    | .start =>                                   -- os.path.exists
      match dget s.disk n with
      | none => some (finishOp s i c ⟨.notFound, none⟩)
      | some _ => some (setPc s i c .gsize)
    | .gsize =>                                   -- os.path.getsize
      match dget s.disk n with
      | none => some (finishOp s i c ⟨.notFound, none⟩)
      | some b =>
        if b.length > s.max then some (finishOp s i c ⟨.memErr, none⟩)
        else some (setPc s i c (.glock b.length))
    | .glock claim =>                             -- with self.file_futures_lock
      match findE s.entries n with
      | none =>
        let f := s.tasks.length
        some (setPc { s with entries := setE s.entries ⟨n, false, claim, f, false⟩
                           , tasks := s.tasks ++ [⟨n, none, .read⟩] } i c (.wait f none (dget s.reg n)))
      | some e =>
        let acc' := if (taskRes s e.fut).isSome then s.acc.filter (· != n) ++ [n] else s.acc
        some (setPc { s with acc := acc' } i c (.wait e.fut none (dget s.reg n)))
    | .wait f _ exp =>                            -- future.result()
      match taskRes s f with
      | some r => some (finishOp s i c ⟨resOfT r, exp⟩)
      | none => none
  | .update n d fs :: _ =>
    match c.pc with
    | .start =>
      if d.length > s.max then some (finishOp s i c ⟨.memErr, none⟩)   -- raised before the lock
      else
        let busy := match findE s.entries n with
          | some e => if e.writing then some e.fut else none
          | none => none
        match busy with
        | some f => some (setPc s i c (.wait f (some false) none))
        | none =>
          let s1 := unloadE s n
          let f := s1.tasks.length
          some (setPc { s1 with entries := setE s1.entries ⟨n, true, d.length, f, false⟩
                              , tasks := s1.tasks ++ [⟨n, some (d, fs), .trunc⟩]
                              , reg := dset s1.reg n d } i c (.wait f (some true) none))
    | .wait f a _ =>
      match taskRes s f with
      | some (.ok _) => some (finishOp s i c ⟨.applied (a.getD false), none⟩)
      | some (.err e) => some (finishOp s i c ⟨resOfT (.err e), none⟩)
      | none => none
    | _ => none
  | .unload n :: _ =>
    match c.pc with
    | .start =>
      let s1 := unloadE s n
      some (finishOp { s1 with acc := s1.acc.filter (· != n) } i c ⟨.done, none⟩)
    | _ => none

/-! ### worker steps -/

/-- `update_file_futures_and_memory(name, len v)` under the lock, eviction choice `ev` -/
def finBlock (s : St) (f : Nat) (t : Task) (v : Bytes) (ev : List Name) : Option St :=
  if v.length > s.max then                       -- assert claim <= self.max_memory
    if ev.isEmpty then some (setT s f t (.complete (.err .assertion))) else none
  else if !legalEv s ev v.length then none
  else
    let s1 := evict s ev
    match findE s1.entries t.name with
    | none => some (setT s1 f t (.complete (.err .assertion)))     -- assert info is not None
    | some e =>
      if s1.mem + v.length ≤ s1.max then
        some (setT { s1 with acc := s1.acc.filter (· != t.name) ++ [t.name]
                           , mem := s1.mem + v.length
                           , entries := setE s1.entries ⟨t.name, false, v.length, e.fut, true⟩ }
                f t (.complete (.ok v)))
      else
        some (setT { s1 with entries := delE s1.entries t.name } f t (.complete (.ok v)))

/-- bytes of a file after writing `d` at offset 0 -/
def overwrite (cur d : Bytes) : Bytes := d ++ cur.drop d.length

def tstep (s : St) (f : Nat) (t : Task) (ev : List Name) : Option St :=
  match t.pc with
  | .read =>
    match dget s.disk t.name with
    | some b => some (setT s f t (.fin b))
    | none => some (setT s f t (.complete (.err .notFound)))
  | .trunc => some (setT { s with disk := dset s.disk t.name [] } f t .write)
  | .write =>
    match t.wr with
    | some (d, fs) =>
      -- f.write on a descriptor at offset 0: overwrites the first len(d) bytes of whatever the
      -- file holds now (empty after this task's own truncate unless another writer interleaved)
      some (setT { s with disk := dset s.disk t.name (overwrite ((dget s.disk t.name).getD []) d) } f t
              (if fs then .fsync else .fin d))
    | none => none
  | .fsync =>
    match t.wr with
    | some (d, _) => some (setT s f t (.fin d))
    | none => none
  | .fin v => finBlock s f t v ev
  | .complete r => some (setT s f t (.finished r))
  | .finished _ => none

def lblC (c : Client) : Option Lbl :=
  match c.ops with
  | [] => none
  | .get _ :: _ =>
    (match c.pc with
     | .start => some .exists_ | .gsize => some .getsize | .glock _ => some .lock | .wait .. => some .wait)
  | _ :: _ =>
    (match c.pc with
     | .start => some .lock | .wait .. => some .wait | _ => none)

def lblT (t : Task) : Option Lbl :=
  match t.pc with
  | .read => some .read | .trunc => some .trunc | .write => some .write | .fsync => some .fsync
  | .fin _ => some .lock | .complete _ => some .complete | .finished _ => none

def step (s : St) (st : Step) : Option St :=
  match st.who with
  | .client i =>
    match s.clients[i]? with
    | some c => if lblC c = some st.lbl && st.ev.isEmpty then cstep s i c else none
    | none => none
  | .task f =>
    match s.tasks[f]? with
    | some t => if lblT t = some st.lbl then tstep s f t st.ev else none
    | none => none

def run (s : St) : List Step → Option St
  | [] => some s
  | st :: rest =>
    match step s st with
    | some s' => run s' rest
    | none => none

/-- decidable enabledness test (independent of the eviction choice) -/
def enabled (s : St) : Who → Bool
  | .client i =>
    match s.clients[i]? with
    | some c =>
      (match c.ops, c.pc with
       | [], _ => false
       | _ :: _, .wait f _ _ => (taskRes s f).isSome
       | _ :: _, _ => true)
    | none => false
  | .task f =>
    match s.tasks[f]? with
    | some t => (match t.pc with | .finished _ => false | _ => true)
    | none => false

def quiescent (s : St) : Bool :=
  s.clients.all (fun c => c.ops.isEmpty) && s.tasks.all (fun t => match t.pc with | .finished _ => true | _ => false)

/-! ### the hazard-free ("safe") schedules of the partial theorems -/

/-- a task of file `n` is in flight (loads only, or any) -/
def inflight (s : St) (n : Name) (loadsOnly : Bool) : Bool :=
  s.tasks.any (fun t => t.name == n && t.pre && (!loadsOnly || t.wr.isNone))

/-- the step does not take the lock for an update of a file whose load is in flight, nor for an
    unload of a file whose load or write is in flight -/
def safe (s : St) (st : Step) : Bool :=
  match st.who with
  | .task _ => true
  | .client i =>
    match s.clients[i]? with
    | some c =>
      (match c.ops, c.pc with
       | .update n _ _ :: _, .start => !inflight s n true
       | .unload n :: _, .start => !inflight s n false
       | _, _ => true)
    | none => true

def runSafe (s : St) : List Step → Option St
  | [] => some s
  | st :: rest =>
    if safe s st then
      match step s st with
      | some s' => runSafe s' rest
      | none => none
    else none

/-! ### driver -/

def showRes : Res → String
  | .data b => s!"data:{toHex b}"
  | .applied ok => s!"applied:{if ok then 1 else 0}"
  | .done => "done"
  | .notFound => "notfound"
  | .memErr => "memerr"
  | .raised .assertion => "raises:AssertionError"
  | .raised .keyError => "raises:KeyError"
  | .raised .notFound => "notfound"

def sortJoin (xs : List String) (sep : String) : String :=
  sep.intercalate (xs.toArray.qsort (· < ·)).toList

def showTRes : TRes → String
  | .ok b => s!"ok:{toHex b}"
  | .err .assertion => "err:AssertionError"
  | .err .keyError => "err:KeyError"
  | .err .notFound => "err:FileNotFoundError"

def showTask (t : Task) : String :=
  match t.pc with
  | .finished r => showTRes r
  | _ => "pending"

def digest (s : St) : String :=
  let es := sortJoin (s.entries.map fun e => s!"{e.name}/{if e.writing then 1 else 0}/{e.size}/{e.fut}") ","
  let dk := sortJoin (s.disk.map fun p => s!"{p.1}@{toHex p.2}") ","
  let ts := ",".intercalate (s.tasks.map showTask)
  let rs := "|".intercalate (s.clients.map fun c => ";".intercalate (c.results.map fun r => showRes r.res))
  s!"mem={s.mem} entries={es} acc={sortJoin s.acc ","} disk={dk} tasks={ts} res={rs}"

def showWho : Who → String
  | .client i => s!"C{i}"
  | .task f => s!"K{f}"

def enabledSet (s : St) : String :=
  let cs := (List.range s.clients.length).filter (fun i => enabled s (.client i)) |>.map (fun i => s!"C{i}")
  let ts := (List.range s.tasks.length).filter (fun i => enabled s (.task i)) |>.map (fun i => s!"K{i}")
  ",".intercalate (cs ++ ts)

def parseWho (w : String) : Option Who :=
  match w.toList with
  | 'C' :: r => (String.ofList r).toNat?.map Who.client
  | 'K' :: r => (String.ofList r).toNat?.map Who.task
  | _ => none

def parseLbl : String → Option Lbl
  | "exists" => some .exists_ | "getsize" => some .getsize | "lock" => some .lock
  | "wait" => some .wait | "read" => some .read | "trunc" => some .trunc
  | "write" => some .write | "fsync" => some .fsync | "complete" => some .complete
  | _ => none

/-- `C0/lock/` or `K1/lock/a+b` -/
def parseStep (w : String) : Option Step :=
  match w.splitOn "/" with
  | [who, lbl, ev] => do
    let who ← parseWho who
    let lbl ← parseLbl lbl
    pure ⟨who, lbl, splitOnChar ev '+'⟩
  | _ => none

/-- `g:a`, `u:a:hex:1`, `x:a` -/
def parseOp (w : String) : Option Op :=
  match w.splitOn ":" with
  | ["g", n] => some (.get n)
  | ["x", n] => some (.unload n)
  | ["u", n, hx, fs] => (parseHex hx).map fun d => .update n d (fs == "1")
  | _ => none

def parseProgs (w : String) : Option (List (List Op)) :=
  (w.splitOn "|").mapM fun t => (splitOnChar t ';').mapM parseOp

def parseFiles (w : String) : Option Disk :=
  (splitOnChar w ',').mapM fun item =>
    match item.splitOn ":" with
    | [n, hx] => (parseHex hx).map fun b => (n, b)
    | _ => none

/-- run a schedule, collecting the enabled set before every step; stops at the first refused step -/
def runTrace (s : St) (acc : List String) (k : Nat) : List Step → St × List String × Option Nat
  | [] => (s, acc, none)
  | st :: rest =>
    match step s st with
    | some s' => runTrace s' (acc ++ [enabledSet s]) (k + 1) rest
    | none => (s, acc ++ [enabledSet s], some k)

/-- the driver is stateless: every request carries the scenario and the whole schedule -/
def handle (s : St) (ws : List String) : St × String :=
  match ws with
  | "run" :: rest =>
    let fs := fields rest
    match natField fs "max", parseFiles (fieldD fs "files"), parseProgs (fieldD fs "progs"),
          (splitOnChar (fieldD fs "sched") ',').mapM parseStep with
    | some m, some files, some progs, some sched =>
      let s0 := init m files progs
      let (s1, ens, stuck) := runTrace s0 [] 0 sched
      let safeRun := (runSafe s0 sched).isSome
      match stuck with
      | none =>
        (s, s!"ok safe={if safeRun then 1 else 0} quiescent={if quiescent s1 then 1 else 0} en={";".intercalate ens} final={enabledSet s1} {digest s1}")
      | some k => (s, s!"refused at={k} en={";".intercalate ens} {digest s1}")
    | _, _, _, _ => (s, "bad-op")
  | _ => (s, "bad-op")

end Klong.C18
