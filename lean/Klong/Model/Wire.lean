/-
  Wire helpers shared by all model drivers (no Mathlib).
  Bytes travel as lower-case hex, lists as comma separated tokens, fields as `key=value`
  separated by blanks.  S-expressions are used where values nest (Val, C01/C02/C11/C13).
-/
namespace Klong.Wire

abbrev Bytes := List Nat

def hexDigit (c : Char) : Option Nat :=
  if '0' ≤ c ∧ c ≤ '9' then some (c.toNat - '0'.toNat)
  else if 'a' ≤ c ∧ c ≤ 'f' then some (c.toNat - 'a'.toNat + 10)
  else none

def parseHexAux : List Char → Option Bytes
  | [] => some []
  | [_] => none
  | a :: b :: rest =>
    match hexDigit a, hexDigit b, parseHexAux rest with
    | some x, some y, some r => some ((16 * x + y) :: r)
    | _, _, _ => none

def parseHex (s : String) : Option Bytes := parseHexAux s.toList

def hexChar (n : Nat) : Char :=
  if n < 10 then Char.ofNat (n + '0'.toNat) else Char.ofNat (n - 10 + 'a'.toNat)

def toHex (b : Bytes) : String :=
  String.ofList (b.flatMap fun x => [hexChar (x / 16 % 16), hexChar (x % 16)])

/-- split on a character, dropping empty pieces -/
def splitOnChar (s : String) (c : Char) : List String :=
  (s.splitOn (String.singleton c)).filter (· ≠ "")

/-- `key=value` fields of a request line (after the op word) -/
def fields (ws : List String) : List (String × String) :=
  ws.filterMap fun w =>
    match w.splitOn "=" with
    | [k, v] => some (k, v)
    | [k] => some (k, "")
    | _ => none

def field (fs : List (String × String)) (k : String) : Option String := fs.lookup k

def fieldD (fs : List (String × String)) (k : String) : String := (fs.lookup k).getD ""

def natField (fs : List (String × String)) (k : String) : Option Nat :=
  (fs.lookup k).bind String.toNat?

def intField (fs : List (String × String)) (k : String) : Option Int :=
  (fs.lookup k).bind String.toInt?

def listField (fs : List (String × String)) (k : String) : List String :=
  splitOnChar (fieldD fs k) ','

def words (line : String) : List String :=
  ((line.trimAscii.toString).splitOn " ").filter (· ≠ "")

/-- generic read-eval-print loop of a stateful model -/
partial def loop {σ : Type} (h : IO.FS.Stream) (out : IO.FS.Stream)
    (step : σ → List String → σ × String) (s : σ) : IO Unit := do
  let line ← h.getLine
  if line.isEmpty then return ()
  let (s', r) := step s (words line)
  out.putStrLn r
  out.flush
  loop h out step s'

end Klong.Wire
