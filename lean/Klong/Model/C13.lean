/-
  C13 — remote evaluation over IPC equals evaluation on the server.

  Part 1 `Sys/Framing` mirrors klongpy/sys_fn_ipc.py
    encode_message                      -> `encode`      (16-byte id ++ struct.pack("!I", len) ++ body)
    decode_message_len                  -> `unbe32`
    asyncio.StreamReader.feed_data      -> `Reader.feed`
    asyncio.StreamReader.readexactly    -> `readExactly` (waits for the next read while the buffer is short;
                                           at end of stream raises IncompleteReadError(partial, expected))
    stream_recv_msg                     -> `recvMsg`     (three readexactly: 16, 4, length)
    the `_listen` loop over one stream  -> `decodeStream : List Bytes → List Msg × Tail`
  The body of a frame is the pickle of the message; pickle itself is in the trusted base, the
  model transports bodies as opaque bytes.

  Part 2 `Sys/IpcDispatch` mirrors
    NetworkClient.__call__              -> `mkRequest`, `clientPost`
    KGRemoteFnProxy.__call__            -> `proxyRequest`
    NetworkClientDictHandle.get / set   -> `Cmd.dictGet`, `Cmd.dictSet`, `clientPost`
    execute_server_command              -> `dispatch`, `wrapResp`
    pickle of the command / the answer  -> `tau singleton` (the only thing modelled about pickle:
                                           what it does to the `:undefined` marker, klongpy/types.py
                                           KGUndefined; `singleton = true` is the repaired class whose
                                           constructor returns the one instance)
  over an abstract interpreter `Interp` (evaluation itself is C01–C04's business), plus a small
  concrete interpreter `Mini` used by the driver and by the `decide`d witnesses.
-/
import Klong.Model.Wire
namespace Klong.C13
open Klong.Wire

/-! ## Sys/Framing -/

structure Msg where
  id : Bytes
  body : Bytes
deriving Repr, DecidableEq

/-- `struct.pack("!I", n)` -/
def be32 (n : Nat) : Bytes := [n / 16777216 % 256, n / 65536 % 256, n / 256 % 256, n % 256]

/-- `struct.unpack("!I", b)[0]` (only ever applied to exactly four bytes) -/
def unbe32 : Bytes → Nat
  | [a, b, c, d] => a * 16777216 + b * 65536 + c * 256 + d
  | _ => 0

/-- `encode_message(msg_id, msg)` with `body = pickle.dumps(msg)` -/
def encode (m : Msg) : Bytes := m.id ++ (be32 m.body.length ++ m.body)

/-- what `encode_message` can produce: a uuid has 16 bytes, `"!I"` packs lengths below 2^32 -/
def Msg.WF (m : Msg) : Prop := m.id.length = 16 ∧ m.body.length < 4294967296

instance (m : Msg) : Decidable m.WF := by unfold Msg.WF; infer_instance

/-- a stream reader: bytes received and not yet consumed, and the network reads still to
    arrive (after the last one the peer closes: `feed_eof`) -/
structure Reader where
  buf : Bytes
  rest : List Bytes
deriving Repr

/-- `StreamReader.feed_data` -/
def Reader.feed (r : Reader) (chunk : Bytes) : Reader := { r with buf := r.buf ++ chunk }

/-- `await reader.readexactly(n)`: `.ok (data, buf', rest')`, or `.error partial` for
    `IncompleteReadError(partial, n)` when the stream ends first -/
def readExactly (n : Nat) : Bytes → List Bytes → Except Bytes (Bytes × Bytes × List Bytes)
  | buf, [] => if n ≤ buf.length then .ok (buf.take n, buf.drop n, []) else .error buf
  | buf, c :: cs =>
    if n ≤ buf.length then .ok (buf.take n, buf.drop n, c :: cs)
    else readExactly n (Reader.feed ⟨buf, cs⟩ c).buf cs     -- `_wait_for_data`, then `feed_data(c)`

inductive Stage | id | len | body
deriving Repr, DecidableEq

inductive Recv
  | msg (m : Msg) (buf : Bytes) (rest : List Bytes)
  | eof (st : Stage) (partialLen : Nat) (expected : Nat)   -- IncompleteReadError raised by read `st`
deriving Repr

/-- `stream_recv_msg(reader)` (`decode_message` keeps the id bytes and unpickles the body) -/
def recvMsg (buf : Bytes) (rest : List Bytes) : Recv :=
  match readExactly 16 buf rest with
  | .error p => .eof .id p.length 16
  | .ok (rid, b1, r1) =>
    match readExactly 4 b1 r1 with
    | .error p => .eof .len p.length 4
    | .ok (rl, b2, r2) =>
      match readExactly (unbe32 rl) b2 r2 with
      | .error p => .eof .body p.length (unbe32 rl)
      | .ok (data, b3, r3) => .msg ⟨rid, data⟩ b3 r3

/-- how a stream ends -/
inductive Tail
  | eof (st : Stage) (partialLen : Nat) (expected : Nat)
  | fuel                                    -- never produced by `decodeStream` (theorem `decodeStream_no_fuel`)
deriving Repr, DecidableEq

/-- end of stream exactly on a frame boundary -/
def Tail.clean : Tail := .eof .id 0 16

def decodeLoop : Nat → Bytes → List Bytes → List Msg × Tail
  | 0, _, _ => ([], .fuel)
  | f + 1, buf, rest =>
    match recvMsg buf rest with
    | .eof st p e => ([], .eof st p e)
    | .msg m b r => ((m :: (decodeLoop f b r).1), (decodeLoop f b r).2)

/-- the receive loop run over a whole connection: `chunks` are the network reads in order,
    then end of stream. Every frame takes at least 20 bytes, so `length + 1` rounds suffice. -/
def decodeStream (chunks : List Bytes) : List Msg × Tail :=
  decodeLoop (chunks.flatten.length + 1) [] chunks

/-! ### reference: the same parser on the undivided byte string -/

def recvFlat (s : Bytes) : Except (Stage × Nat × Nat) (Msg × Bytes) :=
  if s.length < 16 then .error (.id, s.length, 16)
  else if (s.drop 16).length < 4 then .error (.len, (s.drop 16).length, 4)
  else if ((s.drop 16).drop 4).length < unbe32 ((s.drop 16).take 4) then
    .error (.body, ((s.drop 16).drop 4).length, unbe32 ((s.drop 16).take 4))
  else .ok (⟨s.take 16, ((s.drop 16).drop 4).take (unbe32 ((s.drop 16).take 4))⟩,
            ((s.drop 16).drop 4).drop (unbe32 ((s.drop 16).take 4)))

def decodeFlat : Nat → Bytes → List Msg × Tail
  | 0, _ => ([], .fuel)
  | f + 1, s =>
    match recvFlat s with
    | .error (st, p, e) => ([], .eof st p e)
    | .ok (m, s') => (m :: (decodeFlat f s').1, (decodeFlat f s').2)

/-- the status reported when the stream ends `k` bytes into the frame of `m` -/
def cutTail (m : Msg) (k : Nat) : Tail :=
  if k < 16 then .eof .id k 16
  else if k < 20 then .eof .len (k - 16) 4
  else .eof .body (k - 20) m.body.length

/-! ## Sys/IpcDispatch -/

/-- values that exist in an interpreter or on the wire -/
inductive Val
  | int (n : Int)
  | real (bits : String)             -- IEEE bit pattern, opaque here
  | chr (c : Nat)
  | sym (s : String)
  | str (s : String)
  | list (xs : List Val)
  | dict (kvs : List Val)            -- key, value, key, value, …
  | undef                            -- the KLONG_UNDEFINED singleton (`a is KLONG_UNDEFINED`)
  | undefCopy                        -- a KGUndefined instance that is not the singleton
  | none                             -- Python None (answer to a dict-set command)
  | fn (arity : Nat) (code : Nat)    -- KGFn / KGLambda living in an interpreter
  | fnref (arity : Nat)              -- KGRemoteFnRef
  | proxy (sym : String) (arity : Nat)   -- KGRemoteFnProxy bound to the connection
deriving Repr, Inhabited

mutual
/-- the transportable universe: data all the way down, `:undefined` being the singleton -/
def Val.data : Val → Bool
  | .int _ | .real _ | .chr _ | .sym _ | .str _ | .undef => true
  | .list xs => Val.dataL xs
  | .dict kvs => Val.dataL kvs
  | .undefCopy | .none | .fn _ _ | .fnref _ | .proxy _ _ => false
def Val.dataL : List Val → Bool
  | [] => true
  | x :: xs => Val.data x && Val.dataL xs
end

/-- `:_x` — klongpy/monads.py eval_monad_undefined: `a is None or a is KLONG_UNDEFINED` -/
def Val.isUndef : Val → Bool
  | .undef | .none => true
  | _ => false

mutual
/-- pickle round trip. Everything is rebuilt as an equal object; a `KGUndefined` is rebuilt by
    calling the class, which returns the singleton iff the class is a singleton class. -/
def tau (singleton : Bool) : Val → Val
  | .undef => if singleton then .undef else .undefCopy
  | .list xs => .list (tauL singleton xs)
  | .dict kvs => .dict (tauL singleton kvs)
  | v => v
def tauL (singleton : Bool) : List Val → List Val
  | [] => []
  | x :: xs => tau singleton x :: tauL singleton xs
end

/-- what the IPC layer needs from an interpreter -/
structure Interp (σ : Type) where
  evalText : σ → String → Option (σ × Val)        -- `klong(text)`; `none` = raises
  get : σ → String → Option Val                    -- `klong[KGSym(s)]`; `none` = KeyError
  set : σ → String → Val → σ                       -- `klong[KGSym(s)] = v`
  call : σ → Val → List Val → Option (σ × Val)     -- apply a function value to parameters

/-- the commands `execute_server_command` distinguishes -/
inductive Cmd
  | text (t : String)                               -- anything else: `klong(str(command))`
  | fnCall (sym : String) (params : List Val)       -- KGRemoteFnCall
  | dictGet (key : String)                          -- KGRemoteDictGetCall
  | dictSet (key : String) (value : Val)            -- KGRemoteDictSetCall
deriving Repr

/-- NetworkClient.__call__: a list whose first element is a symbol is a function call, everything
    else is sent as it is and evaluated as text (modelled for strings and symbols) -/
def mkRequest : Val → Option Cmd
  | .list (.sym s :: params) => some (.fnCall s params)
  | .str t => some (.text t)
  | .sym s => some (.text s)
  | _ => Option.none

/-- KGRemoteFnProxy.__call__: the first `arity` arguments -/
def proxyRequest (sym : String) (arity : Nat) (args : List Val) : Cmd := .fnCall sym (args.take arity)

def Cmd.transport (τ : Val → Val) : Cmd → Cmd
  | .text t => .text t
  | .fnCall s ps => .fnCall s (ps.map τ)
  | .dictGet k => .dictGet k
  | .dictSet k v => .dictSet k (τ v)

def Val.isFn : Val → Bool
  | .fn _ _ => true
  | _ => false

/-- functions do not travel: the answer is a KGRemoteFnRef carrying the arity -/
def wrapResp : Val → Val
  | .fn a _ => .fnref a
  | v => v

/-- execute_server_command -/
def dispatch {σ : Type} (I : Interp σ) (st : σ) : Cmd → Option (σ × Val)
  | .fnCall s ps =>
    match I.get st s with
    | some r => if r.isFn then (I.call st r ps).map (fun p => (p.1, wrapResp p.2)) else Option.none
    | Option.none => Option.none
  | .dictSet k v => some (I.set st k v, .none)
  | .dictGet k => (I.get st k).map (fun r => (st, wrapResp r))
  | .text t => (I.evalText st t).map (fun p => (p.1, wrapResp p.2))

/-- NetworkClient.__call__ / NetworkClientDictHandle.get after the answer arrived:
    asked for a symbol and got a function reference -> a proxy -/
def clientPost (askedSym : Option String) (resp : Val) : Val :=
  match askedSym, resp with
  | some s, .fnref a => .proxy s a
  | _, r => r

def askedSym : Val → Option String
  | .sym s => some s
  | _ => Option.none

/-- one round trip of a command: pickle, dispatch on the server, pickle back -/
def roundTrip {σ : Type} (τ : Val → Val) (I : Interp σ) (st : σ) (c : Cmd) : Option (σ × Val) :=
  (dispatch I st (c.transport τ)).map (fun p => (p.1, τ p.2))

/-- `f(x)` through a remote function handle -/
def remoteApply {σ : Type} (τ : Val → Val) (I : Interp σ) (st : σ) (x : Val) : Option (σ × Val) :=
  match mkRequest x with
  | Option.none => Option.none
  | some c => (roundTrip τ I st c).map (fun p => (p.1, clientPost (askedSym x) p.2))

/-- `q(args)` through a function proxy -/
def remoteProxy {σ : Type} (τ : Val → Val) (I : Interp σ) (st : σ) (sym : String) (arity : Nat)
    (args : List Val) : Option (σ × Val) :=
  roundTrip τ I st (proxyRequest sym arity args)

/-- `d?:k` through a remote dictionary -/
def remoteGet {σ : Type} (τ : Val → Val) (I : Interp σ) (st : σ) (k : String) : Option (σ × Val) :=
  (roundTrip τ I st (.dictGet k)).map (fun p => (p.1, clientPost (some k) p.2))

/-- `d,:k,,v` through a remote dictionary (the client-side result is the handle itself) -/
def remoteSet {σ : Type} (τ : Val → Val) (I : Interp σ) (st : σ) (k : String) (v : Val) : Option σ :=
  (roundTrip τ I st (.dictSet k v)).map (·.1)

/-! ### the same operations evaluated locally on the server interpreter -/

/-- how a local result is presented to a remote caller: data as itself, a function as a
    reference (text form) or as a proxy for the symbol asked for -/
def present (asked : Option String) : Val → Val
  | .fn a _ => match asked with
    | some s => .proxy s a
    | Option.none => .fnref a
  | v => v

def localCall {σ : Type} (I : Interp σ) (st : σ) (name : String) (args : List Val) : Option (σ × Val) :=
  match I.get st name with
  | some r => if r.isFn then I.call st r args else Option.none
  | Option.none => Option.none

/-! ### operation sequences -/

/-- the remote operation forms of the property -/
inductive Op
  | text (e : String)                                  -- `f("e")`
  | sym (name : String)                                -- `f(:name)`
  | call (name : String) (args : List Val)             -- `f(:name,args)`
  | proxy (name : String) (arity : Nat) (args : List Val)   -- `q(args)`, `q` a proxy for `name`
  | get (k : String)                                   -- `d?:k`
  | set (k : String) (v : Val)                         -- `d,:k,,v`
deriving Repr

/-- the operation performed through the connection (result of a set: the handle, shown as `none`) -/
def remoteStep {σ : Type} (τ : Val → Val) (I : Interp σ) (st : σ) : Op → Option (σ × Val)
  | .text e => remoteApply τ I st (.str e)
  | .sym n => remoteApply τ I st (.sym n)
  | .call n args => remoteApply τ I st (.list (.sym n :: args))
  | .proxy n a args => remoteProxy τ I st n a args
  | .get k => remoteGet τ I st k
  | .set k v => (remoteSet τ I st k v).map (fun s => (s, Val.none))

/-- the same operation evaluated locally on the server interpreter -/
def localStep {σ : Type} (I : Interp σ) (st : σ) : Op → Option (σ × Val)
  | .text e => (I.evalText st e).map (fun p => (p.1, present Option.none p.2))
  | .sym n => (I.evalText st n).map (fun p => (p.1, present (some n) p.2))
  | .call n args => (localCall I st n args).map (fun p => (p.1, present Option.none p.2))
  | .proxy n a args => (localCall I st n (args.take a)).map (fun p => (p.1, present Option.none p.2))
  | .get k => (I.get st k).map (fun r => (st, present (some k) r))
  | .set k v => some (I.set st k v, Val.none)

def runWith {σ : Type} (step : σ → Op → Option (σ × Val)) : σ → List Op → Option (σ × List Val)
  | st, [] => some (st, [])
  | st, op :: ops =>
    match step st op with
    | Option.none => Option.none
    | some (st', r) => (runWith step st' ops).map (fun p => (p.1, r :: p.2))

/-- a result the property speaks about: a function (presented as reference / proxy) or data -/
def okResult (r : Val) : Bool := r.isFn || r.data

/-- what crosses the wire: data, `None`, function references -/
def Val.wire : Val → Bool
  | .none => true
  | .fnref _ => true
  | v => v.data

/-! ### a small concrete interpreter (driver and witnesses)

  The text of `f("…")` is abstracted to a parsed form: the harness renders each `Expr` as
  Klong source for the real server and sends its token form to the model. -/

inductive Expr
  | lit (v : Val)                      -- an expression whose value is `v` (`[1 2 3]`, `1%0`, …)
  | assign (name : String) (v : Val)   -- `name::<expression with value v>`
  | var (name : String)                -- `name`
  | call (name : String) (args : List Val)   -- `name(a;b;c)` with literal arguments
  | undefq (name : String)             -- `:_name`
  | defn (name : String) (code : Nat)  -- `name::{…}`: (re)bind a name to one of the known function bodies
deriving Repr

abbrev Store := List (String × Val)

def Store.get (s : Store) (k : String) : Option Val := List.lookup k s
def Store.set (s : Store) (k : String) (v : Val) : Store := (k, v) :: s.filter (fun p => p.1 != k)

def intOf : Val → Option Int
  | .int n => some n
  | _ => Option.none

/-- the functions the harness defines on the server, by code number -/
def builtinCall (s : Store) (code : Nat) (ps : List Val) : Option (Store × Val) :=
  match code, ps with
  | 0, [] => some (s, .int 77)                                  -- k0::{77}
  | 1, [x] => some (s, x)                                       -- id1::{x}
  | 2, [_, y] => some (s, y)                                    -- snd::{x;y}
  | 3, [_, _, z] => some (s, z)                                 -- trd::{x;y;z}
  | 4, [x] => some (s, .int (if x.isUndef then 1 else 0))       -- und1::{x;:_x}
  | 5, [x] => some (s, x)                                       -- pyid = lambda x: x
  | 6, [_, y] => some (s, y)                                    -- pysnd = lambda x, y: y
  | 7, [x] =>                                                   -- bump::{cnt::cnt+x}
    match (s.get "cnt").bind intOf, intOf x with
    | some c, some d => some (s.set "cnt" (.int (c + d)), .int (c + d))
    | _, _ => Option.none
  | 8, [x] => some (s.set "last" x, x)                          -- keep::{last::x}
  | 9, [.int x, .int y] => some (s, .int (x - y))               -- sub::{x-y}        (integers)
  | 10, [.str x, .str y] => some (s, .str (x ++ y))             -- cat::{x,y}        (strings)
  | 11, [.int x, .int y, .int z] => some (s, .list [.int x, .int y, .int z])   -- tri::{x,y,z} (integers)
  | 22, [.str x] =>                                             -- lastc::{x@(#x)-1}  (a computed character)
    match x.toList.getLast? with
    | some c => some (s, .chr c.toNat)
    | Option.none => Option.none
  | 23, [.str x, .int i] =>                                     -- nth::{x@y}
    if 0 ≤ i then
      match x.toList[i.toNat]? with
      | some c => some (s, .chr c.toNat)
      | Option.none => Option.none
    else Option.none
  | _, _ => Option.none

/-- names bound to projections: base function and its argument slots (`none` = open).
    `dec::sub(;1)` `from10::sub(10;)` `suf::cat(;">")` `pre::cat("<";)` `mid::tri(1;;3)` `ends::tri(;2;)`
    `lead1::tri(7;;)` `nest::lead1(8;)` `nend::ends(;9)` `nmid::ends(5;)` -/
def projOf : Nat → Option (Nat × List (Option Val))
  | 12 => some (9, [Option.none, some (.int 1)])
  | 13 => some (9, [some (.int 10), Option.none])
  | 14 => some (10, [Option.none, some (.str ">")])
  | 15 => some (10, [some (.str "<"), Option.none])
  | 16 => some (11, [some (.int 1), Option.none, some (.int 3)])
  | 17 => some (11, [Option.none, some (.int 2), Option.none])
  | 18 => some (11, [some (.int 7), Option.none, Option.none])
  | 19 => some (18, [some (.int 8), Option.none])
  | 20 => some (17, [Option.none, some (.int 9)])
  | 21 => some (17, [some (.int 5), Option.none])
  | _ => Option.none

/-- a projection takes as many arguments as it has open slots; they fill the open slots in order,
    the fixed arguments keep their positions -/
def fillSlots : List (Option Val) → List Val → Option (List Val)
  | [], [] => some []
  | [], _ :: _ => Option.none
  | some v :: r, ps => (fillSlots r ps).map (v :: ·)
  | Option.none :: r, p :: ps => (fillSlots r ps).map (p :: ·)
  | Option.none :: _, [] => Option.none

def callCode : Nat → Store → Nat → List Val → Option (Store × Val)
  | 0, _, _, _ => Option.none
  | f + 1, s, code, ps =>
    match projOf code with
    | some (base, slots) => (fillSlots slots ps).bind (callCode f s base)
    | Option.none => builtinCall s code ps

def builtins : Store :=
  [("k0", .fn 0 0), ("id1", .fn 1 1), ("snd", .fn 2 2), ("trd", .fn 3 3), ("und1", .fn 1 4),
   ("pyid", .fn 1 5), ("pysnd", .fn 2 6), ("bump", .fn 1 7), ("keep", .fn 1 8), ("cnt", .int 0), ("last", .int 0),
   ("sub", .fn 2 9), ("cat", .fn 2 10), ("tri", .fn 3 11),
   -- projections: the arity is the number of open slots
   ("dec", .fn 1 12), ("from10", .fn 1 13), ("suf", .fn 1 14), ("pre", .fn 1 15), ("mid", .fn 1 16),
   ("ends", .fn 2 17), ("lead1", .fn 2 18), ("nest", .fn 1 19), ("nend", .fn 1 20), ("nmid", .fn 1 21),
   ("lastc", .fn 1 22), ("nth", .fn 2 23)]

/-- arity of the function bodies the harness (re)defines by text: `{77}` `{x}` `{x;y}` `{x;y;z}` -/
def codeArity : Nat → Nat
  | 0 => 0
  | 2 => 2
  | 3 => 3
  | _ => 1

def miniCall (s : Store) (f : Val) (ps : List Val) : Option (Store × Val) :=
  match f with
  | .fn _ code => callCode 4 s code ps
  | _ => Option.none

def evalExpr (s : Store) : Expr → Option (Store × Val)
  | .lit v => some (s, v)
  | .assign n v => some (s.set n v, v)
  | .var n => (s.get n).map (fun v => (s, v))
  | .call n args => (s.get n).bind (fun f => miniCall s f args)
  | .undefq n => (s.get n).map (fun v => (s, .int (if v.isUndef then 1 else 0)))
  | .defn n code => some (s.set n (.fn (codeArity code) code), .fn (codeArity code) code)

/-! ### driver: token codec and line protocol

  A value is a comma-separated token sequence in prefix form:
  `i-3  r3ff8…  c97  y<hex>  s<hex>  U  V  N  F2  G2  P2,y<hex>  L3,<v>,<v>,<v>  D2,<k>,<v>,<k>,<v>` -/

def hexStr (s : String) : String := toHex (s.toList.map Char.toNat)
def unhexStr (h : String) : Option String := (parseHex h).map (fun bs => String.ofList (bs.map Char.ofNat))

mutual
def printVal : Val → List String
  | .int n => [s!"i{n}"]
  | .real b => ["r" ++ b]
  | .chr c => [s!"c{c}"]
  | .sym s => ["y" ++ hexStr s]
  | .str s => ["s" ++ hexStr s]
  | .list xs => s!"L{xs.length}" :: printVals xs
  | .dict kvs => s!"D{kvs.length / 2}" :: printVals kvs
  | .undef => ["U"]
  | .undefCopy => ["V"]
  | .none => ["N"]
  | .fn a _ => [s!"G{a}"]
  | .fnref a => [s!"F{a}"]
  | .proxy s a => [s!"P{a}", "y" ++ hexStr s]
def printVals : List Val → List String
  | [] => []
  | x :: xs => printVal x ++ printVals xs
end

def showVal (v : Val) : String := ",".intercalate (printVal v)

mutual
def parseVal : Nat → List String → Option (Val × List String)
  | 0, _ => Option.none
  | _ + 1, [] => Option.none
  | f + 1, t :: ts =>
    match t.toList with
    | 'i' :: cs => (String.ofList cs).toInt?.map (fun n => (.int n, ts))
    | 'r' :: cs => some (.real (String.ofList cs), ts)
    | 'c' :: cs => (String.ofList cs).toNat?.map (fun n => (.chr n, ts))
    | 'y' :: cs => (unhexStr (String.ofList cs)).map (fun s => (.sym s, ts))
    | 's' :: cs => (unhexStr (String.ofList cs)).map (fun s => (.str s, ts))
    | ['U'] => some (.undef, ts)
    | ['V'] => some (.undefCopy, ts)
    | ['N'] => some (.none, ts)
    | 'F' :: cs => (String.ofList cs).toNat?.map (fun n => (.fnref n, ts))
    | 'L' :: cs =>
      (String.ofList cs).toNat?.bind fun n =>
        (parseVals f n ts).map fun p => (.list p.1, p.2)
    | 'D' :: cs =>
      (String.ofList cs).toNat?.bind fun n =>
        (parseVals f (2 * n) ts).map fun p => (.dict p.1, p.2)
    | _ => Option.none
def parseVals : Nat → Nat → List String → Option (List Val × List String)
  | 0, _, _ => Option.none
  | _ + 1, 0, ts => some ([], ts)
  | f + 1, n + 1, ts =>
    (parseVal f ts).bind fun p =>
      (parseVals f n p.2).map fun q => (p.1 :: q.1, q.2)
end

/-- a complete value, nothing left over -/
def readVal (s : String) : Option Val :=
  let ts := splitOnChar s ','
  match parseVal (2 * ts.length + 2) ts with
  | some (v, []) => some v
  | _ => Option.none

/-- the parsed form of a text command: `lit,<v>` `assign,<name>,<v>` `var,<name>` `call,<name>,<list>` `undefq,<name>` `defn,<name>,<code>` -/
def parseExpr (t : String) : Option Expr :=
  match splitOnChar t ',' with
  | "lit" :: ts => (readVal (",".intercalate ts)).map .lit
  | "assign" :: n :: ts => (readVal (",".intercalate ts)).map (.assign n)
  | ["var", n] => some (.var n)
  | "call" :: n :: ts =>
    match readVal (",".intercalate ts) with
    | some (.list args) => some (.call n args)
    | _ => Option.none
  | ["undefq", n] => some (.undefq n)
  | ["defn", n, c] => c.toNat?.map (.defn n)
  | [n] => some (.var n)               -- a bare name (what `str(KGSym)` sends) reads the variable
  | _ => Option.none

/-- the interpreter the driver runs the dispatch model over -/
def Mini : Interp Store where
  evalText := fun s t => (parseExpr t).bind (evalExpr s)
  get := Store.get
  set := Store.set
  call := miniCall

structure State where
  store : Store := builtins
  singleton : Bool := true

def init : State := {}

def showStore (s : Store) : String :=
  let es := s.map (fun p => (p.1, showVal p.2))
  let sorted := es.mergeSort (fun a b => decide (a.1 ≤ b.1))
  ";".intercalate (sorted.map (fun p => p.1 ++ ":" ++ p.2))

def reply (st : State) (r : Option (Store × Val)) : State × String :=
  match r with
  | Option.none => (st, "raise store=" ++ showStore st.store)
  | some (s', v) =>
    ({ st with store := s' },
     s!"ok res={showVal v} undef={if v.isUndef then 1 else 0} store={showStore s'}")

def showTail : Tail → String
  | .eof .id 0 16 => "clean"
  | .eof .id p e => s!"inside:id:{p}:{e}"
  | .eof .len p e => s!"inside:len:{p}:{e}"
  | .eof .body p e => s!"inside:body:{p}:{e}"
  | .fuel => "fuel"

def showMsgs (ms : List Msg) : String :=
  ",".intercalate (ms.map (fun m => toHex m.id ++ "/" ++ toHex m.body))

def parseChunks (s : String) : Option (List Bytes) :=
  ((s.splitOn ",").map (fun h => parseHex h)).mapM id

def handle (st : State) (ws : List String) : State × String :=
  match ws with
  | "decode" :: rest =>
    -- decode chunks=<hex>,<hex>,…   (an empty piece is an empty read; `chunks=-` is no read at all)
    let fs := fields rest
    match field fs "chunks" with
    | some "-" => let r := decodeStream []; (st, s!"msgs={showMsgs r.1} tail={showTail r.2}")
    | some c =>
      match parseChunks c with
      | some chunks => let r := decodeStream chunks; (st, s!"msgs={showMsgs r.1} tail={showTail r.2}")
      | Option.none => (st, "bad-op")
    | Option.none => (st, "bad-op")
  | "encode" :: rest =>
    let fs := fields rest
    match (field fs "id").bind parseHex, (field fs "body").bind parseHex with
    | some i, some b => (st, "frame=" ++ toHex (encode ⟨i, b⟩))
    | _, _ => (st, "bad-op")
  | "be32" :: rest =>
    match natField (fields rest) "n" with
    | some n => (st, "hex=" ++ toHex (be32 n))
    | Option.none => (st, "bad-op")
  | "unbe32" :: rest =>
    match (field (fields rest) "hex").bind parseHex with
    | some [a, b, c, d] => (st, s!"n={unbe32 [a, b, c, d]}")
    | _ => (st, "bad-op")
  | "new" :: rest =>
    match field (fields rest) "singleton" with
    | some "1" => ({ store := builtins, singleton := true }, "ok store=" ++ showStore builtins)
    | some "0" => ({ store := builtins, singleton := false }, "ok store=" ++ showStore builtins)
    | _ => (st, "bad-op")
  | "apply" :: rest =>
    -- f(x): x a string (text), a symbol, or a list headed by a symbol
    match (field (fields rest) "x").bind readVal with
    | some (.str e) => reply st (remoteStep (tau st.singleton) Mini st.store (.text e))
    | some (.sym n) => reply st (remoteStep (tau st.singleton) Mini st.store (.sym n))
    | some (.list (.sym n :: args)) => reply st (remoteStep (tau st.singleton) Mini st.store (.call n args))
    | some _ => (st, "unmodelled")
    | Option.none => (st, "bad-op")
  | "proxy" :: rest =>
    let fs := fields rest
    match field fs "name", natField fs "arity", (field fs "args").bind readVal with
    | some n, some a, some (.list args) =>
      reply st (remoteStep (tau st.singleton) Mini st.store (.proxy n a args))
    | _, _, _ => (st, "bad-op")
  | "dget" :: rest =>
    match field (fields rest) "name" with
    | some n => reply st (remoteStep (tau st.singleton) Mini st.store (.get n))
    | Option.none => (st, "bad-op")
  | "dset" :: rest =>
    let fs := fields rest
    match field fs "name", (field fs "val").bind readVal with
    | some n, some v => reply st (remoteStep (tau st.singleton) Mini st.store (.set n v))
    | _, _ => (st, "bad-op")
  | _ => (st, "bad-op")

end Klong.C13
