/-
  C02 — adverbs.  `ref*` = the manual's definitional expansion written as plain applications
  of the verb; `impl*` = klongpy/adverbs.py (list comprehensions, functools.reduce,
  itertools.accumulate, the operator shortcuts selected by `op`), both over an arbitrary
  monad `m` so that the verb may have effects (logging Python callables, failing verbs):
  equality of the monadic programs means same calls, same order, same result.
-/
import Klong.Model.C01
namespace Klong.C02
open Klong Klong.C01

section generic
variable {m : Type → Type} [Monad m]

abbrev V1 (m : Type → Type) := Val → m Val
abbrev V2 (m : Type → Type) := Val → Val → m Val

/-- the elements an adverb iterates over: list members, or the characters of a string -/
def elems : Val → Option (List Val)
  | .list xs => some xs
  | .str cs => some (cs.map .chr)
  | _ => none

/-! ### reference (manual text) -/

/-- f(...f(f(acc;x1);x2)...;xN) -/
def refFold (f : V2 m) (acc : Val) : List Val → m Val
  | [] => pure acc
  | x :: xs => do let r ← f acc x; refFold f r xs

/-- the prefixes of that fold, starting with `acc` itself -/
def refScan (f : V2 m) (acc : Val) : List Val → m (List Val)
  | [] => pure [acc]
  | x :: xs => do let r ← f acc x; let rs ← refScan f r xs; pure (acc :: rs)

/-- f(a1),...,f(aN) -/
def refMap (f : V1 m) : List Val → m (List Val)
  | [] => pure []
  | x :: xs => do let r ← f x; let rs ← refMap f xs; pure (r :: rs)

/-- f(a1;b1),...,f(aN;bN) -/
def refZipWith (f : V2 m) : List Val → List Val → m (List Val)
  | x :: xs, y :: ys => do let r ← f x y; let rs ← refZipWith f xs ys; pure (r :: rs)
  | _, _ => pure []

/-- f/a : Over -/
def refOver (f : V2 m) (a : Val) : m Val :=
  match elems a with
  | some (x :: xs) => refFold f x xs
  | _ => pure a

/-- a f/b : Over-Neutral -/
def refOverNeutral (f : V2 m) (a b : Val) : m Val :=
  match elems b with
  | some xs => refFold f a xs
  | none => f a b

/-- f\a : Scan-Over -/
def refScanOver (f : V2 m) (a : Val) : m Val :=
  match elems a with
  | some (x :: xs) => do let r ← refScan f x xs; pure (.list r)
  | _ => pure a

/-- a f\b : Scan-Over-Neutral -/
def refScanOverNeutral (f : V2 m) (a b : Val) : m Val :=
  match elems b with
  | some [] => pure a
  | some xs => do let r ← refScan f a xs; pure (.list r)
  | none => do let r ← f a b; pure (.list [a, r])

/-- f'a : Each -/
def refEach (f : V1 m) (a : Val) : m Val :=
  match a with
  | .list [] => pure a
  | .list xs => do let r ← refMap f xs; pure (.list r)
  | a => f a

/-- a f:\b : Each-Left — f(a;b1),...,f(a;bN) -/
def refEachLeft (f : V2 m) (a b : Val) : m Val :=
  match elems b with
  | some xs => do let r ← refMap (fun x => f a x) xs; pure (.list r)
  | none => f a b

/-- a f:/b : Each-Right — f(b1;a),...,f(bN;a) -/
def refEachRight (f : V2 m) (a b : Val) : m Val :=
  match elems b with
  | some xs => do let r ← refMap (fun x => f x a) xs; pure (.list r)
  | none => f b a

/-- f:'a : Each-Pair — f(a1;a2),f(a2;a3),... -/
def refEachPair (f : V2 m) (a : Val) : m Val :=
  match elems a with
  | some (x :: y :: r) => do let rs ← refZipWith f (x :: y :: r) (y :: r); pure (.list rs)
  | _ => pure a

/-- a f:*b : Iterate — f applied a times to b -/
def refIterate (f : V1 m) : Nat → Val → m Val
  | 0, b => pure b
  | n + 1, b => do let r ← f b; refIterate f n r

/-- a f\*b : Scan-Iterating — b, f(b), f(f(b)), ... (a+1 values) -/
def refScanIter (f : V1 m) : Nat → Val → m (List Val)
  | 0, b => pure [b]
  | n + 1, b => do let r ← f b; let rs ← refScanIter f n r; pure (b :: rs)

/-! ### implementation (adverbs.py) -/

/-- `functools.reduce(f, xs, acc)` -/
def pyReduce (f : V2 m) (acc : Val) (xs : List Val) : m Val := xs.foldlM f acc

/-- `[f(x) for x in xs]` -/
def pyComp (f : V1 m) (xs : List Val) : m (List Val) := xs.mapM f

/-- `list(itertools.accumulate(xs, f))` for non-empty xs -/
def pyAccumulate (f : V2 m) : Val → List Val → List Val → m (List Val)
  | acc, [], out => pure (out.reverse ++ [acc])
  | acc, x :: xs, out => do let r ← f acc x; pyAccumulate f r xs (acc :: out)

/-- `eval_adverb_over(f, a, op)`; `short` is the operator shortcut chosen by `op`
    (`none`: no shortcut applies), which bypasses `f` altogether -/
def implOver (f : V2 m) (short : Option (List Val → m Val)) (a : Val) : m Val :=
  match elems a with
  | some [x] => pure x
  | some (x :: xs) =>
    match short with
    | some s => s (x :: xs)
    | none => pyReduce f x xs
  | _ => pure a

/-- `eval_adverb_over_neutral`: `reduce(f, b[1:], f(a, b[0]))` -/
def implOverNeutral (f : V2 m) (a b : Val) : m Val :=
  match elems b with
  | some [] => pure a
  | some (x :: xs) => do let r ← f a x; pyReduce f r xs
  | none => f a b

/-- `eval_adverb_scan_over` -/
def implScanOver (f : V2 m) (short : Option (List Val → m Val)) (a : Val) : m Val :=
  match elems a with
  | some (x :: xs) =>
    match short with
    | some s => s (x :: xs)
    | none => do let r ← pyAccumulate f x xs []; pure (.list r)
  | _ => pure a

/-- `eval_adverb_scan_over_neutral`: `b = [f(a,b0), *b[1:]]; [a, *accumulate(b, f)]` -/
def implScanOverNeutral (f : V2 m) (a b : Val) : m Val :=
  match elems b with
  | some [] => pure a
  | some (x :: xs) => do
    let r0 ← f a x
    let r ← pyAccumulate f r0 xs []
    pure (.list (a :: r))
  | none => do let r0 ← f a b; pure (.list [a, r0])

def implEach (f : V1 m) (a : Val) : m Val :=
  match a with
  | .list [] => pure a
  | .list xs => do let r ← pyComp f xs; pure (.list r)
  | a => f a

def implEachLeft (f : V2 m) (a b : Val) : m Val :=
  match elems b with
  | some xs => do let r ← pyComp (fun x => f a x) xs; pure (.list r)
  | none => f a b

def implEachRight (f : V2 m) (a b : Val) : m Val :=
  match elems b with
  | some xs => do let r ← pyComp (fun x => f x a) xs; pure (.list r)
  | none => f b a

/-- `[f(x, y) for x, y in zip(a[:], a[1:])]` -/
def pyZipComp (f : V2 m) : List Val → List Val → m (List Val)
  | x :: xs, y :: ys => do let r ← f x y; let rs ← pyZipComp f xs ys; pure (r :: rs)
  | _, _ => pure []

def implEachPair (f : V2 m) (a : Val) : m Val :=
  match elems a with
  | some [] => pure a
  | some [_] => pure a
  | some xs => do let r ← pyZipComp f xs (xs.drop 1); pure (.list r)
  | none => pure a

/-- `while not a == 0: b = f(b); a = a - 1` -/
def implIterate (f : V1 m) : Nat → Val → m Val
  | 0, b => pure b
  | n + 1, b => do let r ← f b; implIterate f n r

def implScanIterAux (f : V1 m) : Nat → Val → List Val → m (List Val)
  | 0, _, out => pure out.reverse
  | n + 1, b, out => do let r ← f b; implScanIterAux f n r (r :: out)

/-- `eval_adverb_scan_iterating` (a > 0): r = [b]; loop: b = f(b); r.append(b) -/
def implScanIter (f : V1 m) (n : Nat) (b : Val) : m (List Val) := implScanIterAux f n b [b]

end generic

/-! ### the operator shortcuts of `eval_adverb_over` / `eval_adverb_scan_over`

`np.add.reduce(a)` etc. over axis 0: numpy defines `ufunc.reduce` as the left fold of the
ufunc over the first axis; the ufunc on two rows is the atomic dyad of C01.  `np.min`/`np.max`
are only used for rank 1. -/

def liftOpt : Option Val → Option Val := id

def ufuncReduce (op : AOp) : List Val → Option Val
  | [] => none
  | x :: xs => xs.foldlM (fun acc y => implA2 (scalar2 op) acc y) x

def ufuncAccumulate (op : AOp) : List Val → Option Val
  | [] => none
  | x :: xs => (go x xs).map (fun r => .list (x :: r))
where
  go (acc : Val) : List Val → Option (List Val)
    | [] => some []
    | y :: ys => do
      let r ← implA2 (scalar2 op) acc y
      let rs ← go r ys
      pure (r :: rs)

/-- which operator verbs take a shortcut in Over, and on which operands -/
def overShortcut (opch : String) (xs : List Val) : Option (List Val → Option Val) :=
  match opch with
  | "+" => some (ufuncReduce .add)
  | "-" => some (ufuncReduce .sub)
  | "*" => some (ufuncReduce .mul)
  | "&" => if (asNums xs).isSome then some (ufuncReduce .min) else none
  | "|" => if (asNums xs).isSome then some (ufuncReduce .max) else none
  | _ => none

def scanShortcut (opch : String) : Option (List Val → Option Val) :=
  match opch with
  | "+" => some (ufuncAccumulate .add)
  | "-" => some (ufuncAccumulate .sub)
  | "*" => some (ufuncAccumulate .mul)
  | _ => none

/-! ### concrete verbs and the logging monad of the driver -/

/-- Join, for the verbs of the closed set -/
def refJoin : Val → Val → Option Val
  | .list xs, .list ys => some (.list (xs ++ ys))
  | .list xs, b => some (.list (xs ++ [b]))
  | a, .list ys => some (.list (a :: ys))
  | .str a, .str b => some (.str (a ++ b))
  | .str a, .chr c => some (.str (a ++ [c]))
  | .chr c, .str b => some (.str (c :: b))
  | .chr a, .chr b => some (.str [a, b])
  | a, b => some (.list [a, b])

def dyadVerb (name : String) (a b : Val) : Option Val :=
  match name with
  | "," => refJoin a b
  | "{x-y}" => refDyad "-" a b
  | "{y-x}" => refDyad "-" b a
  | "{(2*x)+y}" => (refDyad "*" (.int 2) a).bind fun t => refDyad "+" t b
  | "{x,y}" => refJoin a b
  | "{x,,y}" => refJoin a (match b with | .chr c => .str [c] | _ => .list [b])   -- ,0ca is "a"
  | op => refDyad op a b

def monadVerb (name : String) (a : Val) : Option Val :=
  match name with
  | "{x+1}" => refDyad "+" a (.int 1)
  | "{-x}" => refMonad "-" a
  | "{x,x}" => refJoin a a
  | "{#x}" => refMonad "#" a
  | "{,x}" => some (match a with | .chr c => .str [c] | _ => .list [a])
  | "{x}" => some a
  | _ => none

/-- logging monad: state = the verb's calls so far, failure = the verb raised -/
abbrev LogM := StateT (List (List Val)) Option

def logged2 (name : String) : V2 LogM := fun a b => do
  modify (· ++ [[a, b]])
  match dyadVerb name a b with
  | some v => pure v
  | none => failure

def logged1 (name : String) : V1 LogM := fun a => do
  modify (· ++ [[a]])
  match monadVerb name a with
  | some v => pure v
  | none => failure

def liftShort (s : List Val → Option Val) : List Val → LogM Val := fun xs =>
  match s xs with
  | some v => pure v
  | none => failure

/-! ### driver -/

def showLog (l : List (List Val)) : String :=
  "|".intercalate (l.map fun args => ",".intercalate (args.map Val.toWire))

def showRun (r : Option (Val × List (List Val))) : String :=
  match r with
  | some (v, log) => s!"ok:{v.toWire} log={showLog log}"
  | none => "err log="

def natOf : Val → Option Nat
  | .int n => if n < 0 then none else some n.toNat
  | _ => none

/-- run adverb `adv` with verb `verb` (shortcuts keyed by `op`, "" = none) -/
def runAdverb (impl : Bool) (adv verb op : String) (args : List Val) : String :=
  let f2 := logged2 verb
  let f1 := logged1 verb
  let r : Option (Option (Val × List (List Val))) :=
    match adv, args with
    | "/", [a] =>
      let short := if impl then ((elems a).bind (overShortcut op)).map liftShort else none
      some (((if impl then implOver f2 short a else refOver f2 a)).run [])
    | "/", [a, b] => some ((if impl then implOverNeutral f2 a b else refOverNeutral f2 a b).run [])
    | "\\", [a] =>
      let short := if impl then (scanShortcut op).map liftShort else none
      some ((if impl then implScanOver f2 short a else refScanOver f2 a).run [])
    | "\\", [a, b] => some ((if impl then implScanOverNeutral f2 a b else refScanOverNeutral f2 a b).run [])
    | "'", [a] => some ((if impl then implEach f1 a else refEach f1 a).run [])
    | ":\\", [a, b] => some ((if impl then implEachLeft f2 a b else refEachLeft f2 a b).run [])
    | ":/", [a, b] => some ((if impl then implEachRight f2 a b else refEachRight f2 a b).run [])
    | ":'", [a] => some ((if impl then implEachPair f2 a else refEachPair f2 a).run [])
    | ":*", [a, b] => (natOf a).map fun n => ((if impl then implIterate f1 n b else refIterate f1 n b).run [])
    | "\\*", [a, b] => (natOf a).map fun n =>
        ((do let r ← (if impl then implScanIter f1 n b else refScanIter f1 n b)
             pure (if n = 0 then b else Val.list r) : LogM Val).run [])
    | _, _ => none
  match r with
  | some x => showRun x
  | none => "unmodelled"

structure State where
  unit : Unit := ()

def init : State := {}

/-- request: `adv <adverb> <verb> <op|-> <args…>` -/
def handle (s : State) (ws : List String) : State × String :=
  match ws with
  | "adv" :: adv :: verb :: op :: rest =>
    match Val.parseMany (Val.tokenize (" ".intercalate rest)) with
    | some args =>
      let op := if op == "-none-" then "" else op
      (s, "ref=" ++ runAdverb false adv verb op args ++ " impl=" ++ runAdverb true adv verb op args)
    | none => (s, "bad-op")
  | _ => (s, "bad-op")

end Klong.C02
