/-
  C16 — sequential semantics of klongpy/db/file_cache.py `FileCache` (one client, every
  worker run to completion as `future.result()` guarantees), the key-value store on top
  of it, and the table store's merge.

  Mirrors:
    FileCache.update_file            -> `update`
    FileCache.get_file               -> `get`
    FileCache.unload_file            -> `unload`
    FileCache.recover_memory         -> relational: the eviction choice `ev` is an input,
                                        `legalEv` says which choices are allowed
    FileCache.__init__ on a directory-> `reopen`
    PandasDataFrameCache.update      -> `merge`
-/
import Klong.Model.Wire
namespace Klong.C16
open Klong.Wire

abbrev Name := String

structure Entry where
  name : Name
  size : Nat
  data : Bytes
deriving Repr, DecidableEq

abbrev Disk := List (Name × Bytes)

def Disk.get (d : Disk) (n : Name) : Option Bytes := List.lookup n d
def Disk.set (d : Disk) (n : Name) (b : Bytes) : Disk := (n, b) :: d.filter (fun p => p.1 != n)

structure Cache where
  max : Nat
  mem : Int
  entries : List Entry        -- oldest access first
  disk : Disk
deriving Repr

def sizes (es : List Entry) : Int := (es.map (fun e => (e.size : Int))).sum

def names (es : List Entry) : List Name := es.map (·.name)

/-- entries not named in `ev` -/
def evict (es : List Entry) (ev : List Name) : List Entry := es.filter (fun e => !ev.contains e.name)

/-- entries other than `n` -/
def without (es : List Entry) (n : Name) : List Entry := evict es [n]

/-- entries named in `ev` -/
def gone (es : List Entry) (ev : List Name) : List Entry := es.filter (fun e => ev.contains e.name)

/-- what `recover_memory(claim)` may do, starting from byte total `mem`: drop a set of
    cached, non-writing entries so that the claim fits (`mem - Σ evicted + claim ≤ max`).
    (Sequentially no entry is `writing`, and `claim ≤ max`, so evicting everything is
    always enough; the code's LRU order is one legal choice.) -/
def legalEv (es : List Entry) (ev : List Name) (mem : Int) (max : Nat) (claim : Nat) : Bool :=
  ev.all (fun n => (names es).contains n) &&
  decide (mem - sizes (gone es ev) + claim ≤ max)

inductive Op
  | update (n : Name) (d : Bytes) (ev : List Name)
  | get (n : Name) (ev : List Name)
  | unload (n : Name)
  | reopen
  | reopenWith (max : Nat)      -- another store object on the same directory, with another limit
deriving Repr

inductive Out
  | applied
  | data (b : Bytes)
  | notFound
  | memErr
  | done
  | illegal        -- the eviction choice sent with the operation is not legal
deriving Repr, DecidableEq

def init (max : Nat) (disk : Disk) : Cache := { max, mem := 0, entries := [], disk }

def update (s : Cache) (n : Name) (d : Bytes) (ev : List Name) : Cache × Out :=
  if d.length > s.max then (s, .memErr)
  else
    -- `_unload_file(n)` under the lock, then the worker: write, `recover_memory`, re-enter
    let es := without s.entries n
    let mem1 := s.mem - sizes (gone s.entries [n])
    if legalEv es ev mem1 s.max d.length then
      ({ s with mem := mem1 - sizes (gone es ev) + d.length
              , entries := evict es ev ++ [⟨n, d.length, d⟩]
              , disk := s.disk.set n d }, .applied)
    else (s, .illegal)

def get (s : Cache) (n : Name) (ev : List Name) : Cache × Out :=
  match s.disk.get n with
  | none => (s, .notFound)
  | some b =>
    if b.length > s.max then (s, .memErr)
    else
      match s.entries.find? (fun e => e.name == n) with
      | some e =>
        -- cached: touch, return the contents the future holds
        if ev.isEmpty then
          ({ s with entries := without s.entries n ++ [e] }, .data e.data)
        else (s, .illegal)
      | none =>
        if legalEv s.entries ev s.mem s.max b.length then
          ({ s with mem := s.mem - sizes (gone s.entries ev) + b.length
                  , entries := evict s.entries ev ++ [⟨n, b.length, b⟩] }, .data b)
        else (s, .illegal)

def unload (s : Cache) (n : Name) : Cache × Out :=
  ({ s with mem := s.mem - sizes (gone s.entries [n]), entries := without s.entries n }, .done)

def step (s : Cache) : Op → Cache × Out
  | .update n d ev => update s n d ev
  | .get n ev => get s n ev
  | .unload n => unload s n
  | .reopen => (init s.max s.disk, .done)
  | .reopenWith m => (init m s.disk, .done)

def run (s : Cache) : List Op → Cache × List Out
  | [] => (s, [])
  | op :: ops =>
    let (s1, o) := step s op
    let (s2, os) := run s1 ops
    (s2, o :: os)

/-! ### abstract specification: a finite map from names to byte strings -/

abbrev Spec := Name → Option Bytes

def abs (s : Cache) : Spec := fun n => s.disk.get n

def specStep (max : Nat) (m : Spec) : Op → Spec × Out
  | .update n d _ =>
    if d.length > max then (m, .memErr) else ((fun k => if k = n then some d else m k), .applied)
  | .get n _ =>
    match m n with
    | none => (m, .notFound)
    | some b => if b.length > max then (m, .memErr) else (m, .data b)
  | .unload _ => (m, .done)
  | .reopen => (m, .done)
  | .reopenWith _ => (m, .done)

/-- the limit in force after an operation -/
def nextMax (max : Nat) : Op → Nat
  | .reopenWith m => m
  | _ => max

def specRun (max : Nat) (m : Spec) : List Op → Spec × List Out
  | [] => (m, [])
  | op :: ops =>
    let (m1, o) := specStep max m op
    let (m2, os) := specRun (nextMax max op) m1 ops
    (m2, o :: os)

/-! ### invariant -/

structure Inv (s : Cache) : Prop where
  acct : s.mem = sizes s.entries
  bound : s.mem ≤ s.max
  nodup : (names s.entries).Nodup
  fresh : ∀ e ∈ s.entries, s.disk.get e.name = some e.data ∧ e.size = e.data.length

/-! ### table store: documented merge (sort by index, existing rows win) -/

abbrev Row := List Int
abbrev Frame := List (Int × Row)

/-- stable insertion sort by key (later equal keys go after earlier ones) -/
def sortFrame : Frame → Frame
  | [] => []
  | p :: ps => insertSortedFront p (sortFrame ps)
where
  /-- insert in front of equal keys, so that folding from the right is stable -/
  insertSortedFront (p : Int × Row) : Frame → Frame
    | [] => [p]
    | q :: qs => if p.1 ≤ q.1 then p :: q :: qs else q :: insertSortedFront p qs

/-- drop rows whose key equals the previous kept key -/
def dedupAux (last : Int) : Frame → Frame
  | [] => []
  | q :: rest => if q.1 = last then dedupAux last rest else q :: dedupAux q.1 rest

/-- keep the first row of every run of equal keys -/
def dedupFirst : Frame → Frame
  | [] => []
  | p :: rest => p :: dedupAux p.1 rest

/-- `PandasDataFrameCache.update`: concat, sort_index, drop duplicated index keep first -/
def merge (old new : Frame) : Frame := dedupFirst (sortFrame (old ++ new))

/-- reference: the row a key must hold after merging -/
def mergeLookup (old new : Frame) (k : Int) : Option Row :=
  (old.lookup k).or (new.lookup k)

/-! ### driver -/

def showEntries (es : List Entry) : String :=
  let sorted := (es.map fun e => s!"{e.name}@{e.size}").toArray.qsort (· < ·)
  ",".intercalate sorted.toList

def showDisk (d : Disk) : String :=
  let sorted := (d.map fun p => s!"{p.1}@{toHex p.2}").toArray.qsort (· < ·)
  ",".intercalate sorted.toList

def digest (s : Cache) : String :=
  s!"mem={s.mem} entries={showEntries s.entries} disk={showDisk s.disk}"

def showOut : Out → String
  | .applied => "applied"
  | .data b => s!"data:{toHex b}"
  | .notFound => "notfound"
  | .memErr => "memerr"
  | .done => "done"
  | .illegal => "illegal"

def parseFrame (s : String) : Option Frame :=
  (splitOnChar s ';').mapM fun item =>
    match item.splitOn ":" with
    | [k, vs] => do
      let k ← k.toInt?
      let vs ← (splitOnChar vs ',').mapM String.toInt?
      pure (k, vs)
    | _ => none

def showFrame (f : Frame) : String :=
  ";".intercalate (f.map fun p => s!"{p.1}:{",".intercalate (p.2.map toString)}")

def handle (s : Cache) (ws : List String) : Cache × String :=
  match ws with
  | "new" :: rest =>
    let fs := fields rest
    match natField fs "max" with
    | some m => let s' := init m []; (s', "ok " ++ digest s')
    | none => (s, "bad-op")
  | "update" :: rest =>
    let fs := fields rest
    match parseHex (fieldD fs "data") with
    | some d =>
      let (s', o) := update s (fieldD fs "name") d (listField fs "ev")
      (s', showOut o ++ " " ++ digest s')
    | none => (s, "bad-op")
  | "get" :: rest =>
    let fs := fields rest
    let (s', o) := get s (fieldD fs "name") (listField fs "ev")
    (s', showOut o ++ " " ++ digest s')
  | "unload" :: rest =>
    let fs := fields rest
    let (s', o) := unload s (fieldD fs "name")
    (s', showOut o ++ " " ++ digest s')
  | "reopen" :: rest =>
    let fs := fields rest
    let (s', o) := match (fieldD fs "max").toNat? with
      | some m => step s (.reopenWith m)
      | none => step s .reopen
    (s', showOut o ++ " " ++ digest s')
  | "merge" :: rest =>
    let fs := fields rest
    match parseFrame (fieldD fs "old"), parseFrame (fieldD fs "new") with
    | some o, some n => (s, "frame=" ++ showFrame (merge o n))
    | _, _ => (s, "bad-op")
  | _ => (s, "bad-op")

end Klong.C16
