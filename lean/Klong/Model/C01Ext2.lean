/-
  C01 extension 2 — implementation models (mirroring the Python of monads.py / dyads.py) for
  further verbs; the reference for them is in Klong.Model.C01 (refDyad / refMonad).

  Verbs: Expand/Where `&a`, Range `?a`, Group `=a`, Grade-Up and Grade-Down `<a` `>a`, Shape `^a`,
  Transpose `+a`, Floor `_a`, Reshape `a:^b`.

  numpy calls are modelled as list functions with their documented semantics:
    np.repeat(np.arange(n), counts)          npRepeatArange
    sorted / np.sort(kind=stable)            isort (stable insertion sort)
    np.argsort (ties by position)            npArgsort
    np.unique(return_index, return_inverse)  npUnique  (sorted unique values, first index, inverse)
    np.where(v == i)[0]                      npWhereEq
    dict.fromkeys / the set()-of-str loop    pyDedupBy
    np.asarray(nest).shape / ValueError      npShapeA
    np.transpose (rank 2)                    npTranspose2
    np.tile / concatenate / resize / reshape tile (base model), npResizeFlat, npReshape
  Every operand class that is not modelled returns `.unmodelled` explicitly.
-/
import Klong.Model.C01
namespace Klong.C01.Ext2
open Klong Klong.C01

/-! ## operand classes -/

/-- a list of integers: what `kg_asarray` stores as a rank-1 int64 array -/
def asInts : List Val → Option (List Int)
  | [] => some []
  | .int n :: r => (asInts r).map (n :: ·)
  | _ => none

def ofInts (ns : List Int) : List Val := ns.map .int

def ofNats (ns : List Nat) : List Val := ns.map fun (i : Nat) => Val.int (i : Int)

/-- all members are lists -/
def asRows : List Val → Option (List (List Val))
  | [] => some []
  | .list r :: rest => (asRows rest).map (r :: ·)
  | _ => none

/-- all rows are integer vectors (a rank-2 int64 array when the lengths agree) -/
def asIntRows : List Val → Option (List (List Int))
  | [] => some []
  | .list r :: rest =>
    match asInts r, asIntRows rest with
    | some ns, some rs => some (ns :: rs)
    | _, _ => none
  | _ => none

/-! ## Expand / Where  (monads.py eval_monad_expand_where)

    arr = a if is_list(a) else [a]
    if len(arr) == 0: return bknp.arange(0)
    return bknp.repeat(bknp.arange(len(arr)), arr)                                        -/

/-- `np.repeat(np.arange(i, i + len cs), cs)` -/
def npRepeatArange (i : Nat) : List Nat → List Val
  | [] => []
  | c :: cs => List.replicate c (Val.int (i : Int)) ++ npRepeatArange (i + 1) cs

def implExpand : Val → Res
  | .int n =>                                   -- arr = [a]
    if n < 0 then .err                          -- np.repeat: negative dimensions are not allowed
    else .ok (.list (npRepeatArange 0 [n.toNat]))
  | .list [] => .ok (.list [])                  -- len(arr) == 0
  | .list xs =>
    match asInts xs with
    | some ns =>
      if ns.any (· < 0) then .err               -- repeats may not contain negative values
      else .ok (.list (npRepeatArange 0 (ns.map Int.toNat)))
    | none => .unmodelled                       -- reals (TypeError), nested (ValueError), text
  | _ => .unmodelled                            -- real atom (truncated by numpy), text atoms

/-! ## sorting (Python `sorted`, numpy stable sorts) -/

def insertBy {α} (le : α → α → Bool) (x : α) : List α → List α
  | [] => [x]
  | y :: ys => if le x y then x :: y :: ys else y :: insertBy le x ys

/-- stable insertion sort: an element is placed before the later elements it is `le` to -/
def isort {α} (le : α → α → Bool) : List α → List α
  | [] => []
  | x :: xs => insertBy le x (isort le xs)

/-- order of `(key, position)` tuples: Python tuple comparison in `kg_argsort`'s `_e`, and the
    position tie-break of a stable argsort -/
def lexLe (p q : Int × Nat) : Bool := p.1 < q.1 || (p.1 == q.1 && p.2 ≤ q.2)

/-- `sorted(range(len(a)), key=lambda x: (a[x], x))` (writer.py kg_argsort, slow path) and
    `np.argsort(a, kind='stable')` -/
def npArgsort (keys : List Int) : List Nat := (isort lexLe keys.zipIdx).map (·.2)

/-! ## Grade-Up / Grade-Down  (monads.py eval_monad_grade_up/down, writer.py kg_argsort)

    if not is_iterable(a) or len(a) == 0: return a
    if a.ndim == 1 and dtype kind in 'ifu': return backend.argsort(a, descending)
        # numpy_backend.argsort: indices = np.argsort(a); if descending: indices[::-1]
    return np.asarray(sorted(range(len(a)), key=_e, reverse=descending))   # _e(x) = (a[x], x)

  `np.argsort(a)` uses numpy's default (not stable) sort: the result is *a* sorting permutation;
  it is determined only when the keys are distinct, so integer vectors with repeated elements
  are `.unmodelled`.  For strings the keys `(char, position)` are all distinct: `reverse=True`
  gives exactly the reversed ascending order. -/

def gradeUp (keys : List Int) : List Nat := npArgsort keys

def gradeDown (keys : List Int) : List Nat := (npArgsort keys).reverse

def allDistinct : List Int → Bool
  | [] => true
  | x :: xs => !xs.contains x && allDistinct xs

def implGrade (down : Bool) : Val → Res
  | .list [] => .ok (.list [])                  -- len(a) == 0: return a
  | .str [] => .ok (.list [])                   -- kg_asarray(""): empty array
  | .str cs =>
    let keys := cs.map fun (c : Nat) => (c : Int)
    .ok (.list (ofNats (if down then gradeDown keys else gradeUp keys)))
  | .list xs =>
    match asInts xs with
    | some ns =>
      if allDistinct ns then .ok (.list (ofNats (if down then gradeDown ns else gradeUp ns)))
      else .unmodelled                          -- ties: numpy's default argsort is not stable
    | none => .unmodelled                       -- reals, nested lists, lists of strings
  | _ => .unmodelled

/-! ## np.unique, np.where -/

/-- Python `dict.fromkeys(a)` and the `set()` loop of Range: keep the first element of every
    key, in order of appearance; `seen` is the set built so far -/
def pyDedupBy {α κ} [BEq κ] (key : α → κ) : List κ → List α → List α
  | _, [] => []
  | seen, x :: xs =>
    if seen.contains (key x) then pyDedupBy key seen xs
    else x :: pyDedupBy key (key x :: seen) xs

/-- `np.unique(arr, return_index=True, return_inverse=True)`: the sorted unique values, the index
    of the first occurrence of each, and for every element the position of its value -/
def npUnique {α} [BEq α] (le : α → α → Bool) (xs : List α) : List α × List Nat × List Nat :=
  let vals := isort le (pyDedupBy id [] xs)
  (vals, vals.map (fun v => xs.idxOf v), xs.map (fun x => vals.idxOf x))

/-- `np.where(inv == i)[0]` -/
def npWhereEq (inv : List Nat) (i : Nat) : List Nat :=
  (inv.zipIdx.filter (fun p => p.1 == i)).map (·.2)

def intLe (a b : Int) : Bool := decide (a ≤ b)

/-! ## Group  (monads.py eval_monad_groupby)

    arr = backend.kg_asarray(a)
    if backend.array_size(arr) == 0: return arr
    vals, first, inverse = bknp.unique(arr, return_index=True, return_inverse=True)
    groups = [bknp.where(inverse == i)[0] for i in bknp.argsort(first)]
    return backend.kg_asarray(groups)                                                     -/

def implGroupKeys (keys : List Int) : List (List Nat) :=
  let u := npUnique intLe keys
  (npArgsort (u.2.1.map fun (i : Nat) => (i : Int))).map (npWhereEq u.2.2)

def groupsVal (gs : List (List Nat)) : Val := .list (gs.map fun g => .list (ofNats g))

def asChars : List Val → Option (List Nat)
  | [] => some []
  | .chr c :: r => (asChars r).map (c :: ·)
  | _ => none

def implGroup : Val → Res
  | .list [] => .ok (.list [])                  -- array_size == 0: return arr
  | .str [] => .ok (.list [])
  | .str cs => .ok (groupsVal (implGroupKeys (cs.map fun (c : Nat) => (c : Int))))
  | .list xs =>
    match asInts xs with
    | some ns => .ok (groupsVal (implGroupKeys ns))
    | none =>
      match asChars xs with                     -- object array of KGChar: ordered by code point
      | some cs => .ok (groupsVal (implGroupKeys (cs.map fun (c : Nat) => (c : Int))))
      | none => .unmodelled                     -- reals, nested (np.unique flattens), mixed kinds
  | _ => .unmodelled

/-! ## Range  (monads.py eval_monad_range)

    if isinstance(a, str): return ''.join(dict.fromkeys(a))
    elif isarray(a):
        if dtype_kind != 'O' and a.ndim > 1:
            _, ids = bknp.unique(a_np, axis=0, return_index=True); ids.sort(); return a[ids]
        else:
            s = set(); arr = []
            for x in a:
                # (after 69a7d58) the text alone does not identify a member
                sx = (backend.is_number(x), isinstance(x, KGSym), is_list(x), str(x))
                if sx not in s: s.add(sx); arr.append(x)
            return backend.kg_asarray(arr)
    return a                                                                              -/

def natDigits : Nat → Nat → List Nat
  | 0, _ => []
  | fuel + 1, n => if n < 10 then [48 + n] else natDigits fuel (n / 10) ++ [48 + n % 10]

/-- Python `str(x)` (as code points) of the members of an object array that are modelled:
    integers, characters (KGChar is a str), strings, symbols (KGSym is a str) -/
def pyStr : Val → Option (List Nat)
  | .int n => some (if n < 0 then 45 :: natDigits (n.natAbs + 1) n.natAbs
                    else natDigits (n.natAbs + 1) n.natAbs)
  | .chr c => some [c]
  | .str cs => some cs
  | .sym cs => some cs
  | _ => none

def isSymV : Val → Bool
  | .sym _ => true
  | _ => false

def isListV : Val → Bool
  | .list _ => true
  | _ => false

/-- the key of the Range loop (after 69a7d58):
    `(backend.is_number(x), isinstance(x, KGSym), is_list(x), str(x))` -/
def rangeKey (x : Val) : Bool × Bool × Bool × Option (List Nat) :=
  (x.isNum, isSymV x, isListV x, pyStr x)

/-- lexicographic order of integer rows (np.unique(axis=0) sorts the rows as records) -/
def rowLe : List Int → List Int → Bool
  | [], _ => true
  | _ :: _, [] => false
  | a :: as, b :: bs => a < b || (a == b && rowLe as bs)

def natLe (a b : Nat) : Bool := decide (a ≤ b)

/-- the rank-2 path: `np.unique(axis=0, return_index=True)`, `ids.sort()`, `a[ids]` -/
def implRangeRows (rows : List (List Int)) : List (List Int) :=
  let ids := isort natLe (npUnique rowLe rows).2.1
  ids.map fun i => rows.getD i []

def implRange : Val → Res
  | .str cs => .ok (.str (pyDedupBy id [] cs))                -- ''.join(dict.fromkeys(a))
  | .list [] => .ok (.list [])
  | .list xs =>
    match asInts xs with
    | some ns => .ok (.list (ofInts (pyDedupBy id [] ns)))     -- str() is injective on int64
    | none =>
      match asIntRows xs with
      | some rows =>
        let m := (rows.headD []).length
        if m > 0 && rows.all (·.length == m) then
          .ok (.list ((implRangeRows rows).map fun r => .list (ofInts r)))
        else .unmodelled                                      -- ragged / empty rows
      | none =>
        if xs.all (fun x => (pyStr x).isSome) then            -- object vector of modelled atoms
          .ok (.list (pyDedupBy rangeKey [] xs))
        else .unmodelled                                      -- reals, nested members
  | _ => .unmodelled

/-! ## Shape  (monads.py eval_monad_shape, after 5eb2be5)

    def _a(x): return bknp.asarray([bknp.empty(len(y)) if (isinstance(y, str) and is_iterable(y))
                                    else (_a(y) if is_list(y) else y) for y in x])
    if is_atom(a): return 0
    if isinstance(a, str): return bknp.asarray([len(a)])
    try: return bknp.asarray(_a(a).shape)
    except ValueError: return bknp.asarray([len(a)])                                      -/

/-- shape of `_a(x)` for a list `x` (`npShapeA.elem`: of one member); `none` = `np.asarray`
    raises ValueError because the members are not all of one shape -/
def npShapeA : Val → Option (List Nat)
  | .list xs =>
    match shapes xs with
    | none => none
    | some [] => some [0]
    | some (s :: ss) => if ss.all (fun t => t == s) then some ((ss.length + 1) :: s) else none
  | .str cs => some [cs.length]                 -- np.empty(len(y)); KGSym / KGChar are scalars
  | .int _ => some []
  | .real _ => some []
  | .chr _ => some []
  | .sym _ => some []
  | _ => none
where
  shapes : List Val → Option (List (List Nat))
    | [] => some []
    | y :: ys =>
      match npShapeA y, shapes ys with
      | some s, some ss => some (s :: ss)
      | _, _ => none

/-- dictionaries / :undefined anywhere in the operand: not modelled -/
def hasOpaque : Val → Bool
  | .list xs => go xs
  | .dict _ => true
  | .undef => true
  | _ => false
where
  go : List Val → Bool
    | [] => false
    | y :: ys => hasOpaque y || go ys

def implShape (a : Val) : Res :=
  if hasOpaque a then .unmodelled else
  match a with
  | .list [] => .ok (.int 0)                    -- is_atom
  | .str [] => .ok (.int 0)
  | .str cs => .ok (.list [.int (cs.length : Nat)])
  | .list xs =>
    match npShapeA (.list xs) with
    | some s => .ok (.list (ofNats s))
    | none => .ok (.list [.int (xs.length : Nat)])            -- except ValueError
  | _ => .ok (.int 0)

/-! ## Transpose  (monads.py eval_monad_transpose: bknp.transpose(bknp.asarray(a))) -/

/-- `np.transpose` of a rank-2 array with `m` columns: result[j][i] = a[i][j] -/
def npTranspose2 (rows : List (List Val)) (m : Nat) : List (List Val) :=
  (List.range m).map fun j => rows.map fun r => r.getD j .undef

def isScalarMember : Val → Bool
  | .list _ => false
  | .dict _ => false
  | .undef => false
  | _ => true

def isInt : Val → Bool
  | .int _ => true
  | _ => false

def isReal : Val → Bool
  | .real _ => true
  | _ => false

/-- numpy keeps the kinds of the members: all integers, all reals, or an object array -/
def kindsKept (flat : List Val) : Bool :=
  flat.all isInt || flat.all isReal || flat.any (fun x => !x.isNum)

def implTranspose : Val → Res
  | .list [] => .ok (.list [])
  | .list xs =>
    if xs.all isScalarMember then
      if kindsKept xs then .ok (.list xs) else .unmodelled    -- rank 1: unchanged
    else
      match asRows xs with
      | some rows =>
        let m := (rows.headD []).length
        if m > 0 && rows.all (·.length == m) && rows.all (·.all isScalarMember)
            && kindsKept rows.flatten then
          .ok (.list ((npTranspose2 rows m).map .list))
        else .unmodelled                                      -- rank ≥ 3, ragged, empty rows
      | none => .unmodelled
  | _ => .unmodelled                                          -- atoms / strings: 0-d arrays

/-! ## Floor  (monads.py eval_monad_floor: vec_fn(a, floor_to_int);
    floor_to_int: np.floor(np.asarray(a, dtype=float)).astype(int)) -/

/-- integers up to 2^53 survive the round trip through float64 unchanged -/
def floorExact (n : Int) : Bool := n.natAbs ≤ 9007199254740992

def implFloor : Val → Res
  | .int n => if floorExact n then .ok (.int n) else .unmodelled
  | .list xs =>
    match asInts xs with
    | some ns => if ns.all floorExact then .ok (.list xs) else .unmodelled
    | none => .unmodelled                                     -- reals: float arithmetic
  | _ => .unmodelled

/-! ## Reshape  (dyads.py eval_dyad_reshape)

    if isarray(a):
        if isarray(b):
            (… -1 feature …)
            b_s = size(b); a_s = prod(a)
            if a_s > b_s:
                b = tile(b.flatten(), a_s // b_s)
                b = concatenate((b, b[:a_s - size(b)]))
                r = b.reshape(a_shape)
            elif a_s == b_s: r = b.reshape(a_shape)
            else: r = np.resize(b, a_shape)
        else: r = np.full(a, b)
    else:
        if a == 0: r = b
        elif isarray(b):
            if a < b.shape[0]: r = np.resize(b, (a,))
            else:
                ns = ones(len(b.shape)); ns[0] = a // b.shape[0]
                r = concatenate((tile(b, ns), b[:a - b.shape[0]*ns[0]]))
        else: r = np.full((a,), b)                                                        -/

/-- `flat.reshape(dims)` (row-major), `flat` holding prod(dims) elements -/
def npReshape : List Nat → List Val → Val
  | [], flat => flat.headD .undef
  | d :: ds, flat =>
    let stride := ds.foldl (· * ·) 1
    .list ((List.range d).map fun i => npReshape ds ((flat.drop (i * stride)).take stride))

/-- the flat data of `np.resize(b, shape)` with `k = prod(shape)`:
    `concatenate((b,) * ceil(k / len(b)))[:k]` -/
def npResizeFlat (xs : List Val) (k : Nat) : List Val :=
  slice (tile xs ((k + xs.length - 1) / xs.length)) none (some (k : Int))

/-- a rank-1 source (numeric or object vector) -/
def isVecSrc (xs : List Val) : Bool := xs.all isScalarMember && kindsKept xs

def implReshape (a b : Val) : Res :=
  match a with
  | .list dimsV =>
    match asInts dimsV with
    | none => .unmodelled
    | some dims =>
      if dims.isEmpty || dims.any (· ≤ 0) then .unmodelled    -- the -1 feature, 0 dimensions, []
      else
        let shape := dims.map Int.toNat
        let a_s := shape.foldl (· * ·) 1
        match b with
        | .list xs =>
          if !isVecSrc xs then .unmodelled else
          let b_s := xs.length
          if a_s > b_s then
            if b_s = 0 then .err                              -- a_s // b_s: ZeroDivisionError
            else
              let t := tile xs (a_s / b_s)
              let t := t ++ slice t none (some ((a_s : Int) - (t.length : Int)))
              .ok (npReshape shape t)
          else if a_s = b_s then .ok (npReshape shape xs)
          else .ok (npReshape shape (npResizeFlat xs a_s))
        | .int _ => .ok (npReshape shape (List.replicate a_s b))      -- np.full(a, b)
        | .real _ => .ok (npReshape shape (List.replicate a_s b))
        | _ => .unmodelled                                    -- text atoms: numpy builds a str array
  | .int n =>
    if n < 0 then .unmodelled
    else if n = 0 then
      match b with
      | .list xs => if isVecSrc xs then .ok b else .unmodelled        -- r = b
      | .int _ => .ok b
      | .real _ => .ok b
      | _ => .unmodelled
    else
      match b with
      | .list xs =>
        if !isVecSrc xs then .unmodelled
        else if n.toNat < xs.length then .ok (.list (npResizeFlat xs n.toNat))
        else if xs.length = 0 then .err                       -- a // b.shape[0]
        else
          let q := n.toNat / xs.length
          .ok (.list (tile xs q ++ slice xs none (some (n - ((xs.length * q : Nat) : Int)))))
      | .int _ => .ok (.list (List.replicate n.toNat b))      -- np.full((a,), b)
      | .real _ => .ok (.list (List.replicate n.toNat b))
      | _ => .unmodelled
  | _ => .unmodelled

/-! ## dispatch -/

/-- implementation model for the dyads of this extension (`.unmodelled` = not ours) -/
def implDyad (verb : String) (a b : Val) : Res :=
  match verb with
  | ":^" => implReshape a b
  | _ => .unmodelled

/-- implementation model for the monads of this extension -/
def implMonad (verb : String) (a : Val) : Res :=
  match verb with
  | "&" => implExpand a
  | "?" => implRange a
  | "=" => implGroup a
  | "<" => implGrade false a
  | ">" => implGrade true a
  | "^" => implShape a
  | "+" => implTranspose a
  | "_" => implFloor a
  | _ => .unmodelled

end Klong.C01.Ext2
