/-
  C10 — the dictionary heap of klongpy: dictionaries are mutable CPython `dict` objects,
  Klong variables (and dictionary values) hold *references* to them.

  Mirrors (klongpy/…):
    parser.py   kg_read ':{' + list_to_dict        -> `Dict.ofPairs` (later duplicate wins, parse time)
    parser.py   copy_lambda (copy.deepcopy per evaluation of the literal)
                                                   -> `Op.lit` / `Op.call` allocate a NEW heap cell
                                                      holding the parsed prototype
    dyads.py    eval_dyad_join  (a[b[0]] = b[1]; return a   — both operand orders)
                                                   -> `Op.join`  (`Dict.set`, in place, returns the ref)
    dyads.py    eval_dyad_find  (a.get(b), None -> :undefined)   -> `Op.find`  (`Dict.get`)
    dyads.py    eval_dyad_drop  (del b[a], KeyError swallowed; return b) -> `Op.remove` (`Dict.del`)
    dyads.py    eval_dyad_at_index on a dict:
                   integer b -> a[b] (KeyError when missing); list b -> [a[x] for x in b];
                   any other atom -> the dictionary itself  -> `Op.index` / `Op.indexMany`
    monads.py   eval_monad_size (len(a))                    -> `Op.size`
    adverbs.py  eval_adverb_each (f(pair) for pair in a.items()) -> `Op.each` (pairs in traversal order)
    interpreter `x::d` binds the same object                 -> `Op.alias`

  CPython's dict is modelled as an association list in insertion order whose key
  comparison is Python's `==` on the hashable Klong atoms (`keyEq`): `1 == 1.0`, a KGChar
  equals the one-character str with the same text (KGChar subclasses str), a KGSym equals
  only a KGSym.  This is the comparison of the REPAIRED tree (fix-c10: `KGChar.__eq__`
  refuses symbols); the pinned tree's comparison (`keyEqPinned`: a stored KGChar equals a
  probing KGSym, not vice versa) is kept only for the recorded witness in Props/C10.lean.
  Because `keyEq` is an equivalence that agrees with `hash`, which of several colliding
  slots CPython probes first is unobservable, and insertion order is a faithful stand-in.
  Values are opaque to every dictionary operation: `Val.data w` carries the canonical text
  of any non-dictionary value, `Val.ref r` is a dictionary reference.

  The abstract specification (`AState`, `specStep`, `specOut`) is a heap of finite maps
  `NKey → Option Val` over key identities.
-/
import Klong.Model.Wire
namespace Klong.C10
open Klong.Wire

/-! ### keys -/

/-- a hashable Klong atom as written in the program (text of chars/strings/symbols as hex) -/
inductive Key
  | int (n : Int)
  | real (p : Int) (k : Nat)      -- the double p / 2^k in lowest terms (k = 0 iff it is integral)
  | chr (c : String)
  | str (s : String)
  | sym (s : String)
deriving DecidableEq, Repr

/-- key identity: the equivalence classes of Python `==` (with equal hashes) on those atoms -/
inductive NKey
  | num (n : Int)
  | frac (p : Int) (k : Nat)
  | text (s : String)
  | sym (s : String)
deriving DecidableEq, Repr

def Key.norm : Key → NKey
  | .int n => .num n
  | .real p 0 => .num p
  | .real p (k + 1) => .frac p (k + 1)
  | .chr c => .text c
  | .str s => .text s
  | .sym s => .sym s

/-- Python `stored == probe` for two hashable Klong atoms (repaired tree: symmetric) -/
def keyEq (a b : Key) : Bool := a.norm == b.norm

/-- the pinned tree's comparison: `KGChar.__eq__` is `str.__eq__`, which accepts a KGSym
    with the same text, while `KGSym.__eq__` accepts only symbols (used for the recorded
    witness only) -/
def keyEqPinned (stored probe : Key) : Bool :=
  match stored, probe with
  | .chr c, .sym s => c == s
  | a, b => keyEq a b

/-! ### values and dictionaries -/

inductive Val
  | data (w : String)     -- canonical text of a non-dictionary value (any kind)
  | ref (r : Nat)         -- a dictionary, by identity
deriving DecidableEq, Repr

/-- a CPython dict: insertion-ordered association list -/
abbrev Dict := List (Key × Val)

/-- `d.get(k)` with comparison `eq stored probe` -/
def getBy (eq : Key → Key → Bool) (d : Dict) (k : Key) : Option Val :=
  match d.find? (fun p => eq p.1 k) with
  | some p => some p.2
  | none => none

/-- `d[k] = v`: an equal key keeps its stored key object and gets the new value, a new key
    is appended -/
def setBy (eq : Key → Key → Bool) : Dict → Key → Val → Dict
  | [], k, v => [(k, v)]
  | (k', v') :: rest, k, v =>
    if eq k' k then (k', v) :: rest else (k', v') :: setBy eq rest k v

def Dict.get (d : Dict) (k : Key) : Option Val := getBy keyEq d k
def Dict.set (d : Dict) (k : Key) (v : Val) : Dict := setBy keyEq d k v

/-- `del d[k]` with the KeyError swallowed -/
def Dict.del (d : Dict) (k : Key) : Dict := d.filter (fun p => !keyEq p.1 k)

/-- `list_to_dict`: `{x[0]: x[1] for x in pairs}` -/
def ofPairsBy (eq : Key → Key → Bool) (ps : List (Key × Val)) : Dict :=
  ps.foldl (fun d p => setBy eq d p.1 p.2) []

def Dict.ofPairs (ps : List (Key × Val)) : Dict := ofPairsBy keyEq ps

def lits (ps : List (Key × String)) : List (Key × Val) := ps.map (fun p => (p.1, .data p.2))

/-! ### the machine -/

structure State where
  heap : List Dict                  -- reference r = position r
  vars : List (String × Val)        -- latest binding first
  protos : List (String × Dict)     -- function name ↦ the parsed literal it evaluates
deriving Repr

def init : State := { heap := [], vars := [], protos := [] }

/-- right operand of a join: a literal value or the current value of a variable -/
inductive Arg
  | data (w : String)
  | var (x : String)
deriving Repr

inductive Op
  | lit (x : String) (ps : List (Key × String))         -- x:::{[k v] …}
  | deffn (f : String) (ps : List (Key × String))       -- f::{:{[k v] …}}
  | call (x f : String)                                 -- x::f()
  | join (left : Bool) (d : String) (k : Key) (a : Arg) (into : Option String)  -- [w::]d,[k v] / [k v],d
  | remove (d : String) (k : Key) (into : Option String)                        -- [w::]k_d
  | find (d : String) (k : Key) (into : Option String)                          -- [w::]d?k
  | index (d : String) (k : Key) (into : Option String)                         -- [w::]d@k
  | indexMany (d : String) (ks : List Key)                                      -- d@[k1 … kn]
  | size (d : String)                                                           -- #d
  | each (d : String)                                                           -- {x}'d
  | alias (x d : String)                                                        -- x::d
  | joinBad (d : String) (k : Key)      -- d,[k]  (malformed one-element tuple: `b[1]` raises IndexError
                                        --          before anything is assigned)
deriving Repr

inductive Out
  | val (v : Val)
  | undef
  | num (n : Nat)
  | pairs (ps : List (Key × Val))     -- one entry per application of the function, in order
  | vals (vs : List Val)
  | keyError
  | indexError
  | fn
  | bad                               -- the request is outside the modelled programs
deriving Repr, DecidableEq

def bindOpt (vars : List (String × Val)) : Option String → Val → List (String × Val)
  | none, _ => vars
  | some x, v => (x, v) :: vars

/-- the dictionary a variable refers to -/
def State.deref (s : State) (x : String) : Option (Nat × Dict) :=
  match s.vars.lookup x with
  | some (.ref r) =>
    match s.heap[r]? with
    | some d => some (r, d)
    | none => none
  | _ => none

def resolve (vars : List (String × Val)) : Arg → Option Val
  | .data w => some (.data w)
  | .var x => vars.lookup x

def step (s : State) : Op → State × Out
  | .lit x ps =>
    ({ s with heap := s.heap ++ [Dict.ofPairs (lits ps)]
            , vars := (x, .ref s.heap.length) :: s.vars }, .val (.ref s.heap.length))
  | .deffn f ps =>
    ({ s with protos := (f, Dict.ofPairs (lits ps)) :: s.protos }, .fn)
  | .call x f =>
    match s.protos.lookup f with
    | none => (s, .bad)
    | some p =>
      ({ s with heap := s.heap ++ [p]
              , vars := (x, .ref s.heap.length) :: s.vars }, .val (.ref s.heap.length))
  | .join _ d k a into =>
    match s.deref d, resolve s.vars a with
    | some (r, dict), some v =>
      ({ s with heap := s.heap.set r (dict.set k v)
              , vars := bindOpt s.vars into (.ref r) }, .val (.ref r))
    | _, _ => (s, .bad)
  | .remove d k into =>
    match s.deref d with
    | some (r, dict) =>
      ({ s with heap := s.heap.set r (dict.del k)
              , vars := bindOpt s.vars into (.ref r) }, .val (.ref r))
    | none => (s, .bad)
  | .find d k into =>
    match s.deref d with
    | none => (s, .bad)
    | some (_, dict) =>
      match dict.get k, into with
      | some v, _ => ({ s with vars := bindOpt s.vars into v }, .val v)
      | none, none => (s, .undef)
      | none, some _ => (s, .bad)
  | .index d k into =>
    match s.deref d with
    | none => (s, .bad)
    | some (r, dict) =>
      match k with
      | .int _ =>
        match dict.get k with
        | some v => ({ s with vars := bindOpt s.vars into v }, .val v)
        | none => (s, .keyError)
      | _ => ({ s with vars := bindOpt s.vars into (.ref r) }, .val (.ref r))
  | .indexMany d ks =>
    match s.deref d with
    | none => (s, .bad)
    | some (_, dict) =>
      match ks.mapM dict.get with
      | some vs => (s, .vals vs)
      | none => (s, .keyError)
  | .size d =>
    match s.deref d with
    | none => (s, .bad)
    | some (_, dict) => (s, .num dict.length)
  | .each d =>
    match s.deref d with
    | none => (s, .bad)
    | some (_, dict) => (s, .pairs dict)
  | .alias x d =>
    match s.vars.lookup d with
    | some v => ({ s with vars := (x, v) :: s.vars }, .val v)
    | none => (s, .bad)
  | .joinBad d _ =>
    match s.deref d with
    | none => (s, .bad)
    | some _ => (s, .indexError)

def run (s : State) : List Op → State × List Out
  | [] => (s, [])
  | op :: ops =>
    let (s1, o) := step s op
    let (s2, os) := run s1 ops
    (s2, o :: os)

/-! ### abstract specification: a heap of finite maps over key identities -/

abbrev AMap := NKey → Option Val

def AMap.empty : AMap := fun _ => none

def AMap.upd (m : AMap) (k : NKey) (v : Option Val) : AMap := fun k' => if k' = k then v else m k'

def AMap.ofPairs (ps : List (Key × Val)) : AMap :=
  ps.foldl (fun m p => m.upd p.1.norm (some p.2)) AMap.empty

structure AState where
  heap : List AMap
  vars : List (String × Val)
  protos : List (String × AMap)

def AState.deref (a : AState) (x : String) : Option (Nat × AMap) :=
  match a.vars.lookup x with
  | some (.ref r) =>
    match a.heap[r]? with
    | some m => some (r, m)
    | none => none
  | _ => none

/-- what every operation does to the heap of maps and the variables -/
def specStep (a : AState) : Op → AState
  | .lit x ps =>
    { a with heap := a.heap ++ [AMap.ofPairs (lits ps)], vars := (x, .ref a.heap.length) :: a.vars }
  | .deffn f ps => { a with protos := (f, AMap.ofPairs (lits ps)) :: a.protos }
  | .call x f =>
    match a.protos.lookup f with
    | none => a
    | some m => { a with heap := a.heap ++ [m], vars := (x, .ref a.heap.length) :: a.vars }
  | .join _ d k v into =>
    match a.deref d, resolve a.vars v with
    | some (r, m), some v =>
      { a with heap := a.heap.set r (m.upd k.norm (some v)), vars := bindOpt a.vars into (.ref r) }
    | _, _ => a
  | .remove d k into =>
    match a.deref d with
    | some (r, m) =>
      { a with heap := a.heap.set r (m.upd k.norm none), vars := bindOpt a.vars into (.ref r) }
    | none => a
  | .find d k into =>
    match a.deref d with
    | none => a
    | some (_, m) =>
      match m k.norm with
      | some v => { a with vars := bindOpt a.vars into v }
      | none => a
  | .index d k into =>
    match a.deref d with
    | none => a
    | some (r, m) =>
      match k with
      | .int _ =>
        match m k.norm with
        | some v => { a with vars := bindOpt a.vars into v }
        | none => a
      | _ => { a with vars := bindOpt a.vars into (.ref r) }
  | .indexMany _ _ => a
  | .size _ => a
  | .each _ => a
  | .alias x d =>
    match a.vars.lookup d with
    | some v => { a with vars := (x, v) :: a.vars }
    | none => a
  | .joinBad _ _ => a          -- an operation that raises leaves every map as it was

/-- the results the property allows for an operation in abstract state `a` -/
def specOut (a : AState) : Op → Out → Prop
  | .lit _ _, o => o = .val (.ref a.heap.length)
  | .deffn _ _, o => o = .fn
  | .call _ f, o =>
    match a.protos.lookup f with
    | none => o = .bad
    | some _ => o = .val (.ref a.heap.length)
  | .join _ d _ v _, o =>
    match a.deref d, resolve a.vars v with
    | some (r, _), some _ => o = .val (.ref r)
    | _, _ => o = .bad
  | .remove d _ _, o =>
    match a.deref d with
    | some (r, _) => o = .val (.ref r)
    | none => o = .bad
  | .find d k into, o =>
    match a.deref d with
    | none => o = .bad
    | some (_, m) =>
      match m k.norm, into with
      | some v, _ => o = .val v
      | none, none => o = .undef           -- a missing key yields :undefined
      | none, some _ => o = .bad
  | .index d k _, o =>
    match a.deref d with
    | none => o = .bad
    | some (r, m) =>
      match k with
      | .int _ =>
        match m k.norm with
        | some v => o = .val v
        | none => o = .keyError
      | _ => o = .val (.ref r)
  | .indexMany d ks, o =>
    match a.deref d with
    | none => o = .bad
    | some (_, m) =>
      match ks.mapM (fun k => m k.norm) with
      | some vs => o = .vals vs
      | none => o = .keyError
  | .size d, o =>
    match a.deref d with
    | none => o = .bad
    | some (_, m) =>
      -- #d is the number of distinct keys: the length of a duplicate-free list of exactly
      -- the keys bound in the map
      ∃ ks : List NKey, ks.Nodup ∧ (∀ k, k ∈ ks ↔ (m k).isSome) ∧ o = .num ks.length
  | .each d, o =>
    match a.deref d with
    | none => o = .bad
    | some (_, m) =>
      -- f'd applies f to every key/value pair exactly once, in any order
      ∃ ps : List (Key × Val), o = .pairs ps ∧ (ps.map (fun p => p.1.norm)).Nodup ∧
        ∀ k v, (∃ k', (k', v) ∈ ps ∧ k'.norm = k) ↔ m k = some v
  | .alias _ d, o =>
    match a.vars.lookup d with
    | some v => o = .val v
    | none => o = .bad
  | .joinBad d _, o =>
    match a.deref d with
    | none => o = .bad
    | some _ => o = .indexError

def specRun (a : AState) : List Op → AState
  | [] => a
  | op :: ops => specRun (specStep a op) ops

/-- every result of a history is one the specification allows in the state it was produced in -/
def specAccepts (a : AState) : List Op → List Out → Prop
  | [], [] => True
  | op :: ops, o :: os => specOut a op o ∧ specAccepts (specStep a op) ops os
  | _, _ => False

/-- abstraction: an association list read as a finite map over key identities -/
def absDict (d : Dict) : AMap := fun nk =>
  match d.find? (fun p => p.1.norm == nk) with
  | some p => some p.2
  | none => none

def abs (s : State) : AState :=
  { heap := s.heap.map absDict, vars := s.vars, protos := s.protos.map (fun p => (p.1, absDict p.2)) }

/-! ### invariant of reachable states -/

/-- no two stored keys of a dictionary are equal -/
def WFd (d : Dict) : Prop := (d.map (fun p => p.1.norm)).Nodup

def valOK (n : Nat) : Val → Prop
  | .ref r => r < n
  | .data _ => True

structure Inv (s : State) : Prop where
  heapWF : ∀ d ∈ s.heap, WFd d
  protoWF : ∀ p ∈ s.protos, WFd p.2
  varsOK : ∀ p ∈ s.vars, valOK s.heap.length p.2
  heapOK : ∀ d ∈ s.heap, ∀ p ∈ d, valOK s.heap.length p.2
  protoOK : ∀ q ∈ s.protos, ∀ p ∈ q.2, valOK 0 p.2     -- a literal holds no dictionary

/-! ### driver -/

def showNKey : NKey → String
  | .num n => s!"i{n}"
  | .frac p k => s!"r{p}/{k}"
  | .text s => s!"t{s}"
  | .sym s => s!"y{s}"

def showVal : Val → String
  | .data w => w
  | .ref r => s!"D{r}"

def sortStrings (xs : List String) : List String := (xs.toArray.qsort (· < ·)).toList

def showPairs (d : List (Key × Val)) : String :=
  ";".intercalate (sortStrings (d.map fun p => s!"{showNKey p.1.norm}~{showVal p.2}"))

def showOut : Out → String
  | .val v => showVal v
  | .undef => "U"
  | .num n => s!"n{n}"
  | .pairs ps => s!"P{ps.length}:" ++ showPairs ps
  | .vals vs => "L(" ++ ";".intercalate (vs.map showVal) ++ ")"
  | .keyError => "KeyError"
  | .indexError => "IndexError"
  | .fn => "fn"
  | .bad => "bad-op"

def dedupNames : List String → List String
  | [] => []
  | x :: xs => x :: (dedupNames xs).filter (· != x)

def digest (s : State) : String :=
  let names := sortStrings (dedupNames (s.vars.map (·.1)))
  let vs := names.map fun x => s!"{x}>{match s.vars.lookup x with | some v => showVal v | none => "?"}"
  let hs := s.heap.map fun d => "{" ++ showPairs d ++ "}"
  "vars:" ++ ";".intercalate vs ++ "|heap:" ++ "".intercalate hs

def parseKey (tok : String) : Option Key :=
  match tok.toList with
  | 'i' :: rest => (String.ofList rest).toInt?.map Key.int
  | 'r' :: rest =>
    match (String.ofList rest).splitOn "/" with
    | [p, k] => do
      let p ← p.toInt?
      let k ← k.toNat?
      pure (Key.real p k)
    | _ => none
  | 'c' :: rest => some (.chr (String.ofList rest))
  | 's' :: rest => some (.str (String.ofList rest))
  | 'y' :: rest => some (.sym (String.ofList rest))
  | _ => none

def parseArg (tok : String) : Option Arg :=
  match tok.toList with
  | [] => none
  | '@' :: rest => some (.var (String.ofList rest))
  | _ => some (.data tok)

def parsePairs (toks : List String) : Option (List (Key × String)) :=
  toks.mapM fun t =>
    match t.splitOn "~" with
    | [k, v] => if v.isEmpty then none else (parseKey k).map fun k => (k, v)
    | _ => none

def parseInto (fs : List (String × String)) : Option String :=
  match fieldD fs "into" with
  | "" => none
  | x => some x

def parseOp (ws : List String) : Option Op :=
  match ws with
  | [] => none
  | w :: rest =>
    let fs := fields rest
    let name := fun k => match fieldD fs k with | "" => (none : Option String) | x => some x
    match w with
    | "lit" => do
      let x ← name "x"
      let ps ← parsePairs (listField fs "ps")
      pure (.lit x ps)
    | "deffn" => do
      let f ← name "f"
      let ps ← parsePairs (listField fs "ps")
      pure (.deffn f ps)
    | "call" => do
      let x ← name "x"
      let f ← name "f"
      pure (.call x f)
    | "join" => do
      let d ← name "d"
      let k ← parseKey (fieldD fs "k")
      let a ← parseArg (fieldD fs "v")
      let left ← match fieldD fs "side" with | "L" => some true | "R" => some false | _ => none
      pure (.join left d k a (parseInto fs))
    | "remove" => do
      let d ← name "d"
      let k ← parseKey (fieldD fs "k")
      pure (.remove d k (parseInto fs))
    | "find" => do
      let d ← name "d"
      let k ← parseKey (fieldD fs "k")
      pure (.find d k (parseInto fs))
    | "index" => do
      let d ← name "d"
      let k ← parseKey (fieldD fs "k")
      pure (.index d k (parseInto fs))
    | "indexmany" => do
      let d ← name "d"
      let ks ← (listField fs "ks").mapM parseKey
      pure (.indexMany d ks)
    | "size" => do
      let d ← name "d"
      pure (.size d)
    | "each" => do
      let d ← name "d"
      pure (.each d)
    | "alias" => do
      let x ← name "x"
      let d ← name "d"
      pure (.alias x d)
    | "joinbad" => do
      let d ← name "d"
      let k ← parseKey (fieldD fs "k")
      pure (.joinBad d k)
    | _ => none

def handle (s : State) (ws : List String) : State × String :=
  match ws with
  | ["reset"] => (init, "out=ok state=" ++ digest init)
  | _ =>
    match parseOp ws with
    | none => (s, "bad-op")
    | some op =>
      let (s', o) := step s op
      (s', "out=" ++ showOut o ++ " state=" ++ digest s')

end Klong.C10
