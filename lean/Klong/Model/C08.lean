/-
  C08 — the torch backend's NumPy facade, over an abstract tensor library.

  What is modelled (klongpy/backends/torch_backend.py, numpy_backend.py, base.py and the
  numeric verbs of monads.py / dyads.py / adverbs.py that call through the provider):

    TorchBackend.TorchUfunc.__call__         -> `facadeUfunc`   (add / subtract / multiply)
    TorchBackend.minimum / maximum            -> `facadeUfunc`   (.min / .max)
    _wrap_torch_func(less / greater)          -> `facadeUfunc`   (.lt / .gt)
    TorchBackendProvider.safe_equal           -> `facadeUfunc`   (.eq)
    TorchUfunc.reduce (+ subtract's lambda,
      divide's loop; after the fix: axis 0)   -> `facadeReduce`  (pinned: `facadeReducePinned`)
    TorchUfunc.accumulate (cumsum / cumprod /
      cumulative_subtract / generic loop)     -> `facadeAccumulate`
    TorchBackendProvider.floor_to_int         -> `floorToInt`    (pinned: `floorToIntPinned`)
    TorchBackendProvider.power                -> `power`
    kg_asarray on a list of tensors           -> `Lib.stack`
    numpy's ufunc / ufunc.reduce / .accumulate,
      np.power, base.floor_to_int             -> `npUfunc`, `npReduce`, `npAccumulate`, `npPower`, `npFloor`
    eval_adverb_over / scan_over / each,
      eval_dyad_* / eval_monad_* (numeric)    -> `den` (parametrised by a `Provider`)

  The tensor library itself (torch kernels) is NOT modelled: it is a structure `Lib` of
  primitives; `NP : Lib` is the reference (what numpy computes on integer tensors).  The
  theorems of Props/C08.lean take `Agree T NP` as a hypothesis.  Reals (float32 vs float64)
  are outside the model: a real-valued result is carried as kind + shape only (`V.ab`).
-/
import Klong.Model.Val
namespace Klong.C08
open Klong

/-! ### integer tensors -/

def prodN : List Nat → Nat
  | [] => 1
  | n :: r => n * prodN r

/-- a tensor of any rank in row-major form (`shape = []` is a 0-d scalar) -/
structure Flat where
  shape : List Nat
  data : List Int
deriving DecidableEq, Repr, Inhabited

def Flat.wf (t : Flat) : Bool := t.data.length == prodN t.shape

def Flat.scalar (n : Int) : Flat := ⟨[], [n]⟩

/-- a tensor of rank ≥ 1 seen along axis 0: `rows.length` sub-tensors of shape `inner`,
    each flattened -/
structure Rows where
  inner : List Nat
  rows : List (List Int)
deriving DecidableEq, Repr, Inhabited

def Rows.wf (R : Rows) : Bool := R.rows.all (fun r => r.length == prodN R.inner)

def chunks (m : Nat) : Nat → List Int → List (List Int)
  | 0, _ => []
  | n + 1, d => d.take m :: chunks m n (d.drop m)

/-- the axis-0 view of a tensor (none for a 0-d tensor) -/
def Flat.view (t : Flat) : Option Rows :=
  match t.shape with
  | [] => none
  | n :: inner => some ⟨inner, chunks (prodN inner) n t.data⟩

def Rows.flat (R : Rows) : Flat := ⟨R.rows.length :: R.inner, R.rows.flatten⟩

/-! ### element operations -/

inductive EOp | add | sub | mul | min | max | eq | lt | gt
deriving DecidableEq, Repr

def EOp.ap : EOp → Int → Int → Int
  | .add, a, b => a + b
  | .sub, a, b => a - b
  | .mul, a, b => a * b
  | .min, a, b => if a ≤ b then a else b
  | .max, a, b => if a ≤ b then b else a
  | .eq, a, b => if a = b then 1 else 0
  | .lt, a, b => if a < b then 1 else 0
  | .gt, a, b => if b < a then 1 else 0

/-- adverb operators -/
inductive AOp | add | sub | mul | div | min | max
deriving DecidableEq, Repr

def vop (op : EOp) (a b : List Int) : List Int := List.zipWith op.ap a b

/-- element-wise application with scalar broadcasting (equal shapes, or one 0-d operand);
    trailing-axis broadcasting between different non-scalar shapes is not modelled -/
def ewWith (f : Int → Int → Int) (a b : Flat) : Option Flat :=
  if a.shape = b.shape then some ⟨a.shape, List.zipWith f a.data b.data⟩
  else if a.shape = [] then
    match a.data with
    | [x] => some ⟨b.shape, b.data.map (f x)⟩
    | _ => none
  else if b.shape = [] then
    match b.data with
    | [y] => some ⟨a.shape, a.data.map (fun x => f x y)⟩
    | _ => none
  else none

/-- what `floor(a.float()).to(int)` does to an integer: round to the nearest float32
    (24-bit significand, ties to even) -/
def expo : Nat → Nat → Nat
  | _, 0 => 0
  | a, f + 1 => if a < 2 ^ 24 then 0 else 1 + expo (a / 2) f

def f32round (n : Int) : Int :=
  let a := n.natAbs
  if a < 2 ^ 24 then n
  else
    let e := expo a 64
    let q := a / 2 ^ e
    let r := a % 2 ^ e
    let half := 2 ^ (e - 1)
    let q' := if half < r ∨ (r = half ∧ q % 2 = 1) then q + 1 else q
    if n < 0 then -((q' * 2 ^ e : Nat) : Int) else ((q' * 2 ^ e : Nat) : Int)

/-! ### the abstract tensor library (field for field what the facade calls) -/

structure Lib where
  /-- torch.add / subtract / multiply / minimum / maximum / eq / less / greater -/
  ew : EOp → Flat → Flat → Option Flat
  /-- torch.negative -/
  neg : Flat → Flat
  /-- Tensor.pow on an integer tensor with non-negative integer exponents -/
  pow : Flat → Flat → Option Flat
  /-- Tensor.to(int) -/
  toInt : Flat → Flat
  /-- torch.floor(a.float()).to(int)  (pinned floor_to_int) -/
  floorF32 : Flat → Flat
  /-- torch.sum(a, dim=0) / torch.prod(a, dim=0) -/
  sum0 : Rows → Flat
  prod0 : Rows → Flat
  /-- torch.sum(a) / torch.prod(a) over every element (pinned reduce) -/
  sumAll : Rows → Flat
  prodAll : Rows → Flat
  /-- torch.cumsum(a, dim=0) / torch.cumprod(a, dim=0) -/
  cumsum0 : Rows → Rows
  cumprod0 : Rows → Rows
  /-- torch.min(a) / torch.max(a) over every element -/
  amin : Rows → Option Flat
  amax : Rows → Option Flat
  /-- a[i] -/
  row : Rows → Nat → Option Flat
  /-- a[1:] -/
  tail : Rows → Rows
  /-- torch.stack -/
  stack : List Flat → Option Rows
  /-- torch.flip(a, dims=[0]) -/
  flip0 : Rows → Rows
  /-- a[i:j] with 0 ≤ i ≤ j ≤ len -/
  slice0 : Rows → Nat → Nat → Rows
  /-- torch.cat((a, b)) along axis 0 -/
  cat0 : Rows → Rows → Option Rows
  /-- torch.tile(a, (k, 1, …, 1)): k copies along axis 0 -/
  tile0 : Rows → Nat → Rows

/-! ### NP: the reference library (numpy on integer tensors) -/

def foldRows (op : EOp) (init : List Int) (rs : List (List Int)) : List Int := rs.foldl (vop op) init

/-- running fold: `[a, f a x1, f (f a x1) x2, …]` -/
def scanRows (op : EOp) : List Int → List (List Int) → List (List Int)
  | acc, [] => [acc]
  | acc, x :: xs => acc :: scanRows op (vop op acc x) xs

def minList : List Int → Option Int
  | [] => none
  | x :: xs => some (xs.foldl (fun a b => if a ≤ b then a else b) x)

def maxList : List Int → Option Int
  | [] => none
  | x :: xs => some (xs.foldl (fun a b => if a ≤ b then b else a) x)

def stackRows : List Flat → Option Rows
  | [] => none
  | t :: ts => if ts.all (fun u => u.shape == t.shape) then some ⟨t.shape, (t :: ts).map (·.data)⟩ else none

def NP : Lib where
  ew op a b := ewWith op.ap a b
  neg a := ⟨a.shape, a.data.map (fun x => -x)⟩
  pow a b := ewWith (fun x y => x ^ y.toNat) a b
  toInt a := a
  floorF32 a := ⟨a.shape, a.data.map f32round⟩
  sum0 R := ⟨R.inner, foldRows .add (List.replicate (prodN R.inner) 0) R.rows⟩
  prod0 R := ⟨R.inner, foldRows .mul (List.replicate (prodN R.inner) 1) R.rows⟩
  sumAll R := .scalar (R.rows.flatten.foldl (· + ·) 0)
  prodAll R := .scalar (R.rows.flatten.foldl (· * ·) 1)
  cumsum0 R := match R.rows with
    | [] => R
    | r :: rs => ⟨R.inner, scanRows .add r rs⟩
  cumprod0 R := match R.rows with
    | [] => R
    | r :: rs => ⟨R.inner, scanRows .mul r rs⟩
  amin R := (minList R.rows.flatten).map Flat.scalar
  amax R := (maxList R.rows.flatten).map Flat.scalar
  row R i := R.rows[i]?.map (fun r => ⟨R.inner, r⟩)
  tail R := ⟨R.inner, R.rows.tail⟩
  stack := stackRows
  flip0 R := ⟨R.inner, R.rows.reverse⟩
  slice0 R i j := ⟨R.inner, (R.rows.take j).drop i⟩
  cat0 A B := if A.inner = B.inner then some ⟨A.inner, A.rows ++ B.rows⟩ else none
  tile0 R k := ⟨R.inner, (List.replicate k R.rows).flatten⟩

/-- T's primitives compute what NP's do (hypothesis of every theorem; never an axiom) -/
structure Agree (T N : Lib) : Prop where
  ew : ∀ op a b, T.ew op a b = N.ew op a b
  neg : ∀ a, T.neg a = N.neg a
  pow : ∀ a b, T.pow a b = N.pow a b
  toInt : ∀ a, T.toInt a = N.toInt a
  floorF32 : ∀ a, T.floorF32 a = N.floorF32 a
  sum0 : ∀ R, T.sum0 R = N.sum0 R
  prod0 : ∀ R, T.prod0 R = N.prod0 R
  sumAll : ∀ R, T.sumAll R = N.sumAll R
  prodAll : ∀ R, T.prodAll R = N.prodAll R
  cumsum0 : ∀ R, T.cumsum0 R = N.cumsum0 R
  cumprod0 : ∀ R, T.cumprod0 R = N.cumprod0 R
  amin : ∀ R, T.amin R = N.amin R
  amax : ∀ R, T.amax R = N.amax R
  row : ∀ R i, T.row R i = N.row R i
  tail : ∀ R, T.tail R = N.tail R
  stack : ∀ ts, T.stack ts = N.stack ts
  flip0 : ∀ R, T.flip0 R = N.flip0 R
  slice0 : ∀ R i j, T.slice0 R i j = N.slice0 R i j
  cat0 : ∀ A B, T.cat0 A B = N.cat0 A B
  tile0 : ∀ R k, T.tile0 R k = N.tile0 R k

inductive Kind | int | real
deriving DecidableEq, Repr

/-! ### numpy's own ufunc semantics (the reference side of the comparison) -/

/-- a concrete operand: a Python int (literal) or an integer tensor / ndarray -/
inductive Arg
  | py (n : Int)
  | tn (t : Flat)
deriving DecidableEq, Repr

def Arg.lift : Arg → Flat
  | .py n => .scalar n
  | .tn t => t

def Arg.wf : Arg → Bool
  | .py _ => true
  | .tn t => t.wf

/-- np.add(a, b), np.minimum(a, b), np.less(a, b), object-array `==`, … -/
def npUfunc (op : EOp) (a b : Arg) : Option Flat := NP.ew op a.lift b.lift

/-- np.<ufunc>.reduce(a): a left fold along axis 0 (`add`/`multiply` have identities;
    `subtract` on zero rows is an error).  np.min / np.max for `&/` `|/` on vectors. -/
def npReduce : AOp → Rows → Option Flat
  | .add, R => some ⟨R.inner, foldRows .add (List.replicate (prodN R.inner) 0) R.rows⟩
  | .mul, R => some ⟨R.inner, foldRows .mul (List.replicate (prodN R.inner) 1) R.rows⟩
  | .sub, R => match R.rows with
    | [] => none
    | r :: rs => some ⟨R.inner, foldRows .sub r rs⟩
  | .min, R => (minList R.rows.flatten).map Flat.scalar
  | .max, R => (maxList R.rows.flatten).map Flat.scalar
  | .div, _ => none

/-- the operators whose `accumulate` the verbs call (`&\` `|\` go through
    itertools.accumulate, `%\` is real) -/
def AOp.arith : AOp → Option EOp
  | .add => some .add
  | .sub => some .sub
  | .mul => some .mul
  | _ => none

/-- np.<ufunc>.accumulate(a) along axis 0 -/
def npAccumulate (op : AOp) (R : Rows) : Option Rows :=
  match op.arith, R.rows with
  | none, _ => none
  | some _, [] => some R
  | some e, r :: rs => some ⟨R.inner, scanRows e r rs⟩

/-- base.floor_to_int on integers: np.floor(np.asarray(a, dtype=float)).astype(int)
    (exact below 2^53; the universes stay below 2^31) -/
def npFloor (a : Arg) : Option Flat := some a.lift

/-- numpy_backend.power for non-negative integer exponents, after `_e_dyad_power`'s
    conversion of whole results back to integers -/
def npPower (a b : Arg) : Option Flat := NP.pow a.lift b.lift

/-! ### the facade (what torch_backend.py does with the library `L`) -/

/-- TorchUfunc.__call__ (add/sub/mul), TorchBackend.minimum/maximum, the wrapped
    torch.less/greater and TorchBackendProvider.safe_equal -/
def facadeUfunc (L : Lib) (op : EOp) (a b : Arg) : Option Flat :=
  match op with
  | .add | .sub | .mul =>
    match a, b with
    | .tn ta, .tn tb => L.ew op ta tb                        -- fast path: two tensors
    | .tn ta, .py y => L.ew op ta (.scalar y)                -- tensor with a Python scalar
    | .py x, .tn tb => L.ew op (.scalar x) tb
    | .py x, .py y => L.ew op (.scalar x) (.scalar y)        -- self._op(asarray(a), asarray(b))
  | .min | .max =>
    L.ew op a.lift b.lift                                     -- asarray(a), asarray(b)
  | .lt | .gt =>
    L.ew op a.lift b.lift                                     -- Python scalars converted by the wrapper
  | .eq =>
    match a, b with
    | .py x, .py y => some (.scalar (if x = y then 1 else 0)) -- no tensor involved: object compare
    | _, _ => L.ew .eq a.lift b.lift                          -- 0-d tensors → item(); x == y

/-- TorchUfunc.reduce with the repaired default `axis=0`:
      add       -> torch.sum(arr, dim=0)
      multiply  -> torch.prod(arr, dim=0)
      subtract  -> a[0] - torch.sum(a[1:], dim=0)
    `&/` and `|/` on vectors go through torch.min / torch.max. -/
def facadeReduce (L : Lib) : AOp → Rows → Option Flat
  | .add, R => some (L.sum0 R)
  | .mul, R => some (L.prod0 R)
  | .sub, R => (L.row R 0).bind fun a0 => L.ew .sub a0 (L.sum0 (L.tail R))
  | .min, R => L.amin R
  | .max, R => L.amax R
  | .div, _ => none

/-- the pinned tree: `reduce(a, axis=None)` — torch.sum / torch.prod over every element,
    and `a[0] - torch.sum(a[1:])` -/
def facadeReducePinned (L : Lib) : AOp → Rows → Option Flat
  | .add, R => some (L.sumAll R)
  | .mul, R => some (L.prodAll R)
  | .sub, R => (L.row R 0).bind fun a0 => L.ew .sub a0 (L.sumAll (L.tail R))
  | .min, R => L.amin R
  | .max, R => L.amax R
  | .div, _ => none

/-- the Python loop `result=[a[0]]; for i in 1..n-1: result.append(op(result[-1], a[i]))`
    (`fuel` = number of remaining iterations, `i` = loop index) -/
def accLoop (L : Lib) (op : EOp) (R : Rows) : Nat → Nat → Flat → Option (List Flat)
  | 0, _, last => some [last]
  | fuel + 1, i, last =>
    (L.row R i).bind fun ai =>
      (L.ew op last ai).bind fun nxt =>
        (accLoop L op R fuel (i + 1) nxt).map fun rest => last :: rest

/-- TorchUfunc.accumulate: cumsum / cumprod, `cumulative_subtract`, and the generic loop
    (no accumulate op) followed by torch.stack -/
def facadeAccumulate (L : Lib) (op : AOp) (R : Rows) : Option Rows :=
  match op with
  | .add => some (L.cumsum0 R)
  | .mul => some (L.cumprod0 R)
  | .sub =>
    (L.row R 0).bind fun a0 => (accLoop L .sub R (R.rows.length - 1) 1 a0).bind L.stack
  | .min | .max | .div => none

/-- kind of `%\a` for an operand of kind `k` with `n` rows: np.divide.accumulate is real
    throughout; the torch loop stacks the untouched first row, so a single integer row stays
    integer (known finding, not repaired) -/
def npScanDivKind (_n : Nat) (_k : Kind) : Kind := .real
def facadeScanDivKind (n : Nat) (k : Kind) : Kind := if n = 1 then k else .real

/-- TorchBackendProvider.floor_to_int (repaired): integer tensors are returned as they are -/
def floorToInt (L : Lib) (a : Arg) : Option Flat := some (L.toInt a.lift)

/-- pinned: torch.floor(a.float()).to(int) -/
def floorToIntPinned (L : Lib) (a : Arg) : Option Flat := some (L.floorF32 a.lift)

/-- TorchBackendProvider.power for non-negative integer exponents: a tensor base uses
    Tensor.pow; a Python-scalar base goes through numpy.power(float(a), b) — numpy itself -/
def power (L : Lib) (a b : Arg) : Option Flat :=
  match a with
  | .tn ta => L.pow ta b.lift
  | .py x => NP.pow (.scalar x) b.lift

/-! ### providers -/

structure Provider where
  ufunc : EOp → Arg → Arg → Option Flat
  negative : Flat → Flat
  floorToInt : Arg → Option Flat
  power : Arg → Arg → Option Flat
  reduce : AOp → Rows → Option Flat
  accumulate : AOp → Rows → Option Rows
  stack : List Flat → Option Rows
  row : Rows → Nat → Option Flat
  flip0 : Rows → Rows
  slice0 : Rows → Nat → Nat → Rows
  cat0 : Rows → Rows → Option Rows
  tile0 : Rows → Nat → Rows

def numpyP : Provider where
  ufunc := npUfunc
  negative := NP.neg
  floorToInt := npFloor
  power := npPower
  reduce := npReduce
  accumulate := npAccumulate
  stack := NP.stack
  row := NP.row
  flip0 := NP.flip0
  slice0 := NP.slice0
  cat0 := NP.cat0
  tile0 := NP.tile0

def torchP (L : Lib) : Provider where
  ufunc := facadeUfunc L
  negative := L.neg
  floorToInt := floorToInt L
  power := power L
  reduce := facadeReduce L
  accumulate := facadeAccumulate L
  stack := L.stack
  row := L.row
  flip0 := L.flip0
  slice0 := L.slice0
  cat0 := L.cat0
  tile0 := L.tile0

/-- the pinned tree's provider (for the witnesses and the driver) -/
def torchPinnedP (L : Lib) : Provider :=
  { torchP L with reduce := facadeReducePinned L, floorToInt := floorToIntPinned L }

/-- every call goes through these wrappers: operands must be well-formed tensors and so
    must the results (anything else is outside the model) -/
structure GP where
  ufunc : EOp → Arg → Arg → Option Flat
  negative : Flat → Option Flat
  floorToInt : Arg → Option Flat
  power : Arg → Arg → Option Flat
  reduce : AOp → Rows → Option Flat
  accumulate : AOp → Rows → Option Rows
  stack : List Flat → Option Rows
  row : Rows → Nat → Option Flat
  flip0 : Rows → Option Rows
  slice0 : Rows → Nat → Nat → Option Rows
  cat0 : Rows → Rows → Option Rows
  tile0 : Rows → Nat → Option Rows

def Provider.guard (P : Provider) : GP where
  ufunc op a b := if a.wf && b.wf then (P.ufunc op a b).filter Flat.wf else none
  negative a := if a.wf then (some (P.negative a)).filter Flat.wf else none
  floorToInt a := if a.wf then (P.floorToInt a).filter Flat.wf else none
  power a b := if a.wf && b.wf then (P.power a b).filter Flat.wf else none
  reduce op R := if R.wf then (P.reduce op R).filter Flat.wf else none
  accumulate op R := if R.wf && !R.rows.isEmpty then (P.accumulate op R).filter Rows.wf else none
  stack ts := if ts.all Flat.wf then (P.stack ts).filter Rows.wf else none
  row R i := if R.wf then (P.row R i).filter Flat.wf else none
  flip0 R := if R.wf then (some (P.flip0 R)).filter Rows.wf else none
  slice0 R i j := if R.wf then (some (P.slice0 R i j)).filter Rows.wf else none
  cat0 A B := if A.wf && B.wf then (P.cat0 A B).filter Rows.wf else none
  tile0 R k := if R.wf then (some (P.tile0 R k)).filter Rows.wf else none

/-! ### values and the numeric core grammar -/

inductive V
  | py (n : Int)                       -- Python int
  | npy (n : Int)                      -- numpy integer scalar (np.int64), also under the torch backend:
                                       --   what `=` returns when neither operand is a tensor
  | tn (t : Flat)                      -- integer tensor
  | ab (k : Kind) (shape : List Nat)   -- not modelled: kind and shape only (reals; integers computed from reals)
deriving DecidableEq, Repr

inductive Res
  | ok (v : V)
  | undef                              -- :undefined
  | oom (why : String)                 -- outside the model (errors, object arrays, broadcasting between ranks, …)
deriving DecidableEq, Repr

inductive DOp | add | sub | mul | div | pow | min | max | eq | lt | gt
deriving DecidableEq, Repr

inductive Expr
  | var (i : Nat)                      -- 0,1,2 = a,b,c ; 3 = x inside an each-function
  | lit (n : Int)
  | rlit                               -- a real literal
  | tlit (t : Flat)                    -- an integer list literal
  | dy (op : DOp) (l r : Expr)
  | neg (e : Expr)
  | floor (e : Expr)
  | over (op : AOp) (e : Expr)
  | scan (op : AOp) (e : Expr)
  | each (body : Expr) (e : Expr)
  | at (e i : Expr)
  | take (n : Int) (e : Expr)
  | drop (n : Int) (e : Expr)
  | rev (e : Expr)
  | join (l r : Expr)
deriving Repr

def V.shape : V → List Nat
  | .py _ => []
  | .npy _ => []
  | .tn t => t.shape
  | .ab _ s => s

def V.kind : V → Kind
  | .py _ => .int
  | .npy _ => .int
  | .tn _ => .int
  | .ab k _ => k

/-- the operand as the provider sees it (an np.int64 is not a Python int: TorchUfunc.__call__
    sends it down the `asarray` branch, which lifts it exactly like a Python scalar) -/
def V.arg : V → Option Arg
  | .py n => some (.py n)
  | .npy n => some (.py n)
  | .tn t => some (.tn t)
  | .ab _ _ => none

/-- result shape of an element-wise dyad with scalar broadcasting -/
def bshape (s1 s2 : List Nat) : Option (List Nat) :=
  if s1 = s2 then some s1 else if s1 = [] then some s2 else if s2 = [] then some s1 else none

def joinKind : Kind → Kind → Kind
  | .int, .int => .int
  | _, _ => .real

def ofFlat (o : Option Flat) (why : String) : Res :=
  match o with
  | some t => .ok (.tn t)
  | none => .oom why

def DOp.eop : DOp → Option EOp
  | .add => some .add | .sub => some .sub | .mul => some .mul
  | .min => some .min | .max => some .max
  | .eq => some .eq | .lt => some .lt | .gt => some .gt
  | .div => none | .pow => none

def isCmp : DOp → Bool
  | .eq | .lt | .gt => true
  | _ => false

def V.isNpy : V → Bool
  | .npy _ => true
  | _ => false

def V.isTensor : V → Bool
  | .tn _ => true
  | _ => false

def isZeroScalar : V → Bool
  | .py n => n == 0
  | .npy n => n == 0
  | .tn t => t.shape == [] && t.data == [0]
  | .ab _ _ => false

/-- dyads.py: eval_dyad_add/subtract/multiply/minimum/maximum/equal/less/more/divide/power -/
def dyad (G : GP) (op : DOp) (a b : V) : Res :=
  match op with
  | .div =>
    -- eval_dyad_divide: scalar ÷ 0 is :undefined; every other quotient is real
    if a.shape = [] ∧ b.shape = [] ∧ isZeroScalar b then .undef
    else match bshape a.shape b.shape with
      | some s => .ok (.ab .real s)
      | none => .oom "broadcast"
  | .pow =>
    match a.arg, b.arg with
    | some x, some y =>
      if !y.lift.data.all (fun e => decide (0 ≤ e)) then .oom "power:negative-exponent"
      else if !a.isTensor ∧ b.shape ≠ [] then
        -- a Python-scalar base with an array exponent: under torch the result is a numpy
        -- ndarray (numpy.power), which later torch calls may reject — outside the model
        .oom "power:scalar-base-array-exponent"
      else
        match G.power x y with
        | none => .oom "power"
        | some r =>
          if r.data.any (fun v => decide (2 ^ 31 ≤ v.natAbs)) then .oom "power:beyond-2^31"
          else if !a.isTensor ∧ b.shape = [] then
            -- numpy.power(float(a), b) then int(): a Python int under both backends
            match r.data with
            | [v] => .ok (.py v)
            | _ => .oom "power"
          else .ok (.tn r)
    | _, _ => .oom "power:real-operand"
  | _ =>
    match op.eop with
    | none => .oom "op"
    | some e =>
      match a.arg, b.arg with
      | some x, some y =>
        if (op = .lt ∨ op = .gt) ∧ (a.isNpy ∨ b.isNpy) then
          -- torch.less / torch.greater reject an np.int64 operand (TypeError) while numpy
          -- compares: one backend raises, so the case is outside the property and the model
          .oom "one-sided:torch-less-greater-on-numpy-scalar"
        else if op = .eq ∧ !a.isTensor ∧ !b.isTensor then
          -- safe_equal without a tensor: numpy object compare, the result is an np.int64
          match G.ufunc e x y with
          | some ⟨[], [r]⟩ => .ok (.npy r)
          | _ => .oom "ufunc"
        else ofFlat (G.ufunc e x y) "ufunc"
      | _, _ =>
        if (op = .lt ∨ op = .gt) ∧ (a.isNpy ∨ b.isNpy ∨ a = .ab .int [] ∨ b = .ab .int []) then
          -- an integer scalar computed from reals may be an np.int64 (see below)
          .oom "one-sided:torch-less-greater-on-numpy-scalar"
        else
        match bshape a.shape b.shape with
        | some s => .ok (.ab (if isCmp op then .int else joinKind a.kind b.kind) s)
        | none => .oom "broadcast"

/-- fold `f` over the rows as tensors: functools.reduce(f, a) -/
def foldFlats (f : Flat → Flat → Option Flat) : Flat → List Flat → Option Flat
  | acc, [] => some acc
  | acc, x :: xs => (f acc x).bind fun r => foldFlats f r xs

def scanFlats (f : Flat → Flat → Option Flat) : Flat → List Flat → Option (List Flat)
  | acc, [] => some [acc]
  | acc, x :: xs => (f acc x).bind fun r => (scanFlats f r xs).map (acc :: ·)

def Rows.flats (R : Rows) : List Flat := R.rows.map (fun r => ⟨R.inner, r⟩)

/-- adverbs.py eval_adverb_over -/
def overV (G : GP) (op : AOp) (a : V) : Res :=
  match a with
  | .py n => .ok (.py n)                                       -- atom: returned as it is
  | .npy n => .ok (.npy n)
  | .ab k s =>
    match s with
    | [] => .ok (.ab k s)
    | 0 :: _ => .ok (.ab k s)
    | 1 :: rest => .ok (.ab k rest)
    | _ :: rest => .ok (.ab (if op = .div then .real else k) rest)
  | .tn t =>
    match t.view with
    | none => .ok (.tn t)                                      -- 0-d: atom
    | some R =>
      match R.rows with
      | [] => .ok (.tn t)                                      -- empty list: atom
      | [_] => ofFlat (G.row R 0) "row"                        -- len(a) == 1: a[0]
      | _ =>
        match op with
        | .add | .sub | .mul => ofFlat (G.reduce op R) "reduce"
        | .div =>
          -- a zero divisor sends %/ through the fold of the Divide verb (:undefined member by
          -- member, then usually a TypeError): outside the model
          if R.rows.tail.flatten.any (· == 0) then .oom "divide:zero-divisor-fold"
          else .ok (.ab .real R.inner)
        | .min | .max =>
          if R.inner = [] then ofFlat (G.reduce op R) "min/max"    -- a.ndim == 1: np.min / np.max
          else
            let e := if op = .min then EOp.min else EOp.max
            match R.flats with
            | [] => .oom "empty"
            | r :: rs => ofFlat (foldFlats (fun x y => G.ufunc e (.tn x) (.tn y)) r rs) "fold"

/-- adverbs.py eval_adverb_scan_over -/
def scanV (G : GP) (op : AOp) (a : V) : Res :=
  match a with
  | .py n => .ok (.py n)
  | .npy n => .ok (.npy n)
  | .ab k s =>
    match s with
    | [] => .ok (.ab k s)
    | 0 :: _ => .ok (.ab k s)
    | 1 :: _ => if op = .div ∧ k = .int then .oom "known:scan-divide-single-row" else .ok (.ab k s)
    | _ => .ok (.ab (if op = .div then .real else k) s)
  | .tn t =>
    match t.view with
    | none => .ok (.tn t)
    | some R =>
      match R.rows with
      | [] => .ok (.tn t)
      | _ =>
        match op with
        | .add | .sub | .mul =>
          match G.accumulate op R with
          | some S => .ok (.tn S.flat)
          | none => .oom "accumulate"
        | .div =>
          -- np.divide.accumulate is real throughout; the torch loop keeps a single row as it
          -- is (integer): known finding, carved out of the model
          if R.rows.length = 1 then .oom "known:scan-divide-single-row"
          else if R.rows.tail.flatten.any (· == 0) then .oom "divide:zero-divisor-fold"
          else .ok (.ab .real t.shape)
        | .min | .max =>
          let e := if op = .min then EOp.min else EOp.max
          match R.flats with
          | [] => .oom "empty"
          | r :: rs =>
            match (scanFlats (fun x y => G.ufunc e (.tn x) (.tn y)) r rs).bind G.stack with
            | some S => .ok (.tn S.flat)
            | none => .oom "scan"

/-- Python slice bounds of `b[:n]` / `b[n:]` on a list of length `len` -/
def clampIdx (len : Nat) (n : Int) : Nat :=
  if n < 0 then (len - n.natAbs) else min n.toNat len

/-- kg_asarray of the results of an each / index list: all integer tensors of one shape are
    stacked; all abstract values of one shape give an abstract value; anything else is an
    object array (outside the model) -/
def collect (G : GP) (rs : List Res) : Res :=
  let flats := rs.filterMap fun r => match r with
    | .ok (.py n) => some (Flat.scalar n)
    | .ok (.npy n) => some (Flat.scalar n)
    | .ok (.tn t) => some t
    | _ => none
  if flats.length = rs.length then
    match G.stack flats with
    | some S => .ok (.tn S.flat)
    | none => .oom "stack"
  else
    match rs with
    | .ok (.ab k s) :: rest =>
      if rest.all (fun r => r == .ok (.ab k s)) then .ok (.ab k (rs.length :: s)) else .oom "mixed"
    | _ => .oom "mixed"

def rowV (G : GP) (R : Rows) (len : Nat) (i : Int) : Res :=
  let j : Int := if i < 0 then i + len else i
  if 0 ≤ j ∧ j < len then ofFlat (G.row R j.toNat) "row" else .oom "index"

/-- dyads.py eval_dyad_take on a list of `len` rows: a prefix / suffix, or — when more rows
    are asked for than there are — tile, concatenate the missing part, slice -/
def takeV (G : GP) (n : Int) (t : Flat) (R : Rows) : Res :=
  let len := R.rows.length
  let aa := n.natAbs
  if len = 0 then .ok (.tn t)
  else if aa > len then
    match G.tile0 R (aa / len) with
    | none => .oom "tile"
    | some T =>
      let tl := T.rows.length
      let rem := aa - tl
      let c := if 0 < n then (G.slice0 T 0 rem).bind fun S => G.cat0 T S
               else (G.slice0 T (if rem = 0 then 0 else tl - rem) tl).bind fun S => G.cat0 S T
      match c with
      | none => .oom "cat"
      | some C =>
        let cl := C.rows.length
        match (if n < 0 then G.slice0 C (cl - aa) cl else G.slice0 C 0 aa) with
        | some S => .ok (.tn S.flat)
        | none => .oom "slice"
  else
    match (if n < 0 then G.slice0 R (len - aa) len else G.slice0 R 0 aa) with
    | some S => .ok (.tn S.flat)
    | none => .oom "slice"

/-- the denotation of a program, given the (guarded) provider calls -/
def denG (G : GP) : Expr → List V → Res
  | .var i, env => match env[i]? with
    | some v => .ok v
    | none => .oom "unbound"
  | .lit n, _ => .ok (.py n)
  | .rlit, _ => .ok (.ab .real [])
  | .tlit t, _ => if t.wf then .ok (.tn t) else .oom "literal"
  | .dy op l r, env =>
    match denG G l env, denG G r env with
    | .ok a, .ok b => dyad G op a b
    | .oom w, _ => .oom w
    | _, .oom w => .oom w
    | _, _ => .oom "undefined-operand"
  | .neg e, env =>
    match denG G e env with
    | .ok (.py n) => ofFlat (G.negative (.scalar n)) "neg"
    | .ok (.npy n) => ofFlat (G.negative (.scalar n)) "neg"
    | .ok (.tn t) => ofFlat (G.negative t) "neg"
    | .ok (.ab k s) => .ok (.ab k s)
    | .undef => .oom "undefined-operand"
    | .oom w => .oom w
  | .floor e, env =>
    match denG G e env with
    | .ok (.py n) => ofFlat (G.floorToInt (.py n)) "floor"
    | .ok (.npy n) => ofFlat (G.floorToInt (.py n)) "floor"
    | .ok (.tn t) => ofFlat (G.floorToInt (.tn t)) "floor"
    | .ok (.ab _ s) => .ok (.ab .int s)
    | .undef => .oom "undefined-operand"
    | .oom w => .oom w
  | .over op e, env =>
    match denG G e env with
    | .ok a => overV G op a
    | .undef => .oom "undefined-operand"
    | .oom w => .oom w
  | .scan op e, env =>
    match denG G e env with
    | .ok a => scanV G op a
    | .undef => .oom "undefined-operand"
    | .oom w => .oom w
  | .each body e, env =>
    let x := env.take 3
    match denG G e env with
    | .ok (.py n) => denG G body (x ++ [.py n])
    | .ok (.npy n) => denG G body (x ++ [.npy n])
    | .ok (.ab k s) =>
      match s with
      | [] => denG G body (x ++ [.ab k []])
      | 0 :: _ => .ok (.ab k s)
      | n :: rest =>
        match denG G body (x ++ [.ab k rest]) with
        | .ok (.ab k' s') => .ok (.ab k' (n :: s'))
        | .ok (.py _) => .ok (.ab .int [n])
        | .ok (.npy _) => .ok (.ab .int [n])
        | .ok (.tn t) => .ok (.ab .int (n :: t.shape))
        | .undef => .oom "undefined-element"
        | .oom w => .oom w
    | .ok (.tn t) =>
      match t.view with
      | none => denG G body (x ++ [.tn t])
      | some R =>
        if R.rows = [] then .ok (.tn t)
        else if R.wf then collect G (R.flats.map fun r => denG G body (x ++ [.tn r]))
        else .oom "wf"
    | .undef => .oom "undefined-operand"
    | .oom w => .oom w
  | .at e i, env =>
    match denG G e env, denG G i env with
    | .ok (.tn t), .ok iv =>
      match t.view with
      | none => .oom "index-atom"
      | some R =>
        match iv with
        | .py n => rowV G R R.rows.length n
        | .npy n => rowV G R R.rows.length n
        | .tn it =>
          if it.shape = [] then
            match it.data with
            | [n] => rowV G R R.rows.length n
            | _ => .oom "index"
          else if it.shape.length = 1 then
            if it.data = [] then .oom "empty-index"
            else collect G (it.data.map fun n => rowV G R R.rows.length n)
          else .oom "index-rank"
        | .ab _ _ => .oom "index-real"
    | .ok (.ab k s), .ok iv =>
      let inb (len : Nat) (n : Int) : Bool := decide (-(len : Int) ≤ n ∧ n < len)
      match s, iv with
      | len :: rest, .py n => if inb len n then .ok (.ab k rest) else .oom "index"
      | len :: rest, .npy n => if inb len n then .ok (.ab k rest) else .oom "index"
      | len :: rest, .tn it =>
        if !it.data.all (inb len) then .oom "index"
        else if it.shape = [] then .ok (.ab k rest)
        else if it.shape.length = 1 ∧ it.data ≠ [] then .ok (.ab k (it.data.length :: rest))
        else .oom "index-rank"
      | _, _ => .oom "index"
    | .oom w, _ => .oom w
    | _, .oom w => .oom w
    | _, _ => .oom "index"
  | .take n e, env =>
    match denG G e env with
    | .ok (.tn t) =>
      match t.view with
      | none => .oom "take-atom"
      | some R => takeV G n t R
    | .ok (.ab k s) =>
      match s with
      | len :: rest => if len = 0 then .ok (.ab k s) else .ok (.ab k (n.natAbs :: rest))
      | [] => .oom "take-atom"
    | .ok (.py _) => .oom "take-atom"
    | .ok (.npy _) => .oom "take-atom"
    | .undef => .oom "undefined-operand"
    | .oom w => .oom w
  | .drop n e, env =>
    match denG G e env with
    | .ok (.tn t) =>
      match t.view with
      | none => .oom "drop-atom"
      | some R =>
        let len := R.rows.length
        let r := if 0 ≤ n then G.slice0 R (clampIdx len n) len else G.slice0 R 0 (clampIdx len n)
        match r with
        | some S => .ok (.tn S.flat)
        | none => .oom "slice"
    | .ok (.ab k s) =>
      match s with
      | len :: rest => .ok (.ab k ((if 0 ≤ n then len - clampIdx len n else clampIdx len n) :: rest))
      | [] => .oom "drop-atom"
    | .ok (.py _) => .oom "drop-atom"
    | .ok (.npy _) => .oom "drop-atom"
    | .undef => .oom "undefined-operand"
    | .oom w => .oom w
  | .rev e, env =>
    match denG G e env with
    | .ok (.tn t) =>
      match t.view with
      | none => .ok (.tn t)                                     -- not iterable: returned unchanged
      | some R =>
        match G.flip0 R with
        | some S => .ok (.tn S.flat)
        | none => .oom "flip"
    | .ok (.ab k s) => .ok (.ab k s)
    | .ok (.py n) => .ok (.py n)
    | .ok (.npy n) => .ok (.npy n)
    | .undef => .oom "undefined-operand"
    | .oom w => .oom w
  | .join l r, env =>
    match denG G l env, denG G r env with
    | .ok a, .ok b =>
      match a.arg, b.arg with
      | some x, some y =>
        -- eval_dyad_join on integers: atoms and vectors are spliced; equal-rank arrays with
        -- the same trailing shape are concatenated; everything else is an object array
        let side (z : Arg) : Option Rows :=
          match z.lift.view with
          | none => some ⟨[], [z.lift.data]⟩
          | some R => some R
        match side x, side y with
        | some A, some B =>
          if A.inner = B.inner then
            if x.lift.shape ≠ [] ∧ A.rows = [] ∧ y.lift.shape ≠ [] then .ok b
            else match G.cat0 A B with
              | some S => .ok (.tn S.flat)
              | none => .oom "cat"
          else .oom "join-object"
        | _, _ => .oom "join"
      | _, _ =>
        let sh (s : List Nat) : List Nat := if s = [] then [1] else s
        match sh a.shape, sh b.shape with
        | n :: ra, m :: rb =>
          if n = 0 ∧ ra = [] ∧ b.shape ≠ [] then .ok b         -- two arrays, len(a) == 0: b is returned
          else if n = 0 ∧ ra = [] then .ok (.ab b.kind [1])
          else if m = 0 ∧ rb = [] ∧ ra = [] then .ok (.ab a.kind [n])
          else if ra = rb then .ok (.ab (joinKind a.kind b.kind) ((n + m) :: ra)) else .oom "join-object"
        | _, _ => .oom "join"
    | .oom w, _ => .oom w
    | _, .oom w => .oom w
    | _, _ => .oom "undefined-operand"

/-- the denotation of a program under a provider -/
def den (P : Provider) (e : Expr) (env : List V) : Res := denG P.guard e env

/-! ### driver (line protocol) -/

/-- Flat → nested Val (driver only) -/
def nest : List Nat → List Int → Val
  | [], d => .int (d.headD 0)
  | n :: inner, d => .list ((chunks (prodN inner) n d).map fun r => nest inner r)

/-- nested Val → (shape, data, has-real) if rectangular and numeric -/
partial def flatten? : Val → Option (List Nat × List Int × Bool)
  | .int n => some ([], [n], false)
  | .real _ => some ([], [0], true)
  | .list xs =>
    match xs.mapM flatten? with
    | none => none
    | some [] => some ([0], [], false)
    | some ((s, d, r) :: rest) =>
      if rest.all (fun p => p.1 == s) then
        some ((rest.length + 1) :: s, d ++ (rest.map (·.2.1)).flatten, r || rest.any (·.2.2))
      else none
  | _ => none

def valToV (v : Val) : Option V :=
  match v with
  | .int n =>
    -- a binding `a::(-3)` evaluates Negate: the value is a 0-d tensor / numpy scalar, not a Python int
    if n < 0 then some (.tn (.scalar n)) else some (.py n)
  | .real _ => some (.ab .real [])
  | _ =>
    match flatten? v with
    | some (s, d, false) => some (.tn ⟨s, d⟩)
    | some (s, _, true) => some (.ab .real s)
    | none => none

def showNats (l : List Nat) : String := ",".intercalate (l.map toString)

def showRes : Res → String
  | .ok (.py n) => "ok:" ++ (Val.int n).toWire
  | .ok (.npy n) => "ok:" ++ (Val.int n).toWire
  | .ok (.tn t) => "ok:" ++ (nest t.shape t.data).toWire
  | .ok (.ab .int s) => s!"ab:int:{showNats s}"
  | .ok (.ab .real s) => s!"ab:real:{showNats s}"
  | .undef => "undef"
  | .oom w => "oom:" ++ w

open Val in
partial def parseExpr : List Tok → Option (Expr × List Tok)
  | .lp :: .atom "var" :: .atom n :: .rp :: r => n.toNat?.map fun k => (.var k, r)
  | .lp :: .atom "lit" :: .atom n :: .rp :: r => n.toInt?.map fun k => (.lit k, r)
  | .lp :: .atom "rlit" :: .rp :: r => some (.rlit, r)
  | .lp :: .atom "tlit" :: r =>
    match Val.parse r with
    | some (v, .rp :: r') =>
      match flatten? v with
      | some (s, d, false) => some (.tlit ⟨s, d⟩, r')
      | _ => none
    | _ => none
  | .lp :: .atom "dy" :: .atom op :: r =>
    let o : Option DOp := match op with
      | "add" => some .add | "sub" => some .sub | "mul" => some .mul | "div" => some .div
      | "pow" => some .pow | "min" => some .min | "max" => some .max
      | "eq" => some .eq | "lt" => some .lt | "gt" => some .gt | _ => none
    match o, parseExpr r with
    | some o, some (a, r1) =>
      match parseExpr r1 with
      | some (b, .rp :: r2) => some (.dy o a b, r2)
      | _ => none
    | _, _ => none
  | .lp :: .atom "neg" :: r => un Expr.neg r
  | .lp :: .atom "floor" :: r => un Expr.floor r
  | .lp :: .atom "rev" :: r => un Expr.rev r
  | .lp :: .atom "over" :: .atom op :: r => (aop op).bind fun o => un (Expr.over o) r
  | .lp :: .atom "scan" :: .atom op :: r => (aop op).bind fun o => un (Expr.scan o) r
  | .lp :: .atom "take" :: .atom n :: r => n.toInt?.bind fun k => un (Expr.take k) r
  | .lp :: .atom "drop" :: .atom n :: r => n.toInt?.bind fun k => un (Expr.drop k) r
  | .lp :: .atom "each" :: r => bin Expr.each r
  | .lp :: .atom "at" :: r => bin Expr.at r
  | .lp :: .atom "join" :: r => bin Expr.join r
  | _ => none
where
  aop (s : String) : Option AOp :=
    match s with
    | "add" => some .add | "sub" => some .sub | "mul" => some .mul | "div" => some .div
    | "min" => some .min | "max" => some .max | _ => none
  un (f : Expr → Expr) (r : List Tok) : Option (Expr × List Tok) :=
    match parseExpr r with
    | some (a, .rp :: r1) => some (f a, r1)
    | _ => none
  bin (f : Expr → Expr → Expr) (r : List Tok) : Option (Expr × List Tok) :=
    match parseExpr r with
    | some (a, r1) =>
      match parseExpr r1 with
      | some (b, .rp :: r2) => some (f a b, r2)
      | _ => none
    | none => none

def valFlat (v : Val) : Option Flat :=
  match flatten? v with
  | some (s, d, false) => some ⟨s, d⟩
  | _ => none

def showFlat (t : Flat) : String := (nest t.shape t.data).toWire
def showOF : Option Flat → String
  | some t => showFlat t
  | none => "none"
def showOR : Option Rows → String
  | some R => showFlat R.flat
  | none => "none"

/-- one primitive of the reference library NP (micro-correspondence against torch / numpy) -/
def prim (name : String) (args : List Flat) : String :=
  let eop : String → Option EOp := fun s => match s with
    | "add" => some .add | "sub" => some .sub | "mul" => some .mul | "min" => some .min
    | "max" => some .max | "eq" => some .eq | "lt" => some .lt | "gt" => some .gt | _ => none
  let aop : String → Option AOp := fun s => match s with
    | "add" => some .add | "sub" => some .sub | "mul" => some .mul | "div" => some .div
    | "min" => some .min | "max" => some .max | _ => none
  let rows1 (f : Rows → String) : String := match args with
    | [a] => match a.view with
      | some R => f R
      | none => "bad-op"
    | _ => "bad-op"
  match name.splitOn ":", args with
  | ["ew", o], [a, b] => match eop o with
    | some e => showOF (NP.ew e a b)
    | none => "bad-op"
  | ["neg"], [a] => showFlat (NP.neg a)
  | ["pow"], [a, b] => showOF (NP.pow a b)
  | ["toInt"], [a] => showFlat (NP.toInt a)
  | ["floorF32"], [a] => showFlat (NP.floorF32 a)
  | ["sum0"], _ => rows1 fun R => showFlat (NP.sum0 R)
  | ["prod0"], _ => rows1 fun R => showFlat (NP.prod0 R)
  | ["sumAll"], _ => rows1 fun R => showFlat (NP.sumAll R)
  | ["prodAll"], _ => rows1 fun R => showFlat (NP.prodAll R)
  | ["cumsum0"], _ => rows1 fun R => showFlat (NP.cumsum0 R).flat
  | ["cumprod0"], _ => rows1 fun R => showFlat (NP.cumprod0 R).flat
  | ["amin"], _ => rows1 fun R => showOF (NP.amin R)
  | ["amax"], _ => rows1 fun R => showOF (NP.amax R)
  | ["tail"], _ => rows1 fun R => showFlat (NP.tail R).flat
  | ["flip0"], _ => rows1 fun R => showFlat (NP.flip0 R).flat
  | ["row"], [a, i] => match a.view, i.data with
    | some R, [k] => showOF (NP.row R k.toNat)
    | _, _ => "bad-op"
  | ["slice0"], [a, i, j] => match a.view, i.data, j.data with
    | some R, [x], [y] => showFlat (NP.slice0 R x.toNat y.toNat).flat
    | _, _, _ => "bad-op"
  | ["stack"], ts => showOR (NP.stack ts)
  | ["tile0"], [a, k] => match a.view, k.data with
    | some R, [x] => showFlat (NP.tile0 R x.toNat).flat
    | _, _ => "bad-op"
  | ["cat0"], [a, b] => match a.view, b.view with
    | some A, some B => showOR (NP.cat0 A B)
    | _, _ => "bad-op"
  | ["npReduce", o], _ => match aop o with
    | some e => rows1 fun R => showOF (npReduce e R)
    | none => "bad-op"
  | ["scanRows", "min"], _ => rows1 fun R => match R.rows with
    | [] => "none"
    | r :: rs => showFlat (Rows.flat ⟨R.inner, scanRows .min r rs⟩)
  | ["npAccumulate", o], _ => match aop o with
    | some e => rows1 fun R => showOR (npAccumulate e R)
    | none => "bad-op"
  | _, _ => "bad-op"

structure State where
  unit : Unit := ()

def init : State := {}

/-- `eval <expr> | <val> <val> <val>` → `np=<res> torch=<res> pinned=<res>` -/
def handle (s : State) (ws : List String) : State × String :=
  match ws with
  | "eval" :: rest =>
    let line := " ".intercalate rest
    match line.splitOn " | " with
    | [etxt, vtxt] =>
      match parseExpr (Val.tokenize etxt), Val.parseMany (Val.tokenize vtxt) with
      | some (e, []), some vals =>
        match vals.mapM valToV with
        | some env =>
          (s, s!"np={showRes (den numpyP e env)} torch={showRes (den (torchP NP) e env)} pinned={showRes (den (torchPinnedP NP) e env)}")
        | none => (s, "bad-env")
      | _, _ => (s, "bad-op")
    | _ => (s, "bad-op")
  | "prim" :: name :: rest =>
    match Val.parseMany (Val.tokenize (" ".intercalate rest)) with
    | some vals =>
      match vals.mapM valFlat with
      | some args => (s, prim name args)
      | none => (s, "bad-op")
    | none => (s, "bad-op")
  | _ => (s, "bad-op")

end Klong.C08
