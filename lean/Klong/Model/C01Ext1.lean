/-
  C01 extension 1 — implementation models (mirroring the Python of monads.py / dyads.py) for
  Cut, Join, At/Index, Find, Match and the monads First, Size, Enumerate, Atom, List, Not;
  the reference for them is in Klong.Model.C01 (refDyad / refMonad).

  Conventions
  * A `Val` operand is the *literal*; klongpy stores a list literal through `kg_asarray`
    (backends/numpy_backend.py:210).  Two classes of literals are stored in a way that is not the
    literal any more and are reported `.unmodelled` by every model that looks inside a list:
      - `mixedStored`: some regular nest of numbers mixes integers and reals (numpy keeps one
        float64 array, the integers are gone);
      - `hasObjRank2`: some irregular / non-numeric nest that numpy stores as an object array of
        rank ≥ 2 with raw Python lists inside (same predicate as `np_shape` in vlib/c01.py).
    Outside these classes a non-numeric list is a rank-1 object array whose list members are
    arrays again, a regular nest of numbers is one N-d array.
  * `.err` = the Python code raises, `.ok v` = it returns (the canonical form of) `v`.
-/
import Klong.Model.C01
namespace Klong.C01.Ext1
open Klong Klong.C01

def lift (o : Option Val) : Res := match o with | some v => .ok v | none => .err

/-! ## how numpy stores a list -/

mutual
def hasInt : Val → Bool
  | .int _ => true
  | .list xs => hasIntL xs
  | _ => false
def hasIntL : List Val → Bool
  | [] => false
  | x :: xs => hasInt x || hasIntL xs
end

mutual
def hasReal : Val → Bool
  | .real _ => true
  | .list xs => hasRealL xs
  | _ => false
def hasRealL : List Val → Bool
  | [] => false
  | x :: xs => hasReal x || hasRealL xs
end

/- `astype(float64)` on every leaf -/
mutual
def toReal : Val → Val
  | .int n => ofF (Float.ofInt n)
  | .list xs => .list (toRealL xs)
  | v => v
def toRealL : List Val → List Val
  | [] => []
  | x :: xs => toReal x :: toRealL xs
end

/-- a regular nest of numbers holding both integers and reals: one float64 array -/
def mixedNum (v : Val) : Bool := (numShape v).isSome && hasInt v && hasReal v

/-- `kg_asarray` of a freshly built Python list of stored members: `np.asarray` promotes a
    regular nest of numbers to one dtype; anything else becomes an object array (members kept) -/
def npCoerce (v : Val) : Val := if mixedNum v then toReal v else v

mutual
def mixedStored : Val → Bool
  | .list xs => mixedNum (.list xs) || mixedStoredL xs
  | _ => false
def mixedStoredL : List Val → Bool
  | [] => false
  | x :: xs => mixedStored x || mixedStoredL xs
end

def lcp : List Nat → List Nat → List Nat
  | a :: as, b :: bs => if a == b then a :: lcp as bs else []
  | _, _ => []

/- shape numpy discovers for a nest of Python lists (`np_shape` in vlib/c01.py): a dimension is
    added as long as all members at that depth are lists of one common length -/
mutual
def npShape : Val → List Nat
  | .list [] => [0]
  | .list (x :: xs) => (xs.length + 1) :: npShapeL (npShape x) xs
  | _ => []
def npShapeL (acc : List Nat) : List Val → List Nat
  | [] => acc
  | y :: ys => npShapeL (lcp acc (npShape y)) ys
end

def objRank2 (v : Val) : Bool := (numShape v).isNone && (npShape v).length ≥ 2

mutual
def hasObjRank2 : Val → Bool
  | .list xs => objRank2 (.list xs) || hasObjRank2L xs
  | _ => false
def hasObjRank2L : List Val → Bool
  | [] => false
  | x :: xs => hasObjRank2 x || hasObjRank2L xs
end

/-- the literal is not what the interpreter holds -/
def notStored (v : Val) : Bool := mixedStored v || hasObjRank2 v

/-- `.shape` of a stored operand (outside `notStored`): N-d for a regular nest of numbers,
    rank 1 for an object array, `()` for an atom / string -/
def arrShape (v : Val) : List Nat :=
  match numShape v with
  | some s => s
  | none => match v with | .list xs => [xs.length] | _ => []

/-! ## Python indexing -/

/-- `xs[i]` for a Python / numpy integer index: negative counts from the end, IndexError = none -/
def pyIndex {α} (xs : List α) (i : Int) : Option α :=
  let j := if i < 0 then i + xs.length else i
  if j < 0 then none else xs[j.toNat]?

def intList : List Val → Option (List Int)
  | [] => some []
  | .int n :: r => (intList r).map (n :: ·)
  | _ => none

/-! ## Cut  (dyads.py eval_dyad_cut, 131–137) -/

/-- consecutive pairs of `div_points` -/
def divPairs : List Int → List (Int × Int)
  | d :: e :: r => (d, e) :: divPairs (e :: r)
  | _ => []

/-- `np.array_split(b, indices)` with an index list (numpy/lib/_shape_base_impl.py array_split):
    `div_points = [0] + list(indices) + [Ntotal]`, section i is `b[div_points[i]:div_points[i+1]]`
    (plain Python slicing: negative and overshooting indices are clamped, a decreasing pair is empty) -/
def npArraySplitAt {α} (b : List α) (idx : List Int) : List (List α) :=
  (divPairs ((0 : Int) :: idx ++ [(b.length : Int)])).map fun p => slice b (some p.1) (some p.2)

/-- `r = array_split(b, a); if len(b) == 0 and len(a) > 0: r = r[1:]` -/
def cutSegs {α} (idx : List Int) (b : List α) : List (List α) :=
  let r := npArraySplitAt b idx
  if b.length = 0 ∧ idx.length > 0 then r.drop 1 else r

def implCut (a b : Val) : Res :=
  -- 133: a = a if isarray(a) else [a]
  let idx? : Option (List Int) := match a with
    | .int n => some [n]
    | .list ps => intList ps        -- a list holding reals / lists: slicing raises or fancy-indexes
    | _ => none
  match idx? with
  | none => .unmodelled
  | some idx =>
    if notStored b then .unmodelled else
    match b with
    | .list xs => lift (segs false (cutSegs idx xs))                 -- 137: kg_asarray(r)
    | .str cs => lift (segs true (cutSegs idx (strChars cs)))        -- 137: "".join(x) for x in r
    | _ => .unmodelled

/-! ## Join  (dyads.py eval_dyad_join, 555–586) -/

/-- `isinstance(x, str) and not isinstance(x, KGSym)`: strings and characters (KGChar is a str) -/
def strOf : Val → Option (List Nat)
  | .str s => some s
  | .chr c => some [c]
  | _ => none

/-- `_arr_to_list` -/
def arrToList : Val → List Val
  | .list xs => xs
  | a => [a]

def lcpAll : List (List Nat) → List Nat
  | [] => []
  | s :: ss => ss.foldl lcp s

/-- `numpy.asarray(members, dtype=object)` raises "could not broadcast" when the member arrays
    agree on leading dimensions but not on the whole shape -/
def objArrayClash (members : List Val) : Bool :=
  let shapes := members.map arrShape
  let l := lcpAll shapes
  !l.isEmpty && shapes.any (· != l)

/-- 574–586: `r = [*aa, *bb]; nr = kg_asarray(r)`; numeric → `nr`, else `numpy.asarray(r, dtype=object)` -/
def joinGeneral (members : List Val) : Res :=
  let v := Val.list members
  if (numShape v).isSome then .ok (npCoerce v)
  else if objArrayClash members then .err
  else .ok v

def implJoin (a b : Val) : Res :=
  if notStored a || notStored b then .unmodelled else
  match strOf a, strOf b with
  | some s, some t => .ok (.str (s ++ t))                           -- 555–556: a+b
  | _, _ =>
    match a, b with
    | .dict _, _ => .unmodelled                                      -- 557–562
    | _, .dict _ => .unmodelled
    | .list xs, .list ys =>                                          -- 564–572 both arrays, ndim ≥ 1
      if xs.length = 0 then .ok b                                    -- 569–570
      else
        let s := arrShape a
        let t := arrShape b
        if s.length == t.length && s.getLast? == t.getLast? then     -- 571
          -- 572 np.concatenate: all dimensions but the first must agree
          if s.drop 1 == t.drop 1 then .ok (npCoerce (.list (xs ++ ys))) else .err
        else joinGeneral (xs ++ ys)
    | _, _ => joinGeneral (arrToList a ++ arrToList b)

/-! ## At/Index  (dyads.py eval_dyad_at_index, 173–191) -/

def implIndexSeq (j : Bool) (a : Val) (es : List Val) (b : Val) : Res :=
  match b with
  | .list [] => if j then .ok (.str []) else .ok (.list [])          -- 177–178, 190
  | .list ixs =>
    match intList ixs with
    | none => .unmodelled                                            -- reals: IndexError; nests: fancy indexing
    | some is =>
      match is.mapM (pyIndex es) with                                -- 181: [a[x] for x in b]
      | none => .err
      | some r => if j then lift ((joinChars r).map .str)            -- 190: "".join(r)
                  else .ok (npCoerce (.list r))                      -- 181: kg_asarray
  | .int i => lift (pyIndex es i)                                    -- 182–184
  | .dict _ => .unmodelled
  | _ => .ok a                                                       -- 185–186: r = a

def implIndex (a b : Val) : Res :=
  if notStored a then .unmodelled else
  match a with
  | .list es => implIndexSeq false a es b
  | .str cs => implIndexSeq true a (strChars cs) b
  | _ => .unmodelled            -- functions / symbols: Apply; numbers: not subscriptable

/-! ## Match  (dyads.py eval_dyad_match → backends/base.py kg_equal, 405–475) -/

def atomEq : Val → Val → Option Bool
  | .int a, .int b => some (a == b)            -- 460–462: two integers match only when equal
  | .real _, _ => none
  | _, .real _ => none
  | .dict _, _ => none
  | _, .dict _ => none
  | .undef, .undef => some true                -- the KGUndefined singleton
  | .chr a, .chr b => some (a == b)
  | .str a, .str b => some (a == b)
  | .chr a, .str b => some ([a] == b)          -- KGChar is a str: 0ca == "a"
  | .str a, .chr b => some (a == [b])
  | .sym a, .sym b => some (a == b)            -- KGSym.__eq__: symbols only
  | _, _ => some false

def isListVal : Val → Bool
  | .list _ => true
  | _ => false

/-- a regular nest of integers (or `[]`): a non-object ndarray without reals -/
def isIntArr (v : Val) : Bool := isListVal v && (numShape v).isSome && !hasReal v

/-- a non-object ndarray holding reals (compared by `np.array_equal` / isclose on floats) -/
def isRealArr (v : Val) : Bool := isListVal v && (numShape v).isSome && hasReal v

mutual
def kgEqual : Val → Val → Option Bool
  | .list xs, .list ys =>
    if isRealArr (.list xs) || isRealArr (.list ys) then none
    -- 415–417: both non-object ndarrays: np.array_equal (same shape, all elements ==)
    else if isIntArr (.list xs) && isIntArr (.list ys) then some (Val.beqList xs ys)
    -- 448–453: two object arrays of size ≥ 128 try np.array_equal first
    else if !isIntArr (.list xs) && !isIntArr (.list ys) && xs.length ≥ 128 then none
    -- 454–456
    else if xs.length != ys.length then some false
    else kgEqualL xs ys
  | .list _, .dict _ => none
  | .dict _, .list _ => none
  | .list _, _ => some false                   -- 440–441
  | _, .list _ => some false
  | a, b => atomEq a b
/-- `all(kg_equal(x, y) for x, y in zip(a, b))` (stops at the first False) -/
def kgEqualL : List Val → List Val → Option Bool
  | x :: xs, y :: ys =>
    match kgEqual x y with
    | none => none
    | some false => some false
    | some true => kgEqualL xs ys
  | _, _ => some true
end

def implMatch (a b : Val) : Res :=
  if notStored a || notStored b then .unmodelled else
  match kgEqual a b with
  | some r => .ok (b2i r)                      -- kg_truth
  | none => .unmodelled

/-! ## Find  (dyads.py finditer 297–304, eval_dyad_find 335–343) -/

/-- `s.find(sub, j)` seen from the suffix `rest = s[j:]`: lowest k ≥ j with s[k:k+len(sub)] == sub -/
def pyFindFrom (sub : List Nat) : List Nat → Nat → Option Nat
  | [], j => if isPrefix sub [] then some j else none
  | c :: t, j => if isPrefix sub (c :: t) then some j else pyFindFrom sub t (j + 1)

/-- `s.find(sub, i)`; -1 = none (a start beyond the end never matches, not even "") -/
def pyFind (s sub : List Nat) (i : Nat) : Option Nat :=
  if i > s.length then none else pyFindFrom sub (s.drop i) i

/-- `finditer(s, sub)`: `i = s.find(sub, i); if i == -1: break; yield i; i += 1` -/
def finditer (fuel : Nat) (s sub : List Nat) (i : Nat) : List Nat :=
  match fuel with
  | 0 => []
  | fuel + 1 =>
    match pyFind s sub i with
    | none => []
    | some k => k :: finditer fuel s sub (k + 1)

def natVal (i : Nat) : Val := .int (i : Int)

/-- `str(b)` -/
def pyStr : Val → Option (List Nat)
  | .chr c => some [c]
  | .str s => some s
  | .sym s => some s
  | .int n => some ((toString n).toList.map Char.toNat)
  | _ => none                                 -- reals / lists: repr text not modelled

/-- `np.asarray(a) == b` for one element of a rank-1 numeric array -/
def numEq (x b : Val) : Bool :=
  match x, b with
  | .int a, .int c => a == c
  | _, _ =>
    match toF x, toF b with
    | some p, some q => p == q
    | _, _ => false

/-- 343: `np.where(np.asarray(a) == b)[0]` -/
def npWhereEq (es : List Val) (b : Val) : List Val :=
  (es.zipIdx.filter fun p => numEq p.1 b).map fun p => natVal p.2

/-- 342: `[i for i, x in enumerate(a) if kg_equal(x, b)]` -/
def findEq (b : Val) : List Val → Nat → Option (List Val)
  | [], _ => some []
  | x :: xs, i =>
    match kgEqual x b, findEq b xs (i + 1) with
    | some true, some r => some (natVal i :: r)
    | some false, some r => some r
    | _, _ => none

def implFind (a b : Val) : Res :=
  match a with
  | .str s =>                                                        -- 335–336
    match pyStr b with
    | some sub => .ok (.list ((finditer (s.length + 2) s sub 0).map natVal))
    | none => .unmodelled
  | .list es =>
    if notStored a || notStored b then .unmodelled else
    match b with
    | .dict _ => .unmodelled
    | _ =>
      -- 340: is_list(b) or a.ndim > 1 or a.dtype == 'O'
      if isListVal b || (arrShape a).length != 1 || (numShape a).isNone then
        match findEq b es 0 with
        | some r => .ok (.list r)
        | none => .unmodelled
      else .ok (.list (npWhereEq es b))                              -- 343
  | _ => .unmodelled                                                 -- dictionaries; atoms raise

/-! ## monads -/

/-- monads.py eval_monad_first 84–100: `a if is_empty(a) or not is_iterable(a) else a[0]` -/
def implFirst : Val → Res
  | .list [] => .ok (.list [])
  | .list (x :: xs) => if notStored (.list (x :: xs)) then .unmodelled else .ok x
  | .str [] => .ok (.str [])
  | .str (c :: _) => .ok (.chr c)              -- KGChar(a[0])
  | a => .ok a

/-- monads.py eval_monad_size 423–441: `np.abs(a) if is_number(a) else ord(a) if is_char(a) else len(a)` -/
def implSize : Val → Res
  | .int n => .ok (.int n.natAbs)
  | .real b => .ok (ofF (Float.abs (Float.ofBits b)))
  | .chr c => .ok (.int c)
  | .list xs => .ok (.int xs.length)
  | .str cs => .ok (.int cs.length)
  | .sym cs => .ok (.int cs.length)            -- a KGSym is a str: len of the name
  | .dict kvs => .ok (.int kvs.length)
  | .undef => .err                             -- len(KGUndefined): TypeError

/-- monads.py eval_monad_enumerate 38–51: integers only; `np.arange(int(a))` is empty for a ≤ 0 -/
def implEnumerate : Val → Res
  | .int n => .ok (.list (refEnumerate n.toNat))
  | _ => .err                                  -- RuntimeError("enumerate: invalid type error")

/-- monads.py eval_monad_atom 5–19 / types.py is_atom, is_iterable, is_empty -/
def implAtom : Val → Res
  | .list xs => .ok (b2i (xs.length == 0))     -- is_iterable: is_empty
  | .str cs => .ok (b2i (cs.length == 0))
  | _ => .ok (b2i true)                        -- not iterable (numbers, characters, symbols, dictionaries)

/-- monads.py eval_monad_list 212–226: `str(a) if is_char(a) else kg_asarray([a])` -/
def implList : Val → Res
  | .chr c => .ok (.str [c])
  | a => if notStored a then .unmodelled else .ok (.list [a])

/-- monads.py eval_monad_not 245–262, `_neg` on one member:
    1 if is_empty(x) else 0 if dict / symbol / function else kg_truth(logical_not(x)) -/
def negAtom : Val → Option Val
  | .list [] => some (.int 1)
  | .str [] => some (.int 1)
  | .dict _ => some (.int 0)
  | .sym _ => some (.int 0)
  | .int n => some (b2i (n == 0))              -- not n
  | .real b => some (b2i (Float.ofBits b == 0))
  | .chr _ => some (.int 0)                    -- not "c" is False
  | .str _ => some (.int 0)                    -- not "text" is False
  | .undef => some (.int 0)                    -- not KLONG_UNDEFINED is False
  | .list _ => none

/- `logical_not` on every element of a non-object array (shape kept) -/
mutual
def negNum : Val → Val
  | .int n => b2i (n == 0)
  | .real b => b2i (Float.ofBits b == 0)
  | .list xs => .list (negNumL xs)
  | v => v
def negNumL : List Val → List Val
  | [] => []
  | x :: xs => negNum x :: negNumL xs
end

/- `vec_fn(a, _neg)`: object arrays member by member (non-empty list members recursively),
    numeric arrays through one element-wise `logical_not` -/
mutual
def negDeep : Val → Option Val
  | .list [] => some (.int 1)
  | .list (x :: xs) =>
    if (numShape (.list (x :: xs))).isSome then some (negNum (.list (x :: xs)))
    else (negDeepL (x :: xs)).map .list
  | a => negAtom a
def negDeepL : List Val → Option (List Val)
  | [] => some []
  | x :: xs =>
    match negDeep x, negDeepL xs with
    | some r, some rs => some (r :: rs)
    | _, _ => none
end

def implNot (a : Val) : Res :=
  if notStored a then .unmodelled else
  match negDeep a with
  | some v => .ok v
  | none => .unmodelled

/-! ## verb tables -/

/-- implementation model for the dyads of this extension (`.unmodelled` = not ours) -/
def implDyad (verb : String) (a b : Val) : Res :=
  match verb with
  | ":_" => implCut a b
  | "," => implJoin a b
  | "@" => implIndex a b
  | "?" => implFind a b
  | "~" => implMatch a b
  | _ => .unmodelled

/-- implementation model for the monads of this extension -/
def implMonad (verb : String) (a : Val) : Res :=
  match verb with
  | "*" => implFirst a
  | "#" => implSize a
  | "!" => implEnumerate a
  | "@" => implAtom a
  | "," => implList a
  | "~" => implNot a
  | _ => .unmodelled

end Klong.C01.Ext1
