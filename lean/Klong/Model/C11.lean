/-
  C11 — readable output reads back to the same value.

  Mirrors (klongpy, with the three `fix:` commits of branch fix-c11):
    writer.py  kg_write, kg_write_integer/float/char/string/symbol/list/dict  -> `kgWrite`, `kgWriteList`
    parser.py  skip_space, skip, read_shifted_comment                         -> `skipSpace`, `skipF`, `readShiftedComment`
               read_num (the scanning loop, `int(...)` / `float(...)`)        -> `scanNum`, `readNum`
               read_char, read_string, read_sym                               -> `classify`/.chr, `readString`, `readSym`
               kg_read (dispatch on the first characters)                     -> `classify`, `kgReadF`
               read_list, list_to_dict                                        -> `readListF`, `mkDict`
               kg_read_data (fix: dictionaries are built, not left as calls)  -> `Val.dict` result of `kgReadF`
    sys_fn.py  eval_sys_read_string / eval_sys_read  (`.rs`, `.r`)            -> `rs`
    monads.py  eval_monad_format on atoms (`$`)                               -> `fmt`
    dyads.py   __e_dyad_form (`:$`)                                           -> `form`

  The Python code addresses the text as (t, i); nothing in the mirrored functions looks
  backwards, so the model works on the remaining suffix `t[i:]` and reports positions as
  `len t - len suffix`.

  Reals are carried as their decimal token (what `repr` yields and `float` reads back; that
  `float(repr(x)) == x` is the trusted CPython fact).  Character classes: `isnumeric`/`isdigit` and `isspace` are the ASCII ones, `isalpha` is ASCII plus the
  letter ranges of `isUniLetter`; other non-ASCII characters reach a class test only in symbol names,
  and such names are outside `WFData`.
  numpy's `kg_asarray` (lists become arrays; a *regular all-numeric* nest that mixes integers
  and reals is coerced to reals) is outside the model: `noCoerce` names the values it leaves
  alone, which is every value Klong itself constructs.
-/
import Klong.Model.Wire
namespace Klong.C11
open Klong.Wire

/-! ### values -/

inductive Val
  | int  (n : Int)
  | real (tok : List Char)      -- decimal token, e.g. `-2.5`, `1e-07`, `1e+22`
  | chr  (c : Char)
  | sym  (s : List Char)
  | str  (cs : List Char)
  | list (xs : List Val)
  | dict (es : List Val)        -- entries in insertion order, each entry `list [k, v]`
deriving Repr, BEq

/-! ### character classes (ASCII part of str.isnumeric / isalpha / isspace) -/

def isDigit (c : Char) : Bool := 48 ≤ c.toNat && c.toNat ≤ 57
/-- letters outside ASCII that the model knows: Latin-1 and Latin Extended-A letters, the Greek and
    Cyrillic basic alphabets, CJK unified ideographs (a part of what `str.isalpha` accepts; the harness
    checks every one of these code points against `str.isalpha`) -/
def isUniLetter (c : Char) : Bool :=
  let n := c.toNat
  (0xC0 ≤ n && n ≤ 0xD6) || (0xD8 ≤ n && n ≤ 0xF6) || (0xF8 ≤ n && n ≤ 0x17F) ||
  (0x391 ≤ n && n ≤ 0x3A1) || (0x3A3 ≤ n && n ≤ 0x3A9) || (0x3B1 ≤ n && n ≤ 0x3C9) ||
  (0x410 ≤ n && n ≤ 0x44F) || (0x4E00 ≤ n && n ≤ 0x9FEF)
def isAlpha (c : Char) : Bool :=
  (65 ≤ c.toNat && c.toNat ≤ 90) || (97 ≤ c.toNat && c.toNat ≤ 122) || isUniLetter c
/-- types.py `is_symbolic` -/
def isSymbolic (c : Char) : Bool := isAlpha c || isDigit c || c == '.'
def isSpace (c : Char) : Bool := c == ' ' || (9 ≤ c.toNat && c.toNat ≤ 13) || (28 ≤ c.toNat && c.toNat ≤ 31)

/-! ### decimal integers: `str(int(x))` and `int(s)` -/

def digitChar (d : Nat) : Char := Char.ofNat (48 + d)
def digitVal (c : Char) : Nat := c.toNat - 48

def showNatF : Nat → Nat → List Char
  | 0, _ => []
  | f+1, n => if n < 10 then [digitChar n] else showNatF f (n / 10) ++ [digitChar (n % 10)]

def showNat (n : Nat) : List Char := showNatF (n + 1) n

def showInt (n : Int) : List Char :=
  if n < 0 then '-' :: showNat n.natAbs else showNat n.natAbs

def readNatAcc (a : Nat) : List Char → Nat
  | [] => a
  | c :: r => readNatAcc (a * 10 + digitVal c) r

def readNat (s : List Char) : Nat := readNatAcc 0 s

/-- `int(s)` for `-?digits+`; anything else is outside the model (`none`) -/
def readInt (s : List Char) : Option Int :=
  match s with
  | [] => none
  | c :: r =>
    if c = '-' then
      if r.isEmpty || !r.all isDigit then none else some (-(readNat r : Int))
    else if !s.all isDigit then none else some (readNat s : Int)

/-! ### writer -/

/-- kg_write_string: every quote is doubled -/
def escape : List Char → List Char
  | [] => []
  | c :: r => if c = '"' then '"' :: '"' :: escape r else c :: escape r

def writeStr (cs : List Char) : List Char := '"' :: (escape cs ++ ['"'])

mutual
/-- writer.py `kg_write` (display=False) -/
def kgWrite : Val → List Char
  | .int n => showInt n
  | .real t => t
  | .chr c => ['0', 'c', c]
  | .sym s => ':' :: s
  | .str cs => writeStr cs
  | .list xs => '[' :: (kgWriteList xs ++ [']'])
  | .dict es => ':' :: '{' :: (kgWriteList es ++ ['}'])
/-- `' '.join(kg_write(q) for q in x)` -/
def kgWriteList : List Val → List Char
  | [] => []
  | [x] => kgWrite x
  | x :: y :: r => kgWrite x ++ ' ' :: kgWriteList (y :: r)
end

/-! ### lexer -/

/-- parser.py `skip_space` -/
def skipSpace (nl : Bool) : List Char → List Char
  | [] => []
  | c :: r => if isSpace c && (nl || c != '\n') then skipSpace nl r else c :: r

/-- parser.py `read_shifted_comment` (after the opening `:"`); `pend` = the previous
    character was a quote that may be the first of a doubled one -/
def readShiftedComment (pend : Bool) : List Char → List Char
  | [] => []
  | c :: r =>
    if pend then (if c = '"' then readShiftedComment false r else c :: r)
    else if c = '"' then readShiftedComment true r
    else readShiftedComment false r

def startsComment : List Char → Bool
  | c1 :: c2 :: _ => c1 == ':' && c2 == '"'
  | _ => false

/-- parser.py `skip`: blanks, then any number of shifted comments (the recursive call drops
    `ignore_newline`, as the code does); fuel = remaining comments that can still fit -/
def skipF : Nat → Bool → List Char → List Char
  | 0, nl, s => skipSpace nl s
  | f+1, nl, s =>
    if startsComment (skipSpace nl s) then
      skipF f false (readShiftedComment false ((skipSpace nl s).drop 2))
    else skipSpace nl s

/-- parser.py `read_string` (after the opening quote): (rest, contents); `pend` = the previous
    character was a quote: a second one is a literal quote, anything else ends the string -/
def readString (pend : Bool) : List Char → List Char × List Char
  | [] => ([], [])
  | c :: r =>
    if pend then
      if c = '"' then let p := readString false r; (p.1, '"' :: p.2) else (c :: r, [])
    else if c = '"' then readString true r
    else let p := readString false r; (p.1, c :: p.2)

def signNext : List Char → Bool
  | s :: _ => s == '-' || s == '+'
  | [] => false

/-- parser.py `read_num`, the scanning loop after the optional sign:
    (token characters consumed, rest, use_float) starting from flag `fl`.
    At an `e` followed by a sign the code advances by three characters (`e`, the sign and,
    unchecked, the one after it): `k` counts the characters still to be taken blindly. -/
def scanNum (k : Nat) (fl : Bool) : List Char → List Char × List Char × Bool
  | [] => ([], [], fl)
  | c :: r =>
    if k > 0 then
      let p := scanNum (k - 1) fl r; (c :: p.1, p.2.1, p.2.2)
    else if c = '.' then
      let p := scanNum 0 true r; (c :: p.1, p.2.1, p.2.2)
    else if c = 'e' then
      let p := scanNum (if signNext r then 2 else 0) true r; (c :: p.1, p.2.1, p.2.2)
    else if isDigit c then
      let p := scanNum 0 fl r; (c :: p.1, p.2.1, p.2.2)
    else ([], c :: r, fl)

/-- the real tokens of the model: what `repr` prints for a finite float and `float` reads back,
    `-?d+(.d+)?(e[+-]d+)?` with a `.` or an `e`.  (`float` accepts more — `1.`, `.5`, `1e5` —
    but would not print those back; they are outside the model.) -/
inductive TokSt
  | s0   -- after the optional sign: a digit must come
  | s1   -- in the integer digits
  | s2   -- after the point: a digit must come
  | s3   -- in the fraction digits
  | s4   -- after `e`: a sign must come
  | s4b  -- after the exponent sign: a digit must come
  | s5   -- in the exponent digits
deriving DecidableEq, Repr

def accTok : TokSt → List Char → Bool
  | .s0, c :: r => isDigit c && accTok .s1 r
  | .s1, c :: r =>
    if isDigit c then accTok .s1 r
    else if c = '.' then accTok .s2 r
    else if c = 'e' then accTok .s4 r
    else false
  | .s2, c :: r => isDigit c && accTok .s3 r
  | .s3, [] => true
  | .s3, c :: r =>
    if isDigit c then accTok .s3 r
    else if c = 'e' then accTok .s4 r
    else false
  | .s4, c :: r => (c == '+' || c == '-') && accTok .s4b r
  | .s4b, c :: r => isDigit c && accTok .s5 r
  | .s5, [] => true
  | .s5, c :: r => isDigit c && accTok .s5 r
  | _, [] => false

def wfRealTok (t : List Char) : Bool :=
  match t with
  | c :: r => if c = '-' then accTok .s0 r else accTok .s0 t
  | [] => false

/-- the end of `read_num`: `float(t[p:i]) if use_float else int(t[p:i])` -/
def finishNum (sign : Bool) (p : List Char × List Char × Bool) : Option (Val × List Char) :=
  let tok := if sign then '-' :: p.1 else p.1
  if p.2.2 then
    if wfRealTok tok then some (.real tok, p.2.1) else none
  else
    match readInt tok with
    | some n => some (.int n, p.2.1)
    | none => none

/-- parser.py `read_num` on the suffix starting at the number -/
def readNum (s : List Char) : Option (Val × List Char) :=
  if s.head? = some '-' then finishNum true (scanNum 0 false (s.drop 1))
  else finishNum false (scanNum 0 false s)

/-- parser.py `read_sym` (module None; reserved names map to the same symbol) -/
def readSym (s : List Char) : Val × List Char :=
  (.sym (s.takeWhile isSymbolic), s.dropWhile isSymbolic)

/-- the branch `kg_read` takes, decided on the first characters (after `skip`) -/
inductive Lex
  | eof | punct | chr | num | str | colonSym | colonRead | colonDict | colonOther
  | lst | sym | op
deriving Repr, DecidableEq

def classify (neg : Bool) : List Char → Lex
  | [] => .eof
  | a :: r =>
    if a = '\n' ∨ a = ';' ∨ a = '(' ∨ a = ')' ∨ a = '{' ∨ a = '}' ∨ a = ']' then .punct
    else if a = '0' ∧ r.head? = some 'c' then .chr
    else if isDigit a ∨ (neg = true ∧ a = '-' ∧ (r.head?.map isDigit) = some true) then .num
    else if a = '"' then .str
    else if a = ':' then
      match r with
      | [] => .op
      | aa :: _ =>
        if isAlpha aa ∨ aa = '.' then .colonSym
        else if isDigit aa ∨ aa = '"' then .colonRead
        else if aa = '{' then .colonDict
        else .colonOther
    else if a = '[' then .lst
    else if isSymbolic a then .sym
    else .op

/-! ### dictionaries: Python key equality and `list_to_dict` -/

/-- a decimal token as (mantissa, exponent of ten); only used to compare keys -/
def decOf (t : List Char) : Option (Int × Int) :=
  let neg := match t with | '-' :: _ => true | _ => false
  let t1 := if neg then t.drop 1 else t
  let d1 := t1.takeWhile isDigit
  let r1 := t1.dropWhile isDigit
  let r1' := match r1 with | '.' :: r => r | _ => r1
  let d2 := match r1 with | '.' :: _ => r1'.takeWhile isDigit | _ => []
  let r2 := match r1 with | '.' :: _ => r1'.dropWhile isDigit | _ => r1'
  let m : Int := (readNat (d1 ++ d2) : Int) * (if neg then -1 else 1)
  match r2 with
  | [] => some (m, -(d2.length : Int))
  | 'e' :: r3 =>
    let eneg := match r3 with | '-' :: _ => true | _ => false
    let r4 := match r3 with | '+' :: r => r | '-' :: r => r | _ => r3
    if r4.isEmpty || !r4.all isDigit then none
    else some (m, (readNat r4 : Int) * (if eneg then -1 else 1) - (d2.length : Int))
  | _ => none

def numOf : Val → Option (Int × Int)
  | .int n => some (n, 0)
  | .real t => decOf t
  | _ => none

/-- m1·10^e1 = m2·10^e2 -/
def decEq (a b : Int × Int) : Bool :=
  let e := min a.2 b.2
  a.1 * (10 : Int) ^ (a.2 - e).toNat == b.1 * (10 : Int) ^ (b.2 - e).toNat

/-- Python `==` (with equal hashes) between a stored dictionary key `a` and a looked-up key `b` -/
def keyEq (a b : Val) : Bool :=
  match a, b with
  | .sym s, .sym t => s == t
  | .chr c, .chr d => c == d
  | .str s, .str t => s == t
  | .chr c, .str t => [c] == t
  | .str s, .chr d => s == [d]
  | .chr c, .sym t => [c] == t      -- stored character, looked-up symbol: KGChar inherits str.__eq__
  | x, y =>
    match numOf x, numOf y with
    | some p, some q => decEq p q
    | _, _ => false

def isKey : Val → Bool
  | .list _ => false
  | .dict _ => false
  | _ => true

/-- `d[k] = v` on an insertion-ordered dictionary whose entries are `list [k, v]` -/
def dictSet (k v : Val) : List Val → List Val
  | [] => [.list [k, v]]
  | e :: es =>
    match e with
    | .list (k' :: rest) => if keyEq k' k then .list (k' :: v :: rest.drop 1) :: es else e :: dictSet k v es
    | _ => e :: dictSet k v es

/-- parser.py `list_to_dict`: `{x[0]: x[1] for x in a}` over what `read_list` returned;
    entries that are not lists of at least two elements, or unhashable keys, raise -/
def mkDictAcc (acc : List Val) : List Val → Option (List Val)
  | [] => some acc
  | e :: es =>
    match e with
    | .list (k :: v :: _) => if isKey k then mkDictAcc (dictSet k v acc) es else none
    | _ => none

def mkDict (es : List Val) : Option (List Val) := mkDictAcc [] es

/-! ### reader -/

mutual
/-- parser.py `kg_read` (+ `kg_read_data`): `none` = the code raises or yields something that
    is not a data value (operator, punctuation); `some (none, rest)` = Python `None` at the
    end of the text. -/
def kgReadF : Nat → Bool → Bool → List Char → Option (Option Val × List Char)
  | 0, _, _, _ => none
  | f+1, neg, nl, s0 =>
    let s := skipF f nl s0
    match classify neg s with
    | .eof => some (none, [])
    | .punct => none
    | .chr =>
      match s with
      | _ :: _ :: c :: r => some (some (.chr c), r)
      | _ => none
    | .num => (readNum s).map fun p => (some p.1, p.2)
    | .str => let p := readString false (s.drop 1); some (some (.str p.2), p.1)
    | .colonSym => let p := readSym (s.drop 1); some (some p.1, p.2)
    | .colonRead => kgReadF f false nl (s.drop 1)
    | .colonDict =>
      match readListF f '}' (s.drop 2) with
      | some (es, rest) => (mkDict es).map fun d => (some (.dict d), rest)
      | none => none
    | .colonOther => none
    | .lst =>
      match readListF f ']' (s.drop 1) with
      | some (xs, rest) => some (some (.list xs), rest)
      | none => none
    | .sym => let p := readSym s; some (some p.1, p.2)
    | .op => none
/-- parser.py `read_list` (one loop iteration per call) -/
def readListF : Nat → Char → List Char → Option (List Val × List Char)
  | 0, _, _ => none
  | f+1, delim, s0 =>
    match skipF f true s0 with
    | [] => some ([], [])
    | c :: r =>
      if c = delim then some ([], r)
      else
        match kgReadF f true true (c :: r) with
        | none => none
        | some (none, rest) => some ([], rest)
        | some (some q, rest) =>
          match readListF f delim rest with
          | some (qs, rest') => some (q :: qs, rest')
          | none => none
end

/-- `.rs(text)` / `.r()` on `text`: the value read at position 0 and the end position -/
def rs (t : List Char) : Option (Val × Nat) :=
  match kgReadF (t.length + 2) true false t with
  | some (some v, rest) => some (v, t.length - rest.length)
  | _ => none

/-! ### Format and Form on atoms -/

/-- monads.py `eval_monad_format` on an atom -/
def fmt : Val → Option (List Char)
  | .int n => some (showInt n)
  | .real t => some t
  | .chr c => some [c]
  | .sym s => some (':' :: s)
  | .str cs => some cs
  | _ => none

/-- a symbol name the reader accepts after `:` -/
def wfSym (s : List Char) : Bool :=
  match s with
  | c :: _ => (isAlpha c || c == '.') && s.all isSymbolic
  | [] => false

/-- dyads.py `__e_dyad_form`: `a:$b`; `none` = :undefined, an exception, or outside the model -/
def form (a : Val) (b : List Char) : Option Val :=
  match a with
  | .sym _ =>
    if b.isEmpty then none
    else some (.sym (if b.head? == some ':' then b.drop 1 else b))
  | .int _ =>
    if b.isEmpty || (b.contains '.' && wfRealTok b) then none
    else (readInt b).map .int
  | .real _ => if wfRealTok b then some (.real b) else none
  | .chr _ => match b with | [c] => some (.chr c) | _ => none
  | .str _ => some (.str b)
  | _ => none

/-! ### the data domain -/

mutual
/-- token-level well-formedness: real tokens, symbol names, dictionary shape and keys -/
def wfTok : Val → Bool
  | .int _ => true
  | .real t => wfRealTok t
  | .chr _ => true
  | .sym s => wfSym s
  | .str _ => true
  | .list xs => wfTokList xs
  | .dict es => wfTokList es && entriesOK es && keysDistinct es
def wfTokList : List Val → Bool
  | [] => true
  | x :: r => wfTok x && wfTokList r
/-- every entry is `list [k, v]` with a hashable key -/
def entriesOK : List Val → Bool
  | [] => true
  | e :: r => (match e with | .list [k, _] => isKey k | _ => false) && entriesOK r
def keyOf : Val → Val
  | .list (k :: _) => k
  | v => v
/-- no two entries have keys that are equal as Python keys -/
def keysDistinct : List Val → Bool
  | [] => true
  | e :: r => r.all (fun e' => !keyEq (keyOf e) (keyOf e')) && keysDistinct r
end

mutual
/-- numpy shape of a nest of numbers, `none` if ragged or not all numeric -/
def shapeOf : Val → Option (List Nat)
  | .int _ => some []
  | .real _ => some []
  | .list xs => shapesOf xs
  | _ => none
def shapesOf : List Val → Option (List Nat)
  | [] => some [0]
  | [x] => (shapeOf x).map fun s => 1 :: s
  | x :: y :: r =>
    match shapeOf x, shapesOf (y :: r) with
    | some s, some (n :: s') => if s = s' then some ((n + 1) :: s) else none
    | _, _ => none
end

mutual
def hasInt : Val → Bool
  | .int _ => true
  | .list xs => hasIntL xs
  | _ => false
def hasIntL : List Val → Bool
  | [] => false
  | x :: r => hasInt x || hasIntL r
end

mutual
def hasReal : Val → Bool
  | .real _ => true
  | .list xs => hasRealL xs
  | _ => false
def hasRealL : List Val → Bool
  | [] => false
  | x :: r => hasReal x || hasRealL r
end

/-- `kg_asarray` would turn the integers of this list into reals -/
def coerces (v : Val) : Bool := (shapeOf v).isSome && hasInt v && hasReal v

mutual
/-- no list anywhere in the value is coerced by `kg_asarray` (dictionary entries `[k v]`
    are taken apart by `list_to_dict` before any conversion) -/
def noCoerce : Val → Bool
  | .list xs => !coerces (.list xs) && noCoerceL xs
  | .dict es => noCoerceE es
  | _ => true
def noCoerceL : List Val → Bool
  | [] => true
  | x :: r => noCoerce x && noCoerceL r
def noCoerceE : List Val → Bool
  | [] => true
  | e :: r => (match e with | .list xs => noCoerceL xs | v => noCoerce v) && noCoerceE r
end

/-- the data values of the property: finite reals as `repr` prints them (no inf/nan, which
    print as `inf`/`nan` and read back as symbols), readable symbol names, dictionaries with
    atom keys, and lists as Klong constructs them -/
def wfData (v : Val) : Bool := wfTok v && noCoerce v

def WFData (v : Val) : Prop := wfData v = true
instance (v : Val) : Decidable (WFData v) := by unfold WFData; exact inferInstance

/-! ### Match (`~`), as far as it is needed: at least as fine as Klong's -/

mutual
def vmatch : Val → Val → Bool
  | .int a, .int b => a == b
  | .real a, .real b => a == b
  | .chr a, .chr b => a == b
  | .sym a, .sym b => a == b
  | .str a, .str b => a == b
  | .chr a, .str b => [a] == b
  | .str a, .chr b => a == [b]
  | .list a, .list b => vmatchL a b
  | .dict a, .dict b => vmatchL a b
  | _, _ => false
def vmatchL : List Val → List Val → Bool
  | [], [] => true
  | x :: r, y :: r' => vmatch x y && vmatchL r r'
  | _, _ => false
end

/-! ### driver: wire format without blanks

    value  ::= i<int> | r<cps> | c<cp> | y<cps> | s<cps> | L(<value>,…) | D(<value>,…)
    cps    ::= decimal code points separated by `.` (possibly empty)                     -/

def showCps (cs : List Char) : String := ".".intercalate (cs.map fun c => toString c.toNat)

def parseCps (s : String) : Option (List Char) :=
  if s.isEmpty then some []
  else (s.splitOn ".").mapM fun w => w.toNat?.map Char.ofNat

mutual
def showVal : Val → String
  | .int n => s!"i{n}"
  | .real t => "r" ++ showCps t
  | .chr c => s!"c{c.toNat}"
  | .sym s => "y" ++ showCps s
  | .str cs => "s" ++ showCps cs
  | .list xs => "L(" ++ showVals xs ++ ")"
  | .dict es => "D(" ++ showVals es ++ ")"
def showVals : List Val → String
  | [] => ""
  | [x] => showVal x
  | x :: y :: r => showVal x ++ "," ++ showVals (y :: r)
end

def isAtomChar (c : Char) : Bool := isDigit c || c == '.' || c == '-'

mutual
def parseValF : Nat → List Char → Option (Val × List Char)
  | 0, _ => none
  | f+1, s =>
    match s with
    | [] => none
    | tag :: r =>
      if tag = 'L' ∨ tag = 'D' then
        match r with
        | '(' :: r1 =>
          match r1 with
          | ')' :: r2 => some (if tag = 'L' then .list [] else .dict [], r2)
          | _ =>
            match parseValsF f r1 with
            | some (xs, r2) => some (if tag = 'L' then .list xs else .dict xs, r2)
            | none => none
        | _ => none
      else
        let body := String.ofList (r.takeWhile isAtomChar)
        let rest := r.dropWhile isAtomChar
        if tag = 'i' then body.toInt?.map fun n => (.int n, rest)
        else if tag = 'r' then (parseCps body).map fun t => (.real t, rest)
        else if tag = 'c' then body.toNat?.map fun n => (.chr (Char.ofNat n), rest)
        else if tag = 'y' then (parseCps body).map fun t => (.sym t, rest)
        else if tag = 's' then (parseCps body).map fun t => (.str t, rest)
        else none
/-- one or more values separated by `,` and closed by `)` -/
def parseValsF : Nat → List Char → Option (List Val × List Char)
  | 0, _ => none
  | f+1, s =>
    match parseValF f s with
    | none => none
    | some (v, r) =>
      match r with
      | ')' :: r' => some ([v], r')
      | ',' :: r' =>
        match parseValsF f r' with
        | some (vs, r'') => some (v :: vs, r'')
        | none => none
      | _ => none
end

def parseVal (s : String) : Option Val :=
  match parseValF (s.length + 1) s.toList with
  | some (v, []) => some v
  | _ => none

structure State where
  unit : Unit := ()

def init : State := {}

def b01 (b : Bool) : String := if b then "1" else "0"

def showRead (t : List Char) : String :=
  match kgReadF (t.length + 2) true false t with
  | some (some v, rest) => s!"v={showVal v} end={t.length - rest.length}"
  | some (none, rest) => s!"v=eof end={t.length - rest.length}"
  | none => "v=none end=0"

def handle (s : State) (ws : List String) : State × String :=
  match ws with
  | ["rt", x] =>
    match parseVal x with
    | some v =>
      let t := kgWrite v
      let same := match rs t with | some (v', _) => v' == v && kgWrite v' == t | none => false
      (s, s!"ok t={showCps t} {showRead t} wf={b01 (wfData v)} tok={b01 (wfTok v)} same={b01 same}")
    | none => (s, "bad-op")
  | ["w", x] =>
    match parseVal x with
    | some v => (s, s!"ok t={showCps (kgWrite v)}")
    | none => (s, "bad-op")
  | ["r", x] =>
    match parseCps x with
    | some t => (s, "ok " ++ showRead t)
    | none => (s, "bad-op")
  | ["r"] => (s, "ok " ++ showRead [])
  | ["cls", x] =>
    -- character classes of one code point
    match x.toNat? with
    | some n =>
      let c := Char.ofNat n
      (s, s!"ok alpha={b01 (isAlpha c)} digit={b01 (isDigit c)} space={b01 (isSpace c)} symbolic={b01 (isSymbolic c)}")
    | none => (s, "bad-op")
  | ["ff", x] =>
    -- x:$$x
    match parseVal x with
    | some v =>
      match fmt v with
      | some t =>
        match form v t with
        | some v' => (s, s!"ok t={showCps t} v={showVal v'}")
        | none => (s, s!"ok t={showCps t} v=none")
      | none => (s, "ok t= v=none")
    | none => (s, "bad-op")
  | _ => (s, "bad-op")

end Klong.C11
