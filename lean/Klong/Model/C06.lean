/-
  C06 — gradient operators return the mathematical derivative.

  Two parts, both generic over a scalar type `α` carrying `+ - * / neg` and a cast from
  `Nat` (instantiated by the driver with core `Rat` — exact, printed `num/den` — and with
  `Float` for the transcendental named functions; by the proofs with any commutative ring).

  `Diff`    the reference: expression trees over the differentiable Klong operations
            (`+ - * %`, integer powers, negate, `+/`, `*/`, `@` indexing, named unary
            functions with a supplied derivative), their value `eval`, the symbolic
            derivative `D`, and `evalDual` = evaluation in the ring of dual numbers
            (forward-mode differentiation).  `Props/C06.lean` proves
            `(evalDual e).eps = eval (D e)`.

  `NumGrad` what the anchored code does (klongpy/autograd.py):
              numeric_grad                     -> `gradStep`, `numGradState`, `numGrad`
              numeric_jacobian                 -> `jacStep`, `numJacState`, `numJacobian`
              multi_grad_of_fn (numeric branch,
                single_param_fn / call_fn_with_tensors) -> `multiGradState`, `multiGrad`
              multi_jacobian_of_fn (numeric)   -> `multiJacobian`
            The function differentiated is an arbitrary `f`; every call of `f` is logged
            (`probes`) so that the theorems can speak about what each probe perturbed.
            Spec: `centralDiff f eps x idx`.
-/
import Klong.Model.Wire
namespace Klong.C06
open Klong.Wire

/-! ## Diff: expressions, value, symbolic derivative, dual numbers -/

/-- expression trees over the differentiable operations. `var i` is component `i` of the
    (flattened) point; `fn k ord a` is the `ord`-th derivative of the named unary
    function number `k`, applied to `a` (so `fn k 0 a` is the function itself). -/
inductive Expr (α : Type) where
  | const (c : α)
  | var (i : Nat)
  | add (a b : Expr α)
  | sub (a b : Expr α)
  | mul (a b : Expr α)
  | div (a b : Expr α)
  | neg (a : Expr α)
  | pow (a : Expr α) (n : Nat)
  | sum (es : List (Expr α))
  | prod (es : List (Expr α))
  | idx (es : List (Expr α)) (i : Nat)
  | fn (k : Nat) (ord : Nat) (a : Expr α)

section Generic
variable {α : Type} [Add α] [Sub α] [Mul α] [Div α] [Neg α] [NatCast α]

/-- `a^n` by repeated multiplication -/
def npow (a : α) : Nat → α
  | 0 => ((1 : Nat) : α)
  | n + 1 => npow a n * a

/-- named unary functions: `F k ord` is the `ord`-th derivative of function `k` -/
abbrev FnEnv (α : Type) := Nat → Nat → α → α

mutual
/-- value of an expression at the point `p` -/
def eval (F : FnEnv α) (p : List α) : Expr α → α
  | .const c => c
  | .var i => p.getD i ((0 : Nat) : α)
  | .add a b => eval F p a + eval F p b
  | .sub a b => eval F p a - eval F p b
  | .mul a b => eval F p a * eval F p b
  | .div a b => eval F p a / eval F p b
  | .neg a => - eval F p a
  | .pow a n => npow (eval F p a) n
  | .sum es => evalSum F p es
  | .prod es => evalProd F p es
  | .idx es i => evalIdx F p es i
  | .fn k ord a => F k ord (eval F p a)
def evalSum (F : FnEnv α) (p : List α) : List (Expr α) → α
  | [] => ((0 : Nat) : α)
  | e :: es => eval F p e + evalSum F p es
def evalProd (F : FnEnv α) (p : List α) : List (Expr α) → α
  | [] => ((1 : Nat) : α)
  | e :: es => eval F p e * evalProd F p es
def evalIdx (F : FnEnv α) (p : List α) : List (Expr α) → Nat → α
  | [], _ => ((0 : Nat) : α)
  | e :: _, 0 => eval F p e
  | _ :: es, i + 1 => evalIdx F p es i
end

mutual
/-- symbolic partial derivative with respect to `var v`: the textbook rules -/
def D (v : Nat) : Expr α → Expr α
  | .const _ => .const ((0 : Nat) : α)
  | .var i => if i = v then .const ((1 : Nat) : α) else .const ((0 : Nat) : α)
  | .add a b => .add (D v a) (D v b)
  | .sub a b => .sub (D v a) (D v b)
  | .mul a b => .add (.mul (D v a) b) (.mul a (D v b))
  | .div a b => .div (.sub (.mul (D v a) b) (.mul a (D v b))) (.mul b b)
  | .neg a => .neg (D v a)
  | .pow _ 0 => .const ((0 : Nat) : α)
  | .pow a (n + 1) => .mul (.mul (.const ((n + 1 : Nat) : α)) (.pow a n)) (D v a)
  | .sum es => .sum (DList v es)
  | .prod es => DProd v es
  | .idx es i => .idx (DList v es) i
  | .fn k ord a => .mul (.fn k (ord + 1) a) (D v a)
def DList (v : Nat) : List (Expr α) → List (Expr α)
  | [] => []
  | e :: es => D v e :: DList v es
/-- general product rule: `(e * Π es)' = e' * Π es + e * (Π es)'` -/
def DProd (v : Nat) : List (Expr α) → Expr α
  | [] => .const ((0 : Nat) : α)
  | e :: es => .add (.mul (D v e) (.prod es)) (.mul e (DProd v es))
end

/-- general power `u^v` with a non-constant exponent, `u > 0`: by definition `exp (v · ln u)`
    (named functions 5 = `exp`, 6 = `log` of `fnNames`); `D` then gives
    `u^v · (v' · ln u + v · u'/u) = v·u^(v-1)·u' + u^v·ln u·v'` by the chain and product rules.
    (Integer constant exponents stay `pow`, exact over the rationals.) -/
def gpow (a b : Expr α) : Expr α := .fn 5 0 (.mul b (.fn 6 0 a))

/-- dual numbers `val + eps·ε`, `ε² = 0` -/
structure Dual (α : Type) where
  val : α
  eps : α
deriving Repr

namespace Dual
def ofConst (c : α) : Dual α := ⟨c, ((0 : Nat) : α)⟩
def add (x y : Dual α) : Dual α := ⟨x.val + y.val, x.eps + y.eps⟩
def sub (x y : Dual α) : Dual α := ⟨x.val - y.val, x.eps - y.eps⟩
def mul (x y : Dual α) : Dual α := ⟨x.val * y.val, x.eps * y.val + x.val * y.eps⟩
def div (x y : Dual α) : Dual α :=
  ⟨x.val / y.val, (x.eps * y.val - x.val * y.eps) / (y.val * y.val)⟩
def neg (x : Dual α) : Dual α := ⟨- x.val, - x.eps⟩
/-- power by repeated dual multiplication (no power rule built in) -/
def npow (x : Dual α) : Nat → Dual α
  | 0 => ofConst ((1 : Nat) : α)
  | n + 1 => mul (npow x n) x
end Dual

mutual
/-- forward-mode evaluation: the expression evaluated over dual numbers, the point
    seeded with `ε` in component `v` -/
def evalDual (F : FnEnv α) (p : List α) (v : Nat) : Expr α → Dual α
  | .const c => Dual.ofConst c
  | .var i => ⟨p.getD i ((0 : Nat) : α), if i = v then ((1 : Nat) : α) else ((0 : Nat) : α)⟩
  | .add a b => Dual.add (evalDual F p v a) (evalDual F p v b)
  | .sub a b => Dual.sub (evalDual F p v a) (evalDual F p v b)
  | .mul a b => Dual.mul (evalDual F p v a) (evalDual F p v b)
  | .div a b => Dual.div (evalDual F p v a) (evalDual F p v b)
  | .neg a => Dual.neg (evalDual F p v a)
  | .pow a n => Dual.npow (evalDual F p v a) n
  | .sum es => dualSum F p v es
  | .prod es => dualProd F p v es
  | .idx es i => dualIdx F p v es i
  | .fn k ord a =>
    let d := evalDual F p v a
    ⟨F k ord d.val, F k (ord + 1) d.val * d.eps⟩
def dualSum (F : FnEnv α) (p : List α) (v : Nat) : List (Expr α) → Dual α
  | [] => Dual.ofConst ((0 : Nat) : α)
  | e :: es => Dual.add (evalDual F p v e) (dualSum F p v es)
def dualProd (F : FnEnv α) (p : List α) (v : Nat) : List (Expr α) → Dual α
  | [] => Dual.ofConst ((1 : Nat) : α)
  | e :: es => Dual.mul (evalDual F p v e) (dualProd F p v es)
def dualIdx (F : FnEnv α) (p : List α) (v : Nat) : List (Expr α) → Nat → Dual α
  | [], _ => Dual.ofConst ((0 : Nat) : α)
  | e :: _, 0 => evalDual F p v e
  | _ :: es, i + 1 => dualIdx F p v es i
end

/-- the gradient oracle: `∂e/∂x_v` for every component of a point of dimension `n` -/
def gradient (F : FnEnv α) (p : List α) (e : Expr α) : List α :=
  (List.range p.length).map fun v => (evalDual F p v e).eps

/-- the Jacobian oracle: row `i` is the gradient of output `i` -/
def jacobian (F : FnEnv α) (p : List α) (es : List (Expr α)) : List (List α) :=
  es.map (gradient F p)

/-! ## NumGrad: the loops of klongpy/autograd.py -/

/-- the central difference the property speaks of:
    `(f(x + eps·e_idx) − f(x − eps·e_idx)) / (2·eps)` -/
def centralDiff (f : List α → α) (eps : α) (x : List α) (idx : Nat) : α :=
  let orig := x.getD idx ((0 : Nat) : α)
  (f (x.set idx (orig + eps)) - f (x.set idx (orig - eps))) / (((2 : Nat) : α) * eps)

/-- state of `numeric_grad`'s loop: the working array `x` (mutated in place and restored),
    the result `grad`, and the arguments `func` has been called with (`x.copy()`) -/
structure GState (α : Type) where
  x : List α
  grad : List α
  probes : List (List α)

/-- body of `while not it.finished` for the (row-major flat) multi-index `idx`:
      orig = float(x[idx]); x[idx] = orig + eps; f_pos = func(x.copy())
      x[idx] = orig - eps; f_neg = func(x.copy())
      grad[idx] = (f_pos - f_neg) / (2 * eps); x[idx] = orig                     -/
def gradStep (f : List α → α) (eps : α) (s : GState α) (idx : Nat) : GState α :=
  let orig := s.x.getD idx ((0 : Nat) : α)
  let x1 := s.x.set idx (orig + eps)
  let fpos := f x1
  let x2 := x1.set idx (orig - eps)
  let fneg := f x2
  { x := x2.set idx orig
    grad := s.grad.set idx ((fpos - fneg) / (((2 : Nat) : α) * eps))
    probes := s.probes ++ [x1, x2] }

/-- `numeric_grad(func, x, backend, eps)`: `grad = zeros_like(x)`, then every multi-index
    in `np.nditer` order (row-major for the C-contiguous arrays `np.asarray` yields) -/
def numGradState (f : List α → α) (eps : α) (x : List α) : GState α :=
  (List.range x.length).foldl (gradStep f eps)
    { x := x, grad := List.replicate x.length ((0 : Nat) : α), probes := [] }

def numGrad (f : List α → α) (eps : α) (x : List α) : List α := (numGradState f eps x).grad

/-- elementwise `(f_plus - f_minus) / (2 * eps)` -/
def colDiff (eps : α) (fp fm : List α) : List α :=
  List.zipWith (fun a b => (a - b) / (((2 : Nat) : α) * eps)) fp fm

/-- `jacobian[:, j] = col` on an `m × n` matrix stored as a list of rows -/
def setCol (J : List (List α)) (j : Nat) (col : List α) : List (List α) :=
  List.zipWith (fun row c => row.set j c) J col

structure JState (α : Type) where
  jac : List (List α)
  probes : List (List α)

/-- body of `for j in range(n)` of `numeric_jacobian`: fresh copies `x_plus`, `x_minus` -/
def jacStep (g : List α → List α) (eps : α) (x : List α) (s : JState α) (j : Nat) : JState α :=
  let xp := x.set j (x.getD j ((0 : Nat) : α) + eps)
  let xm := x.set j (x.getD j ((0 : Nat) : α) - eps)
  { jac := setCol s.jac j (colDiff eps (g xp) (g xm)), probes := s.probes ++ [xp, xm] }

/-- `numeric_jacobian(func, x, backend, eps)`: `f0 = func(x)` fixes `m`; `zeros((m, n))` -/
def numJacState (g : List α → List α) (eps : α) (x : List α) : JState α :=
  let m := (g x).length
  (List.range x.length).foldl (jacStep g eps x)
    { jac := List.replicate m (List.replicate x.length ((0 : Nat) : α)), probes := [x] }

def numJacobian (g : List α → List α) (eps : α) (x : List α) : List (List α) :=
  (numJacState g eps x).jac

/-- `single_param_fn(v, idx=i)` of `multi_grad_of_fn`: `vals = list(param_values);
    vals[idx] = v; call_fn_with_tensors(vals)` — every symbol is rebound to `vals` for the
    call and restored afterwards, so the loss sees exactly `vals` -/
def singleParamFn (f : List (List α) → α) (params : List (List α)) (i : Nat) (v : List α) : α :=
  f (params.set i v)

structure MState (α : Type) where
  grads : List (List α)
  probes : List (List (List α))     -- the parameter bindings the loss was evaluated under

/-- numeric branch of `multi_grad_of_fn`: one `numeric_grad` per parameter -/
def multiGradState (f : List (List α) → α) (eps : α) (params : List (List α)) : MState α :=
  (List.range params.length).foldl
    (fun s i =>
      let g := numGradState (singleParamFn f params i) eps (params.getD i [])
      { grads := s.grads ++ [g.grad], probes := s.probes ++ g.probes.map (fun v => params.set i v) })
    { grads := [], probes := [] }

def multiGrad (f : List (List α) → α) (eps : α) (params : List (List α)) : List (List α) :=
  (multiGradState f eps params).grads

/-- numeric branch of `multi_jacobian_of_fn`: `single_param_fn` sets one symbol, calls,
    restores it; the other symbols keep their values -/
def multiJacobian (g : List (List α) → List α) (eps : α) (params : List (List α)) :
    List (List (List α)) :=
  (List.range params.length).map fun i =>
    numJacobian (fun v => g (params.set i v)) eps (params.getD i [])

end Generic

/-! ## driver: exact rationals and floats -/

instance : NatCast Float := ⟨Float.ofNat⟩

def fact : Nat → Nat
  | 0 => 1
  | n + 1 => (n + 1) * fact n

def fnNames : List String := ["sq", "cube", "recip", "sin", "cos", "exp", "log", "sqrt", "tanh"]

/-- exact named functions: `sq`, `cube`, `recip` with all their derivatives -/
def ratFn : FnEnv Rat := fun k ord x =>
  match k, ord with
  | 0, 0 => x * x
  | 0, 1 => 2 * x
  | 0, 2 => 2
  | 0, _ => 0
  | 1, 0 => x * x * x
  | 1, 1 => 3 * x * x
  | 1, 2 => 6 * x
  | 1, 3 => 6
  | 1, _ => 0
  | 2, n => (if n % 2 = 0 then 1 else -1) * (fact n : Rat) / npow x (n + 1)
  | _, _ => 0

def nan : Float := 0.0 / 0.0

def floatFn : FnEnv Float := fun k ord x =>
  match k, ord with
  | 0, 0 => x * x
  | 0, 1 => 2 * x
  | 0, 2 => 2
  | 0, _ => 0
  | 1, 0 => x * x * x
  | 1, 1 => 3 * x * x
  | 1, 2 => 6 * x
  | 1, 3 => 6
  | 1, _ => 0
  | 2, n => (if n % 2 = 0 then 1 else -1) * Float.ofNat (fact n) / npow x (n + 1)
  | 3, n => match n % 4 with
    | 0 => Float.sin x | 1 => Float.cos x | 2 => - Float.sin x | _ => - Float.cos x
  | 4, n => match n % 4 with
    | 0 => Float.cos x | 1 => - Float.sin x | 2 => - Float.cos x | _ => Float.sin x
  | 5, _ => Float.exp x
  | 6, 0 => Float.log x
  | 6, n + 1 => (if n % 2 = 0 then 1 else -1) * Float.ofNat (fact n) / npow x (n + 1)
  | 7, 0 => Float.sqrt x
  | 7, 1 => 1 / (2 * Float.sqrt x)
  | 8, 0 => Float.tanh x
  | 8, 1 => 1 - Float.tanh x * Float.tanh x
  | _, _ => nan

def parseRat (s : String) : Option (Int × Nat) :=
  match s.splitOn "/" with
  | [n, d] =>
    match n.toInt?, d.toNat? with
    | some n, some d => if d = 0 then none else some (n, d)
    | _, _ => none
  | [n] => n.toInt?.map fun n => (n, 1)
  | _ => none

def fnIndex (name : String) : Option Nat :=
  let rec go : List String → Nat → Option Nat
    | [], _ => none
    | s :: rest, i => if s = name then some i else go rest (i + 1)
  go fnNames 0

section Parse
variable {α : Type} (mk : Int → Nat → α)

mutual
/-- prefix token stream: `c:n/d  v:i  + - * /  n  p:k  S:k  P:k  I:k:i  f:name:ord` -/
def parseE : Nat → List String → Option (Expr α × List String)
  | 0, _ => none
  | _, [] => none
  | fuel + 1, t :: rest =>
    match t.splitOn ":" with
    | ["c", r] => (parseRat r).map fun q => (.const (mk q.1 q.2), rest)
    | ["v", i] => i.toNat?.map fun i => (.var i, rest)
    | ["+"] => (parseN fuel 2 rest).bind fun
        | ([a, b], r) => some (.add a b, r)
        | _ => none
    | ["-"] => (parseN fuel 2 rest).bind fun
        | ([a, b], r) => some (.sub a b, r)
        | _ => none
    | ["*"] => (parseN fuel 2 rest).bind fun
        | ([a, b], r) => some (.mul a b, r)
        | _ => none
    | ["/"] => (parseN fuel 2 rest).bind fun
        | ([a, b], r) => some (.div a b, r)
        | _ => none
    | ["n"] => (parseE fuel rest).map fun (a, r) => (.neg a, r)
    | ["p", k] =>
      match k.toNat? with
      | some k => (parseE fuel rest).map fun (a, r) => (.pow a k, r)
      | none => none
    | ["S", k] =>
      match k.toNat? with
      | some k => (parseN fuel k rest).map fun (es, r) => (.sum es, r)
      | none => none
    | ["P", k] =>
      match k.toNat? with
      | some k => (parseN fuel k rest).map fun (es, r) => (.prod es, r)
      | none => none
    | ["I", k, i] =>
      match k.toNat?, i.toNat? with
      | some k, some i => (parseN fuel k rest).map fun (es, r) => (.idx es i, r)
      | _, _ => none
    | ["f", name, ord] =>
      match fnIndex name, ord.toNat? with
      | some k, some ord => (parseE fuel rest).map fun (a, r) => (.fn k ord a, r)
      | _, _ => none
    | _ => none
def parseN : Nat → Nat → List String → Option (List (Expr α) × List String)
  | 0, _, _ => none
  | _, 0, ts => some ([], ts)
  | fuel + 1, k + 1, ts =>
    match parseE fuel ts with
    | some (e, r) => (parseN fuel k r).map fun (es, r') => (e :: es, r')
    | none => none
end

/-- a whole expression: every token consumed -/
def parseExpr (s : String) : Option (Expr α) :=
  let ts := splitOnChar s ','
  match parseE mk (2 * ts.length + 2) ts with
  | some (e, []) => some e
  | _ => none

def parseExprs (s : String) : Option (List (Expr α)) :=
  (splitOnChar s ';').mapM (parseExpr mk)
end Parse

def mkRatC (n : Int) (d : Nat) : Rat := mkRat n d
def mkFloatC (n : Int) (d : Nat) : Float := Float.ofInt n / Float.ofNat d

def showRat (q : Rat) : String := s!"{q.num}/{q.den}"
def showRats (qs : List Rat) : String := ",".intercalate (qs.map showRat)
def showRows (rows : List (List Rat)) : String := ";".intercalate (rows.map showRats)

def parseRats (s : String) : Option (List Rat) :=
  (splitOnChar s ',').mapM fun t => (parseRat t).map fun q => mkRat q.1 q.2

/-- `r,r;r;r,r,r` — a list of parameter vectors -/
def parseBlocks (s : String) : Option (List (List Rat)) :=
  (splitOnChar s ';').mapM parseRats

def hexNat (s : String) : Option Nat :=
  s.toList.foldlM (fun acc c => (hexDigit c).map fun d => 16 * acc + d) 0

def parseFloats (s : String) : Option (List Float) :=
  (splitOnChar s ',').mapM fun t =>
    if t.length = 16 then (hexNat t).map fun n => Float.ofBits n.toUInt64 else none

def hex16 (n : UInt64) : String :=
  let digits := (List.range 16).map fun i => hexChar ((n.toNat >>> (4 * (15 - i))) % 16)
  String.ofList digits

def showFloats (xs : List Float) : String := ",".intercalate (xs.map fun x => hex16 x.toBits)

/-- flatten parameter blocks into one point; `var` numbers run through the blocks in order -/
def flatten (ps : List (List Rat)) : List Rat := ps.flatten

structure State where
  unit : Unit := ()

def init : State := {}

/-- requests
      grad      e=<expr> p=<rats>                 exact gradient by dual numbers (+ value)
      gradsym   e=<expr> p=<rats>                 the same through the symbolic derivative `D`
      jac       es=<expr;expr..> p=<rats>         exact Jacobian (row i = output i)
      gradf     e=<expr> p=<float bits>           the same in `Float` (transcendental functions)
      numgrad   e=<expr> p=<rats> eps=<rat>       the `numeric_grad` loop, exactly: result, probes, final x
      numjac    es=<..>  p=<rats> eps=<rat>       the `numeric_jacobian` loop: result, probes
      multigrad e=<expr> params=<r,r;r;..> eps=.. the `multi_grad_of_fn` numeric branch            -/
def handle (s : State) (ws : List String) : State × String :=
  match ws with
  | "grad" :: rest =>
    let fs := fields rest
    match parseExpr mkRatC (fieldD fs "e"), parseRats (fieldD fs "p") with
    | some e, some p =>
      (s, s!"ok val={showRat (eval ratFn p e)} grad={showRats (gradient ratFn p e)}")
    | _, _ => (s, "bad-op")
  | "gradsym" :: rest =>
    let fs := fields rest
    match parseExpr mkRatC (fieldD fs "e"), parseRats (fieldD fs "p") with
    | some e, some p =>
      let g := (List.range p.length).map fun v => eval ratFn p (D v e)
      (s, s!"ok val={showRat (eval ratFn p e)} grad={showRats g}")
    | _, _ => (s, "bad-op")
  | "jac" :: rest =>
    let fs := fields rest
    match parseExprs mkRatC (fieldD fs "es"), parseRats (fieldD fs "p") with
    | some es, some p =>
      (s, s!"ok val={showRats (es.map (eval ratFn p))} jac={showRows (jacobian ratFn p es)}")
    | _, _ => (s, "bad-op")
  | "gradf" :: rest =>
    let fs := fields rest
    match parseExpr mkFloatC (fieldD fs "e"), parseFloats (fieldD fs "p") with
    | some e, some p =>
      (s, s!"ok val={showFloats [eval floatFn p e]} grad={showFloats (gradient floatFn p e)}")
    | _, _ => (s, "bad-op")
  | "numgrad" :: rest =>
    let fs := fields rest
    match parseExpr mkRatC (fieldD fs "e"), parseRats (fieldD fs "p"), parseRat (fieldD fs "eps") with
    | some e, some p, some q =>
      let st := numGradState (fun y => eval ratFn y e) (mkRat q.1 q.2) p
      (s, s!"ok grad={showRats st.grad} probes={showRows st.probes} x={showRats st.x}")
    | _, _, _ => (s, "bad-op")
  | "numjac" :: rest =>
    let fs := fields rest
    match parseExprs mkRatC (fieldD fs "es"), parseRats (fieldD fs "p"), parseRat (fieldD fs "eps") with
    | some es, some p, some q =>
      let st := numJacState (fun y => es.map (eval ratFn y)) (mkRat q.1 q.2) p
      (s, s!"ok jac={showRows st.jac} probes={showRows st.probes}")
    | _, _, _ => (s, "bad-op")
  | "multigrad" :: rest =>
    let fs := fields rest
    match parseExpr mkRatC (fieldD fs "e"), parseBlocks (fieldD fs "params"), parseRat (fieldD fs "eps") with
    | some e, some ps, some q =>
      let st := multiGradState (fun bs => eval ratFn (flatten bs) e) (mkRat q.1 q.2) ps
      let probes := "|".intercalate (st.probes.map showRows)
      (s, s!"ok grads={showRows st.grads} probes={probes}")
    | _, _, _ => (s, "bad-op")
  | _ => (s, "bad-op")

end Klong.C06
