/-
  C20 — web routes and websocket messages reach their Klong handler exactly once, intact.

  Mirrors (repaired tree, branch fix-c20):
    klongpy/web/sys_fn_web.py
      eval_sys_fn_create_web_server   -> `regStep` / `build`   (the two `for route, fn in …items()` loops,
                                         the arity / KGCall skips, `KGFnWrapper(klong, fn)`, the closures
                                         `_get` / `_post` with `fn=fn_wrapped, route=route` default arguments)
      _get / _post                    -> `request`             (try: 200 str(fn(params)) / except: 400)
      eval_sys_fn_shutdown_web_server -> `webc`                (1 and stop when the runner is live, else 0)
    klongpy/types.py
      KGFnWrapper.__init__/_find_symbol -> `findSym`           (first symbol of the context bound to the object)
      KGFnWrapper.__call__              -> `resolve`, `invoke` (re-resolution by name, arity check)
    klongpy/ws/sys_fn_ws.py
      NetworkClient._run/_listen, run_command_on_klongloop, execute_server_command -> `Ws.listen`, `Ws.run`
      encode_message / NumpyEncoder.default -> `encode`        (`scalars` = the repaired default())
      NetworkClient.call                    -> `send`
      decode_message (json.loads), json.dumps -> `parse`, `render` (modelled, CPython's json is trusted)

  The closure capture is explicit: `Capture.early` is what the code does (default arguments
  evaluated when `def` runs), `Capture.late` is the variant in which `_get`/`_post` read the
  loop variables `fn_wrapped`/`route` when the request arrives.
-/
import Klong.Model.Wire
namespace Klong.C20
open Klong.Wire

/-! ## Json: values, text codec (json.dumps defaults / json.loads) -/

inductive JVal
  | null
  | bool (b : Bool)
  | num (n : Int)
  | real (lit : String)          -- a float, by its literal (repr round-trips through float: trusted)
  | str (s : String)
  | arr (xs : List JVal)
  | obj (kvs : List (String × JVal))
deriving Repr, Inhabited

/-- decimal digits of a natural number (fuel = n+1 is always enough) -/
def digitChar (d : Nat) : Char := Char.ofNat (48 + d)

def natDigitsF : Nat → Nat → List Char
  | 0, _ => []
  | f + 1, n => if n < 10 then [digitChar n] else natDigitsF f (n / 10) ++ [digitChar (n % 10)]

def natDigits (n : Nat) : List Char := natDigitsF (n + 1) n

def intDigits (n : Int) : List Char :=
  if n < 0 then '-' :: natDigits n.natAbs else natDigits n.natAbs

def hex4 (n : Nat) : List Char :=
  [hexChar (n / 4096 % 16), hexChar (n / 256 % 16), hexChar (n / 16 % 16), hexChar (n % 16)]

/-- json.dumps with ensure_ascii=True: `"` `\` and everything outside ' '..'~' is escaped -/
def escChar (c : Char) : List Char :=
  if c = '"' then ['\\', '"']
  else if c = '\\' then ['\\', '\\']
  else if c = '\n' then ['\\', 'n']
  else if c = '\r' then ['\\', 'r']
  else if c = '\t' then ['\\', 't']
  else if c = '\x08' then ['\\', 'b']
  else if c = '\x0c' then ['\\', 'f']
  else if 32 ≤ c.toNat ∧ c.toNat ≤ 126 then [c]
  else if c.toNat < 65536 then '\\' :: 'u' :: hex4 c.toNat
  else
    let n := c.toNat - 65536
    ('\\' :: 'u' :: hex4 (55296 + n / 1024)) ++ ('\\' :: 'u' :: hex4 (56320 + n % 1024))

def escChars : List Char → List Char
  | [] => []
  | c :: cs => escChar c ++ escChars cs

def renderStr (s : String) : List Char := '"' :: (escChars s.toList ++ ['"'])

mutual
/-- `json.dumps(v)` with the default separators `", "` and `": "` -/
def render : JVal → List Char
  | .null => ['n', 'u', 'l', 'l']
  | .bool true => ['t', 'r', 'u', 'e']
  | .bool false => ['f', 'a', 'l', 's', 'e']
  | .num n => intDigits n
  | .real l => l.toList
  | .str s => renderStr s
  | .arr xs => '[' :: (renderElems xs ++ [']'])
  | .obj kvs => '{' :: (renderMembers kvs ++ ['}'])
def renderElems : List JVal → List Char
  | [] => []
  | [v] => render v
  | v :: w :: t => render v ++ (',' :: ' ' :: renderElems (w :: t))
def renderMembers : List (String × JVal) → List Char
  | [] => []
  | [(k, v)] => renderStr k ++ (':' :: ' ' :: render v)
  | (k, v) :: p :: t => renderStr k ++ (':' :: ' ' :: render v) ++ (',' :: ' ' :: renderMembers (p :: t))
end

def isWs (c : Char) : Bool := c = ' ' || c = '\n' || c = '\t' || c = '\r'

def skipWs : List Char → List Char
  | [] => []
  | c :: cs => if isWs c then skipWs cs else c :: cs

def isDigit (c : Char) : Bool := 48 ≤ c.toNat && c.toNat ≤ 57

def isNumChar (c : Char) : Bool :=
  isDigit c || c = '-' || c = '+' || c = '.' || c = 'e' || c = 'E'

/-- the maximal prefix of number characters -/
def takeNum : List Char → List Char × List Char
  | [] => ([], [])
  | c :: cs => if isNumChar c then ((takeNum cs).1 |> (c :: ·), (takeNum cs).2) else ([], c :: cs)

def digitsVal (ds : List Char) : Nat := ds.foldl (fun a c => a * 10 + (c.toNat - 48)) 0

def dropDigits : List Char → List Char
  | [] => []
  | c :: cs => if isDigit c then dropDigits cs else c :: cs

/-- `[eE][+-]?digits` or nothing -/
def validExp : List Char → Bool
  | [] => true
  | e :: r =>
    (e = 'e' || e = 'E') &&
    (match r with
     | '+' :: c :: r' => isDigit c && (dropDigits r').isEmpty
     | '-' :: c :: r' => isDigit c && (dropDigits r').isEmpty
     | c :: r' => isDigit c && (dropDigits r').isEmpty
     | [] => false)

/-- `(.digits)?` then the exponent -/
def validFrac : List Char → Bool
  | '.' :: c :: r => isDigit c && validExp (dropDigits r)
  | r => validExp r

/-- the JSON number grammar `-?(0|[1-9][0-9]*)(.[0-9]+)?([eE][+-]?[0-9]+)?` -/
def validNum (tok : List Char) : Bool :=
  match (match tok with | '-' :: r => r | r => r) with
  | [] => false
  | c :: r => if c = '0' then validFrac r else isDigit c && validFrac (dropDigits r)

def leadingZero : List Char → Bool
  | '0' :: _ :: _ => true
  | _ => false

/-- a number token: an integer when it is an optional '-' and digits, else a real kept by its literal -/
def numOfToken (tok : List Char) : Option JVal :=
  match tok with
  | '-' :: ds =>
    if !ds.isEmpty && ds.all isDigit then
      if leadingZero ds then none else some (.num (-(digitsVal ds : Int)))
    else if validNum tok then some (.real (String.ofList tok)) else none
  | ds =>
    if !ds.isEmpty && ds.all isDigit then
      if leadingZero ds then none else some (.num (digitsVal ds))
    else if validNum tok then some (.real (String.ofList tok)) else none

/-- hex digit of either case (json.loads accepts both, json.dumps emits lower case) -/
def hexDigitAny (c : Char) : Option Nat :=
  if 'A' ≤ c ∧ c ≤ 'F' then some (c.toNat - 'A'.toNat + 10) else hexDigit c

def unhex4 (a b c d : Char) : Option Nat :=
  match hexDigitAny a, hexDigitAny b, hexDigitAny c, hexDigitAny d with
  | some w, some x, some y, some z => some (w * 4096 + x * 256 + y * 16 + z)
  | _, _, _, _ => none

def consStr (c : Char) (r : Option (List Char × List Char)) : Option (List Char × List Char) :=
  match r with
  | some (s, rest) => some (c :: s, rest)
  | none => none

/-- body of a string after the opening quote: (characters, rest after the closing quote).
    The fuel bounds the number of characters looked at. -/
def parseStrBody : Nat → List Char → Option (List Char × List Char)
  | 0, _ => none
  | _ + 1, [] => none
  | f + 1, c :: r =>
    if c = '"' then some ([], r)
    else if c = '\\' then
      match r with
      | 'u' :: h1 :: h2 :: h3 :: h4 :: r1 =>
        match unhex4 h1 h2 h3 h4 with
        | none => none
        | some hi =>
          if 55296 ≤ hi ∧ hi < 56320 then
            match r1 with
            | '\\' :: 'u' :: l1 :: l2 :: l3 :: l4 :: r2 =>
              match unhex4 l1 l2 l3 l4 with
              | some lo =>
                if 56320 ≤ lo ∧ lo < 57344 then
                  consStr (Char.ofNat (65536 + (hi - 55296) * 1024 + (lo - 56320))) (parseStrBody f r2)
                else none
              | none => none
            | _ => none
          else if 56320 ≤ hi ∧ hi < 57344 then none
          else consStr (Char.ofNat hi) (parseStrBody f r1)
      | '"' :: r1 => consStr '"' (parseStrBody f r1)
      | '\\' :: r1 => consStr '\\' (parseStrBody f r1)
      | '/' :: r1 => consStr '/' (parseStrBody f r1)
      | 'n' :: r1 => consStr '\n' (parseStrBody f r1)
      | 'r' :: r1 => consStr '\r' (parseStrBody f r1)
      | 't' :: r1 => consStr '\t' (parseStrBody f r1)
      | 'b' :: r1 => consStr '\x08' (parseStrBody f r1)
      | 'f' :: r1 => consStr '\x0c' (parseStrBody f r1)
      | _ => none
    else if c.toNat < 32 then none
    else consStr c (parseStrBody f r)

mutual
/-- recursive descent with fuel (every level consumes a character, so `length + 1` suffices) -/
def parseV : Nat → List Char → Option (JVal × List Char)
  | 0, _ => none
  | f + 1, cs =>
    match skipWs cs with
    | [] => none
    | c :: r =>
      if c = '"' then
        match parseStrBody (r.length + 1) r with
        | some (s, r') => some (.str (String.ofList s), r')
        | none => none
      else if c = '[' then
        match skipWs r with
        | ']' :: r' => some (.arr [], r')
        | _ => match parseElems f r with
          | some (xs, r') => some (.arr xs, r')
          | none => none
      else if c = '{' then
        match skipWs r with
        | '}' :: r' => some (.obj [], r')
        | _ => match parseMembers f r with
          | some (kvs, r') => some (.obj kvs, r')
          | none => none
      else if c = 'n' then
        match r with
        | 'u' :: 'l' :: 'l' :: r' => some (.null, r')
        | _ => none
      else if c = 't' then
        match r with
        | 'r' :: 'u' :: 'e' :: r' => some (.bool true, r')
        | _ => none
      else if c = 'f' then
        match r with
        | 'a' :: 'l' :: 's' :: 'e' :: r' => some (.bool false, r')
        | _ => none
      else if isNumChar c then
        match numOfToken (takeNum (c :: r)).1 with
        | some v => some (v, (takeNum (c :: r)).2)
        | none => none
      else none
/-- elements after `[` or `,` up to and including the closing `]` -/
def parseElems : Nat → List Char → Option (List JVal × List Char)
  | 0, _ => none
  | f + 1, cs =>
    match parseV f cs with
    | none => none
    | some (v, r) =>
      match skipWs r with
      | ',' :: r' =>
        match parseElems f r' with
        | some (xs, r'') => some (v :: xs, r'')
        | none => none
      | ']' :: r' => some ([v], r')
      | _ => none
/-- members after `{` or `,` up to and including the closing `}` -/
def parseMembers : Nat → List Char → Option (List (String × JVal) × List Char)
  | 0, _ => none
  | f + 1, cs =>
    match skipWs cs with
    | '"' :: r =>
      match parseStrBody (r.length + 1) r with
      | none => none
      | some (k, r1) =>
        match skipWs r1 with
        | ':' :: r2 =>
          match parseV f r2 with
          | none => none
          | some (v, r3) =>
            match skipWs r3 with
            | ',' :: r4 =>
              match parseMembers f r4 with
              | some (kvs, r5) => some ((String.ofList k, v) :: kvs, r5)
              | none => none
            | '}' :: r4 => some ([(String.ofList k, v)], r4)
            | _ => none
        | _ => none
    | _ => none
end

/-- `json.loads` -/
def parse (cs : List Char) : Option JVal :=
  match parseV (cs.length + 1) cs with
  | some (v, r) => if (skipWs r).isEmpty then some v else none
  | none => none

/-! ## Web -/

abbrev Name := String
abbrev Path := String
abbrev Params := List (String × String)
abbrev LogEntry := Nat × Params            -- (identity of the function whose body ran, its argument)

inductive Capture | early | late
deriving DecidableEq, Repr

inductive Method | get | post
deriving DecidableEq, Repr

/-- what one invocation of a handler body does -/
inductive Outcome
  | ret (text : String)     -- returns a value whose `str()` is `text`
  | raised
deriving DecidableEq, Repr

/-- a Klong function object: identity (`is`), `fn.arity` (for a projection such as `f("a";"b";)`: the
    arity of the underlying function), behaviour of its body on a parameter dictionary, and — for a
    projection — the number of open slots (`None`s in `fn.args`); 0 for a plain function -/
structure Fn where
  id : Nat
  arity : Nat
  beh : Params → Outcome
  openSlots : Nat := 0

/-- `KGFnWrapper._apply`: a projection takes as many arguments as it has open slots -/
def Fn.callArity (f : Fn) : Nat := if f.openSlots = 0 then f.arity else f.openSlots

/-- the slip of counting the fixed arguments instead of the holes -/
def Fn.callArityFixedCounted (f : Fn) : Nat := if f.openSlots = 0 then f.arity else f.arity - f.openSlots

/-- a value of the interpreter: a plain KGFn, a KGCall (e.g. a wrapped Python callable), anything else -/
inductive EVal
  | fn (f : Fn)
  | call
  | other

/-- global variables in order of first definition (the order `KlongContext.__iter__` yields them) -/
abbrev Env := List (Name × EVal)

def Env.define (e : Env) (n : Name) (v : EVal) : Env :=
  if e.any (fun p => p.1 == n) then e.map (fun p => if p.1 == n then (n, v) else p)
  else e ++ [(n, v)]

def isFnWithId (i : Nat) : EVal → Bool
  | .fn g => g.id == i
  | _ => false

/-- `KGFnWrapper._find_symbol`: the first symbol whose value *is* the function object -/
def findSym (env : Env) (f : Fn) : Option Name :=
  (env.find? fun p => isFnWithId f.id p.2).map (·.1)

/-- `KGFnWrapper(klong, fn)` -/
structure Wrapped where
  orig : Fn
  sym : Option Name

def wrap (env : Env) (f : Fn) : Wrapped := ⟨f, findSym env f⟩

/-- `KGFnWrapper.__call__`: the current definition of the remembered symbol if it is a plain
    function, otherwise the function object given at registration -/
def resolve (env : Env) (w : Wrapped) : Fn :=
  match w.sym with
  | none => w.orig
  | some n =>
    match env.lookup n with
    | some (.fn g) => g
    | _ => w.orig

/-- call through the wrapper with one argument: arity mismatch raises before the body runs -/
def invoke (env : Env) (w : Wrapped) (ps : Params) : List LogEntry × Outcome :=
  let g := resolve env w
  if g.callArity = 1 then ([(g.id, ps)], g.beh ps) else ([], .raised)

structure Closure where
  fn : Wrapped
  route : Path

/-- how `_get` / `_post` reach `fn` and `route` -/
inductive Slot
  | bound (c : Closure)      -- default arguments: evaluated when the `def` statement runs
  | free                     -- free variables: read from the enclosing scope when the handler runs

/-- the locals `route`, `fn_wrapped` of eval_sys_fn_create_web_server (shared by both loops) -/
structure Vars where
  route : Option Path := none
  wrapped : Option Wrapped := none

structure Reg where
  table : List (Path × Slot) := []
  vars : Vars := {}

/-- one iteration of `for route, fn in y.items()` -/
def regStep (cap : Capture) (env : Env) (r : Reg) (e : Path × EVal) : Reg :=
  let vars1 : Vars := { r.vars with route := some e.1 }
  match e.2 with
  | .fn f =>
    if f.arity = 1 then
      let w := wrap env f
      let slot := match cap with
        | .early => Slot.bound ⟨w, e.1⟩
        | .late => Slot.free
      { table := r.table ++ [(e.1, slot)], vars := { vars1 with wrapped := some w } }
    else { r with vars := vars1 }          -- "handler function requires arity 1": continue
  | _ => { r with vars := vars1 }          -- KGCall ("cannot be a function call") / arity 0: continue

abbrev Routes := List (Path × EVal)

structure Server where
  gets : List (Path × Slot)
  posts : List (Path × Slot)
  vars : Vars
  env : Env
  up : Bool

/-- `.web(addr; gets; posts)` -/
def build (cap : Capture) (env : Env) (gets posts : Routes) : Server :=
  let rg := gets.foldl (regStep cap env) {}
  let rp := posts.foldl (regStep cap env) { table := [], vars := rg.vars }
  { gets := rg.table, posts := rp.table, vars := rp.vars, env := env, up := true }

def closureOf (v : Vars) : Slot → Option Closure
  | .bound c => some c
  | .free =>
    match v.wrapped, v.route with
    | some w, some r => some ⟨w, r⟩
    | _, _ => none

inductive Resp
  | ok (body : String)      -- 200
  | bad                     -- 400 "Invalid request"
  | notFound                -- 404 (aiohttp router)
  | notAllowed              -- 405 (aiohttp router: path known, other method)
  | noAnswer                -- connection refused
deriving DecidableEq, Repr

def respOf : Outcome → Resp
  | .ret t => .ok t
  | .raised => .bad

def Server.table (s : Server) : Method → List (Path × Slot)
  | .get => s.gets
  | .post => s.posts

def Method.other : Method → Method
  | .get => .post
  | .post => .get

/-- one HTTP request: the response and the handler invocations it caused -/
def request (s : Server) (m : Method) (p : Path) (ps : Params) : Resp × List LogEntry :=
  if !s.up then (.noAnswer, [])
  else
    match (s.table m).lookup p with
    | some slot =>
      match closureOf s.vars slot with
      | some c => (respOf (invoke s.env c.fn ps).2, (invoke s.env c.fn ps).1)
      | none => (.bad, [])                  -- NameError inside the try block
    | none =>
      if ((s.table m.other).lookup p).isSome then (.notAllowed, []) else (.notFound, [])

/-- what `_get` / `_post` hand to the handler: `dict(request.rel_url.query)` for a GET (a body is
    not looked at), `dict(await request.post())` for a POST (the URL's query string is not looked at) -/
def paramsFor : Method → Params → Params → Params
  | .get, query, _ => query
  | .post, _, form => form

/-- a request as it travels: method, path, query string and form body -/
def requestRaw (s : Server) (m : Method) (p : Path) (query form : Params) : Resp × List LogEntry :=
  request s m p (paramsFor m query form)

inductive Op
  | req (m : Method) (p : Path) (ps : Params)
  | define (n : Name) (v : EVal)           -- `n::…` evaluated between requests
  | webc                                    -- `.webc(wh)`

inductive Out
  | resp (r : Resp)
  | defined
  | closed (ret : Nat)
deriving DecidableEq, Repr

def step (s : Server) : Op → Server × Out × List LogEntry
  | .req m p ps => (s, .resp (request s m p ps).1, (request s m p ps).2)
  | .define n v => ({ s with env := s.env.define n v }, .defined, [])
  | .webc => if s.up then ({ s with up := false }, .closed 1, []) else (s, .closed 0, [])

def run (s : Server) : List Op → Server × List Out × List LogEntry
  | [] => (s, [], [])
  | op :: ops =>
    ((run (step s op).1 ops).1, (step s op).2.1 :: (run (step s op).1 ops).2.1,
     (step s op).2.2 ++ (run (step s op).1 ops).2.2)

/-! ### specification: look the route up in the dictionaries the user passed -/

/-- the routes a dictionary registers: plain functions of arity 1, with the symbol found for them -/
def registered (env : Env) : Routes → List (Path × Wrapped)
  | [] => []
  | (p, .fn f) :: t => if f.arity = 1 then (p, wrap env f) :: registered env t else registered env t
  | (_, _) :: t => registered env t

structure Spec where
  gets : List (Path × Wrapped)
  posts : List (Path × Wrapped)
  env : Env
  up : Bool

def specOf (env : Env) (gets posts : Routes) : Spec :=
  { gets := registered env gets, posts := registered env posts, env := env, up := true }

def Spec.table (a : Spec) : Method → List (Path × Wrapped)
  | .get => a.gets
  | .post => a.posts

def Spec.request (a : Spec) (m : Method) (p : Path) (ps : Params) : Resp × List LogEntry :=
  if !a.up then (.noAnswer, [])
  else
    match (a.table m).lookup p with
    | some w => (respOf (invoke a.env w ps).2, (invoke a.env w ps).1)
    | none => if ((a.table m.other).lookup p).isSome then (.notAllowed, []) else (.notFound, [])

def Spec.step (a : Spec) : Op → Spec × Out × List LogEntry
  | .req m p ps => (a, .resp (a.request m p ps).1, (a.request m p ps).2)
  | .define n v => ({ a with env := a.env.define n v }, .defined, [])
  | .webc => if a.up then ({ a with up := false }, .closed 1, []) else (a, .closed 0, [])

def Spec.run (a : Spec) : List Op → Spec × List Out × List LogEntry
  | [] => (a, [], [])
  | op :: ops =>
    (((a.step op).1.run ops).1, (a.step op).2.1 :: ((a.step op).1.run ops).2.1,
     (a.step op).2.2 ++ ((a.step op).1.run ops).2.2)

/-! ## WsLoop: `NetworkClient._run` / `_listen` as a fold over the arriving frames -/

namespace Ws

/-- what arrives or happens between frames -/
inductive Ev
  | frame (text : List Char)       -- a text frame
  | redef (id : Nat)               -- `.ws.m::…` re-evaluated: handler identity changes
deriving Repr

structure State where
  alive : Bool := true             -- the `while self.running: await self._listen(…)` loop is still going
  handler : Nat                    -- identity of the current `.ws.m`

abbrev Entry := Nat × JVal         -- (handler identity, the value it was called with)

def isNull : JVal → Bool
  | .null => true
  | _ => false

/-- one `_listen` round (or a redefinition). `h` = does the handler body raise on this value. -/
def listen (raises : Nat → JVal → Bool) (s : State) : Ev → State × List Entry
  | .redef i => ({ s with handler := i }, [])
  | .frame t =>
    if !s.alive then (s, [])                        -- nobody calls recv() any more
    else
      match parse t with
      | none => ({ s with alive := false }, [])     -- json.loads raises: `_run` breaks out of the loop
      | some j =>
        if isNull j then (s, [])                    -- r(nc, None): None is an unfilled argument, body not run
        else if raises s.handler j then ({ s with alive := false }, [(s.handler, j)])
        else (s, [(s.handler, j)])

def run (raises : Nat → JVal → Bool) (s : State) : List Ev → State × List Entry
  | [] => (s, [])
  | e :: es =>
    ((run raises (listen raises s e).1 es).1,
     (listen raises s e).2 ++ (run raises (listen raises s e).1 es).2)

end Ws

/-! ## Sending: `NetworkClient.call` = `json.dumps(msg, cls=NumpyEncoder)` then `send` -/

/-- the Python object Klong hands to `ws(x)` -/
inductive KVal
  | pyint (n : Int)                       -- int (a literal)
  | npint (n : Int)                       -- numpy integer scalar (any arithmetic result)
  | real (lit : String)                   -- float / np.float64 (a float subclass), by repr
  | str (s : String)                      -- str, KGChar, KGSym
  | arr (xs : List KVal)                  -- ndarray (`tolist()`; typed arrays hold pyint/real after tolist)
  | dict (kvs : List (String × KVal))     -- dict with string keys
  | undef                                 -- KGUndefined and everything else json cannot serialise
deriving Repr, Inhabited

mutual
/-- `json.dumps(v, cls=NumpyEncoder)` as a tree; `scalars` = default() converts numpy scalars
    (true on the repaired tree, false on the pinned tree) -/
def encode (scalars : Bool) : KVal → Option JVal
  | .pyint n => some (.num n)
  | .npint n => if scalars then some (.num n) else none
  | .real l => some (.real l)
  | .str s => some (.str s)
  | .arr xs =>
    match encodeL scalars xs with
    | some js => some (.arr js)
    | none => none
  | .dict kvs =>
    match encodeD scalars kvs with
    | some js => some (.obj js)
    | none => none
  | .undef => none
def encodeL (scalars : Bool) : List KVal → Option (List JVal)
  | [] => some []
  | v :: t =>
    match encode scalars v, encodeL scalars t with
    | some j, some js => some (j :: js)
    | _, _ => none
def encodeD (scalars : Bool) : List (String × KVal) → Option (List (String × JVal))
  | [] => some []
  | (k, v) :: t =>
    match encode scalars v, encodeD scalars t with
    | some j, some js => some ((k, j) :: js)
    | _, _ => none
end

mutual
/-- the JSON reading of a Klong value (specification) -/
def jsonView : KVal → JVal
  | .pyint n => .num n
  | .npint n => .num n
  | .real l => .real l
  | .str s => .str s
  | .arr xs => .arr (jsonViewL xs)
  | .dict kvs => .obj (jsonViewD kvs)
  | .undef => .null
def jsonViewL : List KVal → List JVal
  | [] => []
  | v :: t => jsonView v :: jsonViewL t
def jsonViewD : List (String × KVal) → List (String × JVal)
  | [] => []
  | (k, v) :: t => (k, jsonView v) :: jsonViewD t
end

mutual
/-- nothing unserialisable inside -/
def sendable : KVal → Bool
  | .undef => false
  | .arr xs => sendableL xs
  | .dict kvs => sendableD kvs
  | _ => true
def sendableL : List KVal → Bool
  | [] => true
  | v :: t => sendable v && sendableL t
def sendableD : List (String × KVal) → Bool
  | [] => true
  | (_, v) :: t => sendable v && sendableD t
end

/-- the text frame `ws(x)` puts on the wire (none: nothing well-formed is sent) -/
def send (scalars : Bool) (v : KVal) : Option (List Char) := (encode scalars v).map render

/-! ### send histories: a program amends one dictionary in place and sends it several times
    (`NetworkClient.call` encodes in the caller's thread, the io loop only transmits the text) -/

inductive SendTiming
  | atCall       -- the code: `encode_message(msg)` inside `call`, before anything is queued
  | atFlush      -- the variant that queues the live object and encodes when the io loop gets to it
deriving DecidableEq, Repr

inductive SOp
  | set (k : String) (v : KVal)      -- `d,k,,v` (in place)
  | send                             -- `c(d)`

def dset (d : List (String × KVal)) (k : String) (v : KVal) : List (String × KVal) :=
  if d.any (fun p => p.1 == k) then d.map (fun p => if p.1 == k then (k, v) else p) else d ++ [(k, v)]

/-- the dictionary when the program has ended -/
def finalDict (d : List (String × KVal)) : List SOp → List (String × KVal)
  | [] => d
  | .set k v :: ops => finalDict (dset d k v) ops
  | .send :: ops => finalDict d ops

/-- the frames the peer records when the io loop runs only after the program (gated loop, or the
    program itself running on the io loop) -/
def sendHistory (t : SendTiming) (d : List (String × KVal)) : List SOp → List (Option (List Char))
  | [] => []
  | .set k v :: ops => sendHistory t (dset d k v) ops
  | .send :: ops =>
    (match t with
     | .atCall => send true (.dict d)
     | .atFlush => send true (.dict (finalDict d ops))) :: sendHistory t d ops

/-- specification: the dictionary as it was at each send -/
def statesAtSends (d : List (String × KVal)) : List SOp → List (List (String × KVal))
  | [] => []
  | .set k v :: ops => statesAtSends (dset d k v) ops
  | .send :: ops => d :: statesAtSends d ops

/-! ## driver (line protocol; structured arguments travel as hex of UTF-8 JSON text) -/

def hexToStr (h : String) : Option String :=
  match parseHex h with
  | none => none
  | some bs => String.fromUTF8? (ByteArray.mk (bs.map UInt8.ofNat).toArray)

def strToHex (s : String) : String := toHex (s.toUTF8.toList.map UInt8.toNat)

def jsonField (fs : List (String × String)) (k : String) : Option JVal :=
  match fs.lookup k with
  | none => none
  | some h => match hexToStr h with
    | none => none
    | some t => parse t.toList

def JVal.get? (k : String) : JVal → Option JVal
  | .obj kvs => kvs.lookup k
  | _ => none

def JVal.nat? : JVal → Option Nat
  | .num n => if 0 ≤ n then some n.toNat else none
  | _ => none

def JVal.str? : JVal → Option String
  | .str s => some s
  | _ => none

/-- handler bodies of the harness: `{rec(id;x);"text"}`, `{rec(id;x);x?"key"}`, `{rec(id;x);#x}`,
    `{rec(id;x);boom(0)}` -/
inductive Body
  | const (text : String)
  | echo (key : String)
  | count
  | raise

def Body.eval : Body → Params → Outcome
  | .const t, _ => .ret t
  | .echo k, ps => .ret ((ps.lookup k).getD ":undefined")
  | .count, ps => .ret (String.ofList (natDigits ps.length))
  | .raise, _ => .raised

def bodyOfJson : JVal → Option Body
  | .arr [.str "const", .str t] => some (.const t)
  | .arr [.str "echo", .str k] => some (.echo k)
  | .arr [.str "count"] => some .count
  | .arr [.str "raise"] => some .raise
  | _ => none

def evalOfJson : JVal → Option EVal
  | .str "call" => some .call
  | .str "other" => some .other
  | j =>
    match j.get? "id", j.get? "arity", j.get? "body" with
    | some i, some a, some b =>
      match i.nat?, a.nat?, bodyOfJson b with
      | some i, some a, some b =>
        some (.fn { id := i, arity := a, beh := b.eval,
                    openSlots := ((j.get? "open").bind JVal.nat?).getD 0 })
      | _, _, _ => none
    | _, _, _ => none

/-- `[[name, value], …]` -/
def pairsOfJson : JVal → Option (List (String × EVal))
  | .arr xs => xs.mapM fun
    | .arr [.str n, v] => (evalOfJson v).map fun e => (n, e)
    | _ => none
  | _ => none

def paramsOfJson : JVal → Option Params
  | .obj kvs => kvs.mapM fun (k, v) => v.str?.map fun s => (k, s)
  | _ => none

def paramsToJson (ps : Params) : JVal := .obj (ps.map fun (k, v) => (k, .str v))

def logToJson (es : List LogEntry) : JVal :=
  .arr (es.map fun (i, ps) => .arr [.num i, paramsToJson ps])

def jsonHex (j : JVal) : String := strToHex (String.ofList (render j))

def showResp : Resp → String
  | .ok b => s!"status=200 body={strToHex b}"
  | .bad => "status=400 body=" ++ strToHex "Invalid request"
  | .notFound => "status=404 body="
  | .notAllowed => "status=405 body="
  | .noAnswer => "status=none body="

def sortStrings (l : List String) : List String := (l.toArray.qsort (· < ·)).toList

mutual
def kvalOfJson : JVal → Option KVal
  | .arr [.str "pyint", .num n] => some (.pyint n)
  | .arr [.str "npint", .num n] => some (.npint n)
  | .arr [.str "real", .str l] => some (.real l)
  | .arr [.str "str", .str s] => some (.str s)
  | .arr [.str "arr", .arr xs] => (kvalsOfJson xs).map .arr
  | .arr [.str "dict", .obj kvs] => (kdictOfJson kvs).map .dict
  | .arr [.str "undef"] => some .undef
  | _ => none
def kvalsOfJson : List JVal → Option (List KVal)
  | [] => some []
  | j :: t =>
    match kvalOfJson j, kvalsOfJson t with
    | some v, some vs => some (v :: vs)
    | _, _ => none
def kdictOfJson : List (String × JVal) → Option (List (String × KVal))
  | [] => some []
  | (k, j) :: t =>
    match kvalOfJson j, kdictOfJson t with
    | some v, some vs => some ((k, v) :: vs)
    | _, _ => none
end

def wsEvsOfJson : JVal → Option (List Ws.Ev)
  | .arr xs => xs.mapM fun
    | .arr [.str "m", .str t] => some (.frame t.toList)
    | .arr [.str "d", .num i] => if 0 ≤ i then some (.redef i.toNat) else none
    | _ => none
  | _ => none

def wsLogToJson (es : List Ws.Entry) : JVal := .arr (es.map fun (i, j) => .arr [.num i, j])

structure State where
  web : Option Server := none

def init : State := {}

def handle (st : State) (ws : List String) : State × String :=
  match ws with
  | "web" :: rest =>
    let fs := fields rest
    let cap := match fieldD fs "cap" with
      | "early" => some Capture.early
      | "late" => some Capture.late
      | _ => none
    match cap, (jsonField fs "env").bind pairsOfJson, (jsonField fs "get").bind pairsOfJson,
          (jsonField fs "post").bind pairsOfJson with
    | some cap, some env, some gets, some posts =>
      let s := build cap env gets posts
      ({ web := some s },
       s!"ok get={",".intercalate (sortStrings (s.gets.map fun p => strToHex p.1))} post={",".intercalate (sortStrings (s.posts.map fun p => strToHex p.1))}")
    | _, _, _, _ => (st, "bad-op")
  | "def" :: rest =>
    let fs := fields rest
    match st.web, (fs.lookup "name").bind hexToStr, (jsonField fs "val").bind evalOfJson with
    | some s, some n, some v => ({ web := some (step s (.define n v)).1 }, "ok")
    | _, _, _ => (st, "bad-op")
  | "req" :: rest =>
    let fs := fields rest
    let m := match fieldD fs "m" with
      | "get" => some Method.get
      | "post" => some Method.post
      | _ => none
    let ps := match (jsonField fs "params").bind paramsOfJson with
      | some ps => some ps
      | none =>
        match m, (jsonField fs "query").bind paramsOfJson, (jsonField fs "form").bind paramsOfJson with
        | some m, some q, some f => some (paramsFor m q f)
        | _, _, _ => none
    match st.web, m, (fs.lookup "path").bind hexToStr, ps with
    | some s, some m, some p, some ps =>
      let (r, es) := request s m p ps
      (st, s!"ok {showResp r} log={jsonHex (logToJson es)}")
    | _, _, _, _ => (st, "bad-op")
  | "webc" :: _ =>
    match st.web with
    | some s =>
      match step s .webc with
      | (s', .closed r, _) => ({ web := some s' }, s!"ok ret={r}")
      | _ => (st, "bad-op")
    | none => (st, "bad-op")
  | "ws" :: rest =>
    let fs := fields rest
    match natField fs "handler", (jsonField fs "evs").bind wsEvsOfJson, (jsonField fs "raises") with
    | some h, some evs, some (.arr rs) =>
      let ids := rs.filterMap JVal.nat?
      let (s, log) := Ws.run (fun i _ => ids.contains i) { handler := h } evs
      (st, s!"ok alive={if s.alive then 1 else 0} log={jsonHex (wsLogToJson log)}")
    | _, _, _ => (st, "bad-op")
  | "send" :: rest =>
    let fs := fields rest
    match natField fs "scalars", (jsonField fs "val").bind kvalOfJson with
    | some sc, some v =>
      match send (sc != 0) v with
      | some t => (st, "ok text=" ++ strToHex (String.ofList t) ++ " view=" ++ jsonHex (jsonView v))
      | none => (st, "none")
    | _, _ => (st, "bad-op")
  | "parse" :: rest =>
    let fs := fields rest
    match (fs.lookup "text").bind hexToStr with
    | some t =>
      match parse t.toList with
      | some j => (st, "ok json=" ++ jsonHex j)
      | none => (st, "none")
    | none => (st, "bad-op")
  | _ => (st, "bad-op")

end Klong.C20
