/-
  C14 — `IpcClient`: labelled transition system of klongpy/sys_fn_ipc.py `NetworkClient`
  as seen by its callers.

  Mirrors (klongpy/sys_fn_ipc.py):
    NetworkClient.call                      -> caller-thread labels `check`, `reg`, `submit`
                                               and io-loop labels `send`, `drain`, `deliver`
                                               (the coroutine `send_message_and_get_result`)
    NetworkClient.close                     -> `check c true` (returns at once when not running,
                                               otherwise an ordinary call whose answer is the
                                               close object)
    NetworkClient._listen / stream_recv_msg -> `recv` (three `readexactly`, pop by id, set_result;
                                               close ack / remote close request / start of a server
                                               push request) and `served` (its evaluation has ended:
                                               result sent back, or the listener leaves)
    NetworkClient._run (except/finally)     -> `lexit` (writer := None, start of the cleanup)
    NetworkClient._cleanup_pending_responses-> `cl` (one iteration), `clr` (`d.clear()`)
        pinned : `for f in d.values(): f.set_exception(e)` then `d.clear()` — the iterator checks the
                 dictionary size on every `next` (CPython `dictiter_iternextvalue`)
        fixed  : `fs = list(d.values()); d.clear(); for f in fs: if not f.done(): f.set_exception(e)`
                 and `call` pops its id from the table when its coroutine ends
    ConnectionProvider.is_open              -> `provOpen` (changed by the environment: `provClose`)
    StreamReader.feed_data/feed_eof/set_exception -> environment labels `feed`, `eof`, `reset`
    StreamWriter.drain raising              -> environment label `breakWriter`

  Granularity: every label is one step that Python can interleave with steps of other threads.
  Caller-thread labels and environment labels are enabled in every listener state, also in the
  middle of the cleanup; io-loop labels other than `cl`/`clr` are not (the cleanup runs
  synchronously on the io-loop thread).  Single dictionary operations are atomic; the iteration
  of the pinned cleanup is not.

  Call ids: a call is named by its index `c`; the uuid the code draws is that name (the harness
  translates; uuid4 uniqueness is an assumption).  The server is adversarial: any bytes may be fed.
-/
import Klong.Model.Wire
namespace Klong.C14
open Klong.Wire

/-! ### frames (own small copy of the C13 encoding: 16-byte id, 4-byte big-endian length, body) -/

def beBytes : Nat → Nat → Bytes
  | 0, _ => []
  | k + 1, n => beBytes k (n / 256) ++ [n % 256]

def beVal (bs : Bytes) : Nat := bs.foldl (fun acc b => acc * 256 + b) 0

def encodeFrame (id : Nat) (body : Bytes) : Bytes :=
  beBytes 16 id ++ beBytes 4 body.length ++ body

/-- `stream_recv_msg` on a buffer: a complete frame and the rest, or `none` (must wait / EOF inside) -/
def decodeFrame (buf : Bytes) : Option (Nat × Bytes × Bytes) :=
  if buf.length < 20 then none
  else
    let len := beVal ((buf.drop 16).take 4)
    if buf.length < 20 + len then none
    else some (beVal (buf.take 16), (buf.drop 20).take len, buf.drop (20 + len))

/-! ### state -/

inductive Variant | pinned | fixed
deriving Repr, DecidableEq

/-- exception classes the cleanup hands to waiting callers -/
inductive Exc
  | lost      -- KlongIPCConnectionFailureException
  | closed    -- KGRemoteCloseConnectionException
deriving Repr, DecidableEq

inductive Fut
  | unres
  | res (b : Bytes)
  | failed (e : Exc)
deriving Repr, DecidableEq

inductive Outcome
  | ok (b : Bytes)   -- `call` returned the unpickled body
  | noop             -- `close()` on a client that is not running
  | notOpen          -- KlongException("connection not established")
  | sendErr          -- the send step raised (writer is None / drain failed)
  | exc (e : Exc)
deriving Repr, DecidableEq

inductive Phase
  | idle | checked | registered | submitted | sent | waiting
  | done (o : Outcome)
deriving Repr, DecidableEq

structure Call where
  phase : Phase := .idle
  fut : Fut := .unres
deriving Repr, DecidableEq

inductive Lst
  | listening
  | iterating (e : Exc) (todo : List Nat) (n : Nat)  -- pinned: inside `for f in d.values()`
  | snapped (e : Exc) (items : List Nat)             -- fixed: after `list(d.values())`
  | failing (e : Exc) (items : List Nat)             -- fixed: after `d.clear()`
  | exited                                           -- `_run_exit_event` set
  | crashed                                          -- the cleanup raised inside `finally`
deriving Repr, DecidableEq

inductive Label
  -- caller thread
  | check (c : Nat) (close : Bool)
  | reg (c : Nat)
  | submit (c : Nat)
  -- io loop
  | send (c : Nat)
  | drain (c : Nat)
  | deliver (c : Nat)
  | recv
  | served
  | clr
  | cl
  -- environment (server, network)
  | feed (b : Bytes)
  | eof
  | reset
  | provClose
  | breakWriter
deriving Repr, DecidableEq

def Label.isIo : Label → Bool
  | .send _ | .drain _ | .deliver _ | .recv | .served | .clr | .cl => true
  | _ => false

structure St where
  variant : Variant
  closeBody : Bytes          -- pickle of KGRemoteCloseConnection()
  failBodies : List Bytes    -- server-push requests whose local evaluation raises
  calls : Nat → Call
  n : Nat                    -- calls with index ≥ n have not started
  pending : List Nat         -- `pending_responses`, insertion order
  writer : Bool              -- `nc.writer is not None`
  provOpen : Bool            -- `conn_provider.is_open()`
  wrBroken : Bool            -- `writer.drain()` raises
  running : Bool
  lst : Lst
  inbuf : Bytes
  eof : Bool
  inErr : Bool
  serving : Option (Nat × Bytes)   -- a server push request being evaluated by the listener
  outbox : List (Nat × Bytes)      -- frames written (requests carry an empty body here)
  delivered : List (Nat × Bytes)   -- ghost: frames the listener matched to a pending id
  sentReqs : List Nat              -- ghost: calls whose request frame was handed to the writer

def init (v : Variant) (closeBody : Bytes) (failBodies : List Bytes) : St :=
  { variant := v, closeBody, failBodies, calls := fun _ => {}, n := 0, pending := [],
    writer := true, provOpen := true, wrBroken := false, running := true, lst := .listening,
    inbuf := [], eof := false, inErr := false, serving := none, outbox := [], delivered := [], sentReqs := [] }

def upd (f : Nat → Call) (c : Nat) (v : Call) : Nat → Call := fun k => if k = c then v else f k

def St.setPhase (s : St) (c : Nat) (p : Phase) : St :=
  { s with calls := upd s.calls c { s.calls c with phase := p } }

def St.setFut (s : St) (c : Nat) (f : Fut) : St :=
  { s with calls := upd s.calls c { s.calls c with fut := f } }

/-- the coroutine of call `c` ends: `fixed` pops its id from the table -/
def St.finish (s : St) (c : Nat) (o : Outcome) : St :=
  let s := s.setPhase c (.done o)
  match s.variant with
  | .pinned => s
  | .fixed => { s with pending := s.pending.erase c }

def Lst.cleaning : Lst → Bool
  | .iterating .. | .snapped .. | .failing .. => true
  | _ => false

/-- `_run`'s `finally`: `writer = None`, then the cleanup begins (iterator / snapshot created) -/
def St.lexit (s : St) (e : Exc) : St :=
  match s.variant with
  | .pinned => { s with writer := false, lst := .iterating e s.pending s.pending.length }
  | .fixed => { s with writer := false, lst := .snapped e s.pending }

def outcomeOf : Fut → Option Outcome
  | .unres => none
  | .res b => some (.ok b)
  | .failed e => some (.exc e)

/-- one step; `none` = the label is not enabled -/
def step (s : St) : Label → Option St
  | .check c close =>
    if (s.calls c).phase = .idle then
      let s : St := { s with n := max s.n (c + 1) }
      if close && !s.running then some (s.setPhase c (.done .noop))
      else if s.provOpen then some (s.setPhase c .checked)
      else some (s.setPhase c (.done .notOpen))
    else none
  | .reg c =>
    if (s.calls c).phase = .checked then
      some { s.setPhase c .registered with pending := s.pending ++ [c] }
    else none
  | .submit c =>
    if (s.calls c).phase = .registered then some (s.setPhase c .submitted) else none
  | .send c =>
    if (s.calls c).phase = .submitted && !s.lst.cleaning then
      -- `writer.write(frame)`: the whole frame in ONE step, nobody can write in between
      if s.writer then
        some { s.setPhase c .sent with
                outbox := s.outbox ++ [(c, [])], sentReqs := s.sentReqs ++ [c] }
      else some (s.finish c .sendErr)
    else none
  | .drain c =>
    if (s.calls c).phase = .sent && !s.lst.cleaning then
      if s.wrBroken then some (s.finish c .sendErr) else some (s.setPhase c .waiting)
    else none
  | .deliver c =>
    if (s.calls c).phase = .waiting && !s.lst.cleaning then
      match outcomeOf (s.calls c).fut with
      | some o => some (s.finish c o)
      | none => none
    else none
  | .recv =>
    if s.lst = .listening ∧ s.serving = none then
      if s.inErr then some (s.lexit .lost)
      else
        match decodeFrame s.inbuf with
        | none => if s.eof then some (s.lexit .lost) else none
        | some (id, body, rest) =>
          let s : St := { s with inbuf := rest }
          if id ∈ s.pending then
            let s : St := { s.setFut id (.res body) with
                        pending := s.pending.erase id, delivered := s.delivered ++ [(id, body)] }
            if body = s.closeBody then some ({ s with running := false }.lexit .closed) else some s
          else if body = s.closeBody then
            if s.wrBroken then some (s.lexit .lost)
            else some ({ s with running := false, outbox := s.outbox ++ [(id, body)] }.lexit .closed)
          else some { s with serving := some (id, body) }   -- `run_command_on_klongloop` starts
    else none
  | .served =>
    match s.serving with
    | some (id, body) =>
      if s.lst = .listening then
        let s : St := { s with serving := none }
        if body ∈ s.failBodies then some (s.lexit .lost)       -- evaluation raised: "unknown error"
        else if s.wrBroken then some (s.lexit .lost)           -- sending the result failed
        else some { s with outbox := s.outbox ++ [(id, body)] }
      else none
    | none => none
  | .clr =>
    match s.lst with
    | .snapped e items => some { s with pending := [], lst := .failing e items }
    | _ => none
  | .cl =>
    match s.lst with
    | .iterating e todo n =>
      if s.pending.length ≠ n then some { s with lst := .crashed }   -- RuntimeError: changed size
      else
        match todo with
        | [] => some { s with pending := [], lst := .exited }
        | c :: rest =>
          if (s.calls c).fut = .unres then some { s.setFut c (.failed e) with lst := .iterating e rest n }
          else some { s with lst := .crashed }                          -- InvalidStateError
    | .failing e items =>
      match items with
      | [] => some { s with lst := .exited }
      | c :: rest =>
        if (s.calls c).fut = .unres then some { s.setFut c (.failed e) with lst := .failing e rest }
        else some { s with lst := .failing e rest }
    | _ => none
  | .feed b => if s.eof then none else some { s with inbuf := s.inbuf ++ b }
  | .eof => some { s with eof := true }
  | .reset => some { s with inErr := true }
  | .provClose => some { s with provOpen := false }
  | .breakWriter => some { s with wrBroken := true }

def enabled (s : St) (l : Label) : Bool := (step s l).isSome

/-- run a schedule; labels that are not enabled are skipped (the state does not change) -/
def run (s : St) : List Label → St
  | [] => s
  | l :: ls => run ((step s l).getD s) ls

/-- run a schedule strictly: `none` as soon as a label is not enabled -/
def runStrict (s : St) : List Label → Option St
  | [] => some s
  | l :: ls => (step s l).bind (fun s' => runStrict s' ls)

/-- the io-loop labels that can be enabled at all in `s` (calls ≥ `n` are idle) -/
def ioLabels (s : St) : List Label :=
  [.recv, .served, .clr, .cl] ++ (List.range s.n).flatMap (fun c => [.send c, .drain c, .deliver c])

/-- decidable form of "no io-loop step is enabled" -/
def ioIdle (s : St) : Bool := (ioLabels s).all (fun l => !enabled s l)

/-- a caller blocked in `.result()` -/
def blocked (p : Phase) : Bool :=
  match p with
  | .submitted | .sent | .waiting => true
  | _ => false

/-- decidable: some started call is blocked -/
def anyBlocked (s : St) : Bool := (List.range s.n).any (fun c => blocked (s.calls c).phase)

/-! ### driver -/

def showExc : Exc → String
  | .lost => "lost"
  | .closed => "closed"

/-- bodies in digests: hex, or length + rolling hash when long (same rule in the harness) -/
def showBytes (b : Bytes) : String :=
  if b.length ≤ 64 then toHex b
  else s!"L{b.length}h{b.foldl (fun h x => (h * 31 + x) % 4294967296) 0}"

def showFut : Fut → String
  | .unres => "unres"
  | .res b => s!"res:{showBytes b}"
  | .failed e => s!"failed:{showExc e}"

def showOutcome : Outcome → String
  | .ok b => s!"ok:{showBytes b}"
  | .noop => "noop"
  | .notOpen => "notopen"
  | .sendErr => "senderr"
  | .exc e => s!"exc:{showExc e}"

def showPhase : Phase → String
  | .idle => "idle"
  | .checked => "checked"
  | .registered => "registered"
  | .submitted => "submitted"
  | .sent => "sent"
  | .waiting => "waiting"
  | .done o => s!"done:{showOutcome o}"

def showNats (l : List Nat) : String := ",".intercalate (l.map toString)

def showLst : Lst → String
  | .listening => "listening"
  | .iterating .. => "cleaning"
  | .snapped .. => "cleaning"
  | .failing .. => "cleaning"
  | .exited => "exited"
  | .crashed => "crashed"

def b01 (b : Bool) : String := if b then "1" else "0"

def digest (s : St) : String :=
  let calls := (List.range s.n).map fun c =>
    s!"{c}/{showPhase (s.calls c).phase}/{showFut (s.calls c).fut}"
  s!"lst={showLst s.lst} writer={b01 s.writer} running={b01 s.running} pending={showNats s.pending} " ++
  s!"calls={";".intercalate calls} out={s.outbox.length} wire={showNats (s.outbox.map (·.1))} idle={b01 (ioIdle s)} blocked={b01 (anyBlocked s)}"

/-- run-length form of a long feed: `hh*count,hh*count,...` -/
def parseRle (items : List String) : Option Bytes :=
  (items.mapM fun (it : String) =>
    match it.splitOn "*" with
    | [hx, n] => do
      let bs ← parseHex hx
      let n ← n.toNat?
      pure (List.replicate n bs).flatten
    | _ => none).map List.flatten

def parseLabel (ws : List String) : Option Label :=
  match ws with
  | op :: rest =>
    let fs := fields rest
    let c := natField fs "c"
    match op with
    | "check" => c.map fun c => .check c (fieldD fs "close" == "1")
    | "reg" => c.map .reg
    | "submit" => c.map .submit
    | "send" => c.map .send
    | "drain" => c.map .drain
    | "deliver" => c.map .deliver
    | "recv" => some .recv
    | "served" => some .served
    | "clr" => some .clr
    | "cl" => some .cl
    | "feed" =>
      match field fs "r" with
      | some _ => (parseRle (listField fs "r")).map .feed
      | none => (parseHex (fieldD fs "b")).map .feed
    | "eof" => some .eof
    | "reset" => some .reset
    | "provclose" => some .provClose
    | "breakwriter" => some .breakWriter
    | _ => none
  | [] => none

def handle (s : St) (ws : List String) : St × String :=
  match ws with
  | "new" :: rest =>
    let fs := fields rest
    let v := match fieldD fs "variant" with
      | "pinned" => some Variant.pinned
      | "fixed" => some Variant.fixed
      | _ => none
    match v, parseHex (fieldD fs "close"), (listField fs "fail").mapM parseHex with
    | some v, some cb, some fb => let s' := init v cb fb; (s', "ok " ++ digest s')
    | _, _, _ => (s, "bad-op")
  | "encode" :: rest =>
    let fs := fields rest
    match natField fs "id", parseHex (fieldD fs "b") with
    | some id, some b => (s, "frame=" ++ toHex (encodeFrame id b))
    | _, _ => (s, "bad-op")
  | _ =>
    match parseLabel ws with
    | some l =>
      match step s l with
      | some s' => (s', "ok " ++ digest s')
      | none => (s, "disabled " ++ digest s)
    | none => (s, "bad-op")

end Klong.C14
